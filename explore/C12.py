"""C12 -- validators accept exactly the valid parameters, keys, primes and polynomials.
E1: every enumerated input is passed to the real validator (bignParamsVal .. belsValM, *PubkeyVal/*KeypairVal, dstuPointVal,
stb99/pfok SeedVal/SeedAdj/ParamsGen, tmDateIsValid[2], priIsPrimeW/priIsPrime/priRMTest/priNextPrime[W]/priIsSieved/priIsSmooth,
ppIsIrred) and the verdict is compared with the specification-level reference (ref/ecp.py alg. 6.1.4, g12s.py, stb99.py, dstu.py,
pfok.py, bels.py, pri.py, polys.py, dates.py).  Dense ranges run inside drv/vh_c12.c (calls only); the oracle is evaluated here.

Enumerated spaces (quick / thorough):
  dates    ALL 6-tuples over {0,1,2,3,8,9,10,0x30,0xFF} / {0..10,15,0x30,0x39,0xFF}; (y,m,d) in [1580,2105]x[0,13]x[0,32] + far years
  primes   priIsPrimeW on every n < 2^16 / 2^24, windows +-2^13 / +-2^16 around 2^31, 2^32, 2^63, 2^64-1, psi_2..psi_4, 4759123141 (cfg rel, w32);
           every composite p(k(p-1)+1), k = 2..6, p < 2^24 / 2^26; all Carmichael numbers < 10^10 / 10^11 (Korselt construction, count checked);
           least strong pseudoprimes psi_1..psi_13, products of primes adjacent to 2^16 / 2^32, primes/orders of all standard sets and
           their products, multi-word Chernick numbers -- through priIsPrimeW, priIsPrime (n and n+1 words), priRMTest;
           priNextPrimeW / priNextPrime from every a < 2^16 and the last 2^12 values below 2^l, l in {8,16,17,31,32,33,63,64};
           priIsSieved / priIsSmooth on the same ranges x base_count in {0,1,2,10,100,1024} x n in {1,2}
  polys    ppIsIrred on ALL polynomials of degree <= 16 (n = 1, thorough also n = 2); degree 128/192/256: the 51 standard bels polynomials,
           their coefficient flips, products of irreducibles, x^k multiples, every x^l + c (c < 2^8 / 2^12), filler-valued ones; belsValM on the same
  params   30 standard sets x each field x {bit 0,1,7,mid,top,bitlen-1, +1, -1, 0, swap with neighbour, scheme-specific: q+2, 3q, p+4, yG->p-yG,
           G->2G, seed+1, ...}; a crafted g12s curve of known composite order (CM, D = -11); stb99/pfok seeds x each entry x boundary values
  keys     bign/bign96 public keys and key pairs, dstu points, pfok public keys: on/off curve, twist, x = p, y = p, x = p + x0, y = p + y0, ...
"""
import itertools, math, os, sys, time
import vf, common
import pri, polys, dates, ecp, belt
import bign as RBign
import g12s as RG, stb99 as RS, dstu as RD, pfok as RP, bels as RB

PROP = 'C12'
SIZE_MAX = (1 << 64) - 1
ERR_OK, BAD_INPUT, BAD_PARAMS, BAD_PRIVKEY, BAD_PUBKEY, BAD_SEED = 0, 109, 502, 504, 505, 524
RM_ITER = 24          # priRMTest iterations used where "composite rejected" is asserted (error <= 4^-24 per composite)

def wbits(L):
    return 8 * L.wbytes
def nwords(L, bits):
    return max(1, -(-bits // wbits(L)))
def bit(raw, i):
    return (raw[i >> 3] >> (i & 7)) & 1
def stack(A, n):
    return A.buf(max(1, n), 0xC3)

class Res:
    """result of one job: evaluations, outcome classes, mismatches grouped by violation key (first record + count)"""
    def __init__(self):
        self.n = 0; self.out = {}; self.mism = {}; self.extra = {}
    def outc(self, label, k=1):
        self.out[label] = self.out.get(label, 0) + k
    def bad(self, key, rec, msg):
        m = self.mism.get(key)
        if m is None:
            self.mism[key] = [rec, msg, 1]
        else:
            m[2] += 1
    def pack(self):
        return {'n': self.n, 'out': self.out, 'mism': self.mism, 'extra': self.extra}

# ================================================================== struct layouts (checked against sizeof at start)
LAY = {
    'bign':  (336, [('l', 0, 8), ('p', 8, 64), ('a', 72, 64), ('b', 136, 64), ('q', 200, 64), ('yG', 264, 64), ('seed', 328, 8)]),
    'g12s':  (412, [('l', 0, 4), ('p', 4, 68), ('a', 72, 68), ('b', 140, 68), ('q', 208, 64), ('n', 272, 4), ('xP', 276, 68), ('yP', 344, 68)]),
    'dstu':  (272, [('p0', 0, 2), ('p1', 2, 2), ('p2', 4, 2), ('p3', 6, 2), ('A', 8, 1), ('B', 9, 64), ('n', 73, 64), ('c', 140, 4), ('P', 144, 128)]),
    'pfok':  (760, [('l', 0, 8), ('r', 8, 8), ('n', 16, 8), ('p', 24, 368), ('g', 392, 368)]),
    'stb99': (976, [('l', 0, 8), ('r', 8, 8), ('p', 16, 308), ('q', 324, 33), ('a', 357, 308), ('d', 665, 308)]),
}
LAY['bign96'] = LAY['bign']
SEEDLAY = {'stb99': (296, [('zi', 8, 2, 31), ('di', 72, 8, 18), ('ri', 216, 8, 10)]),
           'pfok':  (232, [('zi', 8, 2, 31), ('li', 72, 8, 20)])}
SIZEOF_IDX = {'bign': 1, 'g12s': 2, 'dstu': 3, 'pfok': 4, 'stb99': 6}
VALFN = {'bign': 'bignParamsVal', 'bign96': 'bign96ParamsVal', 'g12s': 'g12sParamsVal', 'dstu': 'dstuParamsVal',
         'pfok': 'pfokParamsVal', 'stb99': 'stb99ParamsVal'}
BIGN_NAMES = {128: '1.2.112.0.2.0.34.101.45.3.1', 192: '1.2.112.0.2.0.34.101.45.3.2', 256: '1.2.112.0.2.0.34.101.45.3.3'}
BIGN96_NAME = '1.2.112.0.2.0.34.101.45.3.0'

def pack(scheme, D):
    """dict of ints -> struct octets (None when a value does not fit its array)"""
    size, fields = LAY[scheme]
    b = bytearray(size)
    for name, off, n in fields:
        if scheme == 'dstu' and name == 'P':
            no = (D['p0'] + 7) // 8
            if not 0 < no <= 64 or D['Px'] >> (8 * no) or D['Py'] >> (8 * no):
                return None
            b[off:off + no] = D['Px'].to_bytes(no, 'little'); b[off + no:off + 2 * no] = D['Py'].to_bytes(no, 'little')
            continue
        v = D[name]
        if v < 0 or v >> (8 * n):
            return None
        b[off:off + n] = v.to_bytes(n, 'little')
    return bytes(b)

def unpack(scheme, blob):
    """struct octets -> dict of ints, decoding exactly the octets the header declares as used"""
    size, fields = LAY[scheme]
    raw = {name: blob[off:off + n] for name, off, n in fields}
    le = lambda x: int.from_bytes(x, 'little')
    if scheme == 'g12s':
        l = le(raw['l'])
        D = {'l': l, 'n': le(raw['n'])}
        if l in (256, 512):
            pn = 68 * l // 512
            D['p'] = le(raw['p'][:pn]); D['q'] = le(raw['q'][:l // 8])
            no = (D['p'].bit_length() + 7) // 8
            for f in ('a', 'b', 'xP', 'yP'):
                D[f] = le(raw[f][:no])
        else:
            for f in ('p', 'a', 'b', 'q', 'xP', 'yP'):
                D[f] = le(raw[f])
        return D
    if scheme == 'dstu':
        D = {f: le(raw[f]) for f in ('p0', 'p1', 'p2', 'p3', 'A', 'c')}
        no = min(64, (D['p0'] + 7) // 8)
        D['B'] = le(raw['B'][:no]); D['n'] = le(raw['n'][:no])
        D['Px'] = le(raw['P'][:no]); D['Py'] = le(raw['P'][no:2 * no])
        return D
    return {name: le(raw[name]) for name, off, n in fields}

def pack_seed(scheme, S):
    size, fields = SEEDLAY[scheme]
    b = bytearray(size)
    b[0:8] = (S['l'] & SIZE_MAX).to_bytes(8, 'little')
    for name, off, w, cnt in fields:
        for i, v in enumerate(S[name]):
            b[off + i * w: off + (i + 1) * w] = (v & ((1 << (8 * w)) - 1)).to_bytes(w, 'little')
    return bytes(b)

def unpack_seed(scheme, blob):
    size, fields = SEEDLAY[scheme]
    S = {'l': int.from_bytes(blob[0:8], 'little')}
    for name, off, w, cnt in fields:
        S[name] = [int.from_bytes(blob[off + i * w: off + (i + 1) * w], 'little') for i in range(cnt)]
    return S

# ================================================================== reference verdicts
def ref_params(scheme, D):
    """-> (True | False | None, note).  None = the reference cannot classify (not compared)"""
    if scheme in ('bign', 'bign96'):
        l = D['l']
        if (scheme == 'bign' and l not in (128, 192, 256)) or (scheme == 'bign96' and l != 96):
            return False, 'l'
        p, q = D['p'], D['q']
        if not ((1 << (2 * l - 1)) < p < (1 << (2 * l)) and (1 << (2 * l - 1)) < q < (1 << (2 * l))):
            return False, 'p or q is not a 2l-bit number'
        if not pri.is_prime(p):
            return False, 'p not prime'
        if not pri.is_prime(q):
            return False, 'q not prime'
        if not (0 < D['a'] < p and 0 < D['b'] < p and 0 <= D['yG'] < p):
            return False, 'a, b, yG out of range'
        ps = {'l': l, 'p': p, 'a': D['a'], 'b': D['b'], 'q': q, 'xG': 0, 'yG': D['yG'], 'seed': D['seed'].to_bytes(8, 'little')}
        bad = ecp.validate_params(ps, belt.hash, 50)
        if bad == ['Hasse bound violated']:
            return None, 'only the Hasse bound (not a condition of alg. 6.1.4) separates this case'
        return (not bad), '; '.join(bad)
    if scheme == 'g12s':
        return RG.params_val(D), ''
    if scheme == 'stb99':
        v = RS.params_val(D)
        note = ''
        if not v and D['l'] in RS.LS and pri.is_prime(D['p']):
            note = 'stb99.h: 0 < a, d < p' if not (0 < D['a'] < D['p'] and 0 < D['d'] < D['p']) else \
                   'stb99.h: a differs from the identity of B_p' if D['a'] == RS.mont_R(D) % D['p'] else 'stb99.h: l/r table, q | p - 1 prime, a = d^((p-1)/q)'
        return v, note
    if scheme == 'pfok':
        return RP.params_val(D), ''
    if scheme == 'dstu':
        P = {'p': (D['p0'], D['p1'], D['p2'], D['p3']), 'A': D['A'], 'B': D['B'], 'n': D['n'], 'c': D['c'], 'P': (D['Px'], D['Py'])}
        return RD.params_val(P), ''
    raise ValueError(scheme)

def dstu_dict(P):
    m, k1, k2, k3 = P['p']
    pt = P['P'] if P.get('P') else (0, 0)
    return {'p0': m, 'p1': k1, 'p2': k2, 'p3': k3, 'A': P['A'], 'B': P['B'], 'n': P['n'], 'c': P['c'], 'Px': pt[0], 'Py': pt[1]}

def ref_std(scheme, name):
    """reference table entry as a field dict"""
    if scheme == 'bign':
        l = [k for k, v in BIGN_NAMES.items() if v == name][0]
        ps = ecp.params_by_level(l)
    elif scheme == 'bign96':
        ps = ecp.params_by_level(96)
    if scheme in ('bign', 'bign96'):
        return {'l': ps['l'], 'p': ps['p'], 'a': ps['a'], 'b': ps['b'], 'q': ps['q'], 'yG': ps['yG'], 'seed': int.from_bytes(ps['seed'], 'little')}
    if scheme == 'g12s':
        return dict(RG.params_std(name))
    if scheme == 'stb99':
        return dict(RS.params_std(name))
    if scheme == 'pfok':
        return dict(RP.params_std(name))
    if scheme == 'dstu':
        return dstu_dict(RD.params_std(name))
    raise ValueError(scheme)

STD_SETS = ([('bign', n) for n in BIGN_NAMES.values()] + [('bign96', BIGN96_NAME)] + [('g12s', n) for n in RG.STD_NAMES] +
            [('stb99', n) for n in RS.STD_NAMES] + [('dstu', n) for n in RD.STD_NAMES] + [('pfok', n) for n in RP.STD_NAMES])

def lib_std(L, A, scheme, name):
    """(code, struct octets, seed octets or None) from the library's *ParamsStd"""
    size = LAY[scheme][0]
    b = A.buf(size, 0)
    nm = A.buf(name.encode() + b'\0')
    if scheme in ('stb99', 'pfok'):
        s = A.buf(SEEDLAY[scheme][0], 0)
        code = L.err(scheme + 'ParamsStd', b, s, nm)
        return code, b.get(), s.get()
    code = L.err(scheme + 'ParamsStd', b, nm)
    return code, b.get(), None

# ================================================================== dates
def date2_class(d, got, exp):
    if got and not exp:
        return 'tmDateIsValid2:non-decimal-octet-accepted' if any(c > 9 for c in d) else 'tmDateIsValid2:nonexistent-date-accepted'
    return 'tmDateIsValid2:valid-date-rejected'

def k_date2_all(L, c, R):
    """slice i0 of ALL 6-tuples over the alphabet"""
    alpha = bytes(c['alpha']); k = len(alpha); i0 = c['i0']
    total = k ** 6
    with vf.Arena(L) as A:
        bits = A.buf((total + 7) // 8, 0)
        L.call('vh_c12_date2_all', A.buf(alpha), k, bits)
        raw = bits.get()
    idx = i0 * k ** 5
    first = bytes([alpha[i0]])
    valid = 0
    for t in itertools.product(alpha, repeat=5):
        d = first + bytes(t)
        exp = dates.date6_is_valid(d)
        got = bit(raw, idx); idx += 1
        valid += exp
        if got != exp:
            R.bad(date2_class(d, got, exp), {'cfg': L.cfg, 'kind': 'date2', 'date': d.hex()},
                  'tmDateIsValid2({%s}) = %d, tm.h ("each octet is one decimal digit", Gregorian date of 20YY) demands %d' % (
                      ','.join('0x%02X' % x for x in d), got, exp))
    R.n += k ** 5
    R.outc('date2 valid', valid); R.outc('date2 invalid', k ** 5 - valid)

def k_date2(L, c, R):
    d = bytes.fromhex(c['date'])
    with vf.Arena(L) as A:
        got = L.boolean('tmDateIsValid2', A.buf(d))
    exp = dates.date6_is_valid(d)
    R.n += 1
    if got != int(exp):
        R.bad(date2_class(d, got, exp), dict(c), 'tmDateIsValid2({%s}) = %d, tm.h ("each octet is one decimal digit", Gregorian date of 20YY) demands %d' % (
            ','.join('0x%02X' % x for x in d), got, exp))

def k_date_range(L, c, R):
    y0, y1, m0, m1, d0, d1 = (c[k] for k in ('y0', 'y1', 'm0', 'm1', 'd0', 'd1'))
    n = (y1 - y0 + 1) * (m1 - m0 + 1) * (d1 - d0 + 1)
    with vf.Arena(L) as A:
        bits = A.buf((n + 7) // 8, 0)
        L.call('vh_c12_date_range', y0, y1, m0, m1, d0, d1, bits)
        raw = bits.get()
    idx = 0
    for y in range(y0, y1 + 1):
        for m in range(m0, m1 + 1):
            for d in range(d0, d1 + 1):
                exp = dates.date_is_valid(y, m, d); got = bit(raw, idx); idx += 1
                R.outc('date valid' if exp else 'date invalid')
                if got != exp:
                    R.bad('tmDateIsValid:%s' % ('invalid-accepted' if got else 'valid-rejected'),
                          {'cfg': L.cfg, 'kind': 'date_range', 'y0': y, 'y1': y, 'm0': m, 'm1': m, 'd0': d, 'd1': d},
                          'tmDateIsValid(%d, %d, %d) = %d, Gregorian calendar (tm.h: y >= 1583) demands %d' % (y, m, d, got, exp))
    R.n += n

# ================================================================== primes
_SIEVE = None
def prepare_sieve(limit):
    """flags[n] = n is prime, n < limit (Eratosthenes from ref/pri.py)"""
    global _SIEVE
    if _SIEVE is None or len(_SIEVE) < limit:
        f = bytearray(limit)
        for p in pri.small_primes(limit):
            f[p] = 1
        _SIEVE = f

def ref_prime(x):
    if _SIEVE is not None and x < len(_SIEVE):
        return bool(_SIEVE[x])
    return pri.is_prime(x)

def k_isprimew(L, c, R):
    s, n = c['start'], c['count']
    assert s + n <= 1 << wbits(L)
    with vf.Arena(L) as A:
        bits = A.buf((n + 7) // 8, 0)
        L.call('vh_c12_isprimew', s, n, bits, stack(A, L.sz('priIsPrimeW_deep')))
        raw = bits.get()
    np_ = 0
    for i in range(n):
        exp = ref_prime(s + i); got = bit(raw, i)
        np_ += exp
        if got != exp:
            R.bad('priIsPrimeW:%s' % ('composite-accepted' if got else 'prime-rejected'), {'cfg': L.cfg, 'kind': 'isprimew', 'start': s + i, 'count': 1},
                  'priIsPrimeW(%d) = %d [%s], reference (sieve / deterministic Miller-Rabin): %d' % (s + i, got, L.cfg, exp))
    R.n += n; R.outc('word prime', np_); R.outc('word composite', n - np_)

def k_nextprimew(L, c, R):
    s, n = c['start'], c['count']
    assert s + n <= 1 << wbits(L)
    with vf.Arena(L) as A:
        out = A.buf(8 * n, 0)
        L.call('vh_c12_nextprimew', s, n, out, stack(A, L.sz('priNextPrimeW_deep')))
        raw = out.get()
    for i in range(n):
        a = s + i
        got = int.from_bytes(raw[8 * i:8 * i + 8], 'little')
        exp = pri.next_prime(a) or 0
        R.outc('next prime found' if exp else 'next prime: none')
        if got != exp:
            R.bad('priNextPrimeW:%s' % ('false-instead-of-prime' if not got else 'prime-instead-of-false' if not exp else 'wrong-prime'),
                  {'cfg': L.cfg, 'kind': 'nextprimew', 'start': a, 'count': 1},
                  'priNextPrimeW(%d) -> %s [%s], pri.h (least odd prime in [a, 2^bitlen(a))): %s' % (a, got or 'FALSE', L.cfg, exp or 'FALSE'))
    R.n += n

def k_nextprime(L, c, R):
    s, n, nw, trials, bc, it = (c[k] for k in ('start', 'count', 'n', 'trials', 'base_count', 'iter'))
    with vf.Arena(L) as A:
        out = A.buf(8 * n, 0)
        L.call('vh_c12_nextprime', s, n, nw, trials, bc, it, out, stack(A, L.sz('priNextPrime_deep', nw, bc)))
        raw = out.get()
    for i in range(n):
        a = s + i
        got = int.from_bytes(raw[8 * i:8 * i + 8], 'little')
        exp = pri.next_prime(a, None if trials == SIZE_MAX else trials) or 0
        R.outc('next prime found' if exp else 'next prime: none')
        if got != exp:
            R.bad('priNextPrime:%s:%s' % ('false-instead-of-prime' if not got else 'prime-instead-of-false' if not exp else 'wrong-prime',
                                          'a-with-leading-zero-words' if a.bit_length() <= wbits(L) * (nw - 1) else 'normalized'),
                  dict(c, start=a, count=1),
                  'priNextPrime([%d words] %d, trials=%s, base_count=%d, iter=%d) -> %s [%s], pri.h (least odd prime in [a, 2^bitlen(a)) among the first '
                  'trials candidates): %s' % (nw, a, 'SIZE_MAX' if trials == SIZE_MAX else trials, bc, it, got or 'FALSE', L.cfg, exp or 'FALSE'))
    R.n += n

def k_sieved(L, c, R):
    fn = c['kind']          # 'sieved' | 'smooth'
    s, n, nw, bc = (c[k] for k in ('start', 'count', 'n', 'base_count'))
    with vf.Arena(L) as A:
        bits = A.buf((n + 7) // 8, 0)
        if fn == 'sieved':
            L.call('vh_c12_sieved', s, n, nw, bc, bits, stack(A, L.sz('priIsSieved_deep', bc)))
        else:
            L.call('vh_c12_smooth', s, n, nw, bc, bits, stack(A, L.sz('priIsSmooth_deep', nw)))
        raw = bits.get()
    name = 'priIsSieved' if fn == 'sieved' else 'priIsSmooth'
    f = pri.is_sieved if fn == 'sieved' else pri.is_smooth
    for i in range(n):
        a = s + i
        exp = f(a, bc); got = bit(raw, i)
        R.outc('%s %s' % (name, 'yes' if exp else 'no'))
        if got != exp:
            R.bad('%s:%s' % (name, 'accepted' if got else 'rejected'), dict(c, start=a, count=1),
                  '%s([%d words] %d, base_count=%d) = %d [%s], pri.h contract: %d' % (name, nw, a, bc, got, L.cfg, exp))
    R.n += n

PADS = (0, 1)
def lib_primeval(L, v, iters=(RM_ITER,)):
    """every applicable primality function of the library on v -> {label: verdict}"""
    out = {}
    with vf.Arena(L) as A:
        if v < 1 << wbits(L):
            out['priIsPrimeW'] = L.boolean('priIsPrimeW', v, stack(A, L.sz('priIsPrimeW_deep')))
        n0 = nwords(L, v.bit_length())
        for pad in (PADS if v.bit_length() < 1100 else (0,)):
            n = n0 + pad
            out['priIsPrime[n=%d]' % n] = L.boolean('priIsPrime', A.words(v, n), n, stack(A, L.sz('priIsPrime_deep', n)))
        for it in iters:
            out['priRMTest[iter=%d]' % it] = L.boolean('priRMTest', A.words(v, n0), n0, it, stack(A, L.sz('priRMTest_deep', n0)))
    return out

def judge_primeval(L, v, cls, R):
    exp = pri.is_prime(v)
    res = lib_primeval(L, v, (RM_ITER, 1) if exp else (RM_ITER,))
    R.n += len(res)
    R.outc('%s: %s' % (cls, 'prime' if exp else 'composite'))
    for label, got in res.items():
        if got != exp:
            fn = label.split('[')[0]
            R.bad('%s:%s' % (fn, 'composite-accepted' if got else 'prime-rejected'), {'cfg': L.cfg, 'kind': 'primeval', 'vals': [str(v)], 'cls': cls},
                  '%s(%d) = %d [%s, class %s], reference: %s' % (label, v, got, L.cfg, cls, 'prime' if exp else 'composite'))

def k_primeval(L, c, R):
    for s in c['vals']:
        judge_primeval(L, int(s), c.get('cls', ''), R)

def k_isprime_range(L, c, R):
    """priIsPrime / priRMTest on every n of a dense range (small numbers take the special branch a < 49)"""
    for v in range(c['start'], c['start'] + c['count']):
        judge_primeval(L, v, 'range', R)

def carm_for_p1(p1, limit, primes):
    """all Carmichael numbers < limit whose least prime factor is p1, built from Korselt's criterion:
    n = P q, q = 1/P mod lcm(p_i - 1), (q - 1) | (P - 1)"""
    out = []
    def rec(P, Lc, last, k):
        if k >= 2 and math.gcd(P, Lc) == 1:
            q = pow(P, -1, Lc)
            hi = min((limit - 1) // P, P)
            if q <= last:
                q += ((last - q) // Lc + 1) * Lc
            while q <= hi:
                if (P - 1) % (q - 1) == 0 and pri.is_prime(q):
                    out.append(P * q)
                q += Lc
        for r in primes:
            if r <= last:
                continue
            if P * r * r >= limit:
                break
            if Lc % r == 0 or math.gcd(P, r - 1) != 1:
                continue
            rec(P * r, Lc * (r - 1) // math.gcd(Lc, r - 1), r, k + 1)
    rec(p1, p1 - 1, p1, 1)
    return out

def k_pqfam(L, c, R):
    """composites n = p (k (p - 1) + 1), p and the cofactor prime: the family that contains most strong pseudoprimes to several bases"""
    W = wbits(L)
    with vf.Arena(L) as A:
        st = stack(A, L.sz('priIsPrimeW_deep'))
        for p in range(c['p0'] | 1, c['p1'], 2):
            if not pri.is_prime(p):
                continue
            for k in c['ks']:
                q = k * (p - 1) + 1
                n = p * q
                if n >> W or not pri.is_prime(q):
                    continue
                R.n += 1
                if L.boolean('priIsPrimeW', n, st):
                    R.bad('priIsPrimeW:composite-accepted', {'cfg': L.cfg, 'kind': 'isprimew', 'start': n, 'count': 1},
                          'priIsPrimeW(%d) = 1 [%s], but %d = %d * %d' % (n, L.cfg, n, p, q))
    R.outc('p(k(p-1)+1) composite', R.n)

_CARM_PRIMES = {}
def k_carm(L, c, R):
    limit = c['limit']
    if limit not in _CARM_PRIMES:
        _CARM_PRIMES[limit] = pri.small_primes(math.isqrt(limit) + 2)[1:]
    cs = carm_for_p1(c['p1'], limit, _CARM_PRIMES[limit])
    for v in cs:
        judge_primeval(L, v, 'carmichael', R)
    R.extra['carm'] = len(cs)

# ================================================================== polynomials
def k_irred(L, c, R):
    s, n, nw = c['start'], c['count'], c['n']
    with vf.Arena(L) as A:
        bits = A.buf((n + 7) // 8, 0)
        L.call('vh_c12_irred', s, n, nw, bits, stack(A, L.sz('ppIsIrred_deep', nw)))
        raw = bits.get()
    for i in range(n):
        f = s + i
        exp = polys.is_irreducible(f); got = bit(raw, i)      # Rabin = Ben-Or = trial division by all factors of degree <= deg/2
        R.outc('irreducible' if exp else 'reducible')
        if got != exp:
            R.bad('ppIsIrred:%s' % ('reducible-accepted' if got else 'irreducible-rejected'), dict(c, start=f, count=1),
                  'ppIsIrred([%d words] 0x%X, degree %d) = %d [%s], brute-force factor search: %d' % (nw, f, polys.deg(f), got, L.cfg, exp))
    R.n += n

def k_irred_big(L, c, R):
    cls = c.get('cls', '')
    for hx in c['polys']:
        f = int(hx, 16)
        exp = polys.is_irreducible(f)
        n0 = nwords(L, f.bit_length())
        R.outc('%s: %s' % (cls, 'irreducible' if exp else 'reducible'))
        for pad in (0, 1):
            n = n0 + pad
            with vf.Arena(L) as A:
                got = L.boolean('ppIsIrred', A.words(f, n), n, stack(A, L.sz('ppIsIrred_deep', n)))
            R.n += 1
            if got != exp:
                R.bad('ppIsIrred:%s' % ('reducible-accepted' if got else 'irreducible-rejected'), {'cfg': L.cfg, 'kind': 'irred_big', 'polys': [hx], 'cls': cls},
                      'ppIsIrred([%d words] 0x%X, degree %d, class %s) = %d [%s], reference (Rabin and Ben-Or): %d' % (n, f, polys.deg(f), cls, got, L.cfg, exp))
        ln = polys.deg(f) // 8
        if polys.deg(f) % 8 == 0 and ln in RB.LENS:
            m = (f ^ (1 << (8 * ln))).to_bytes(ln, 'little')
            with vf.Arena(L) as A:
                code = L.err('belsValM', A.buf(m), ln)
            R.n += 1
            R.outc('belsValM code %d' % code)
            if (code == ERR_OK) != RB.val_m(m) or RB.val_m(m) != exp:
                R.bad('belsValM:%s' % ('reducible-accepted' if code == ERR_OK else 'irreducible-rejected'),
                      {'cfg': L.cfg, 'kind': 'irred_big', 'polys': [hx], 'cls': cls},
                      'belsValM(%s, %d) = %d [%s, class %s], x^%d + m(x) is %s' % (m.hex(), ln, code, L.cfg, cls, 8 * ln, 'irreducible' if exp else 'reducible'))

def k_bels_std(L, c, R):
    """belsStdM(len, num) equals table A.1-A.4 of the reference and validates"""
    ln, num = c['len'], c['num']
    with vf.Arena(L) as A:
        b = A.buf(ln, 0)
        code = L.err('belsStdM', b, ln, num)
        m = b.get()
        vcode = L.err('belsValM', A.buf(m), ln)
    R.n += 2
    exp = RB.std_m(ln, num)
    if code != ERR_OK or m != exp:
        R.bad('belsStdM:table', dict(c), 'belsStdM(len=%d, num=%d) = %d, m = %s, STB 34.101.60 table: %s' % (ln, num, code, m.hex(), exp.hex()))
    if not RB.val_m(exp):
        raise AssertionError('reference: standard bels key is not irreducible')
    if m == exp and vcode != ERR_OK:
        R.bad('belsValM:irreducible-rejected', dict(c), 'belsValM(standard key len=%d num=%d %s) = %d' % (ln, num, m.hex(), vcode))
    R.outc('bels std ok')

# ================================================================== long-term parameters
def k_std(L, c, R):
    scheme, name = c['scheme'], c['name']
    with vf.Arena(L) as A:
        code, blob, seed = lib_std(L, A, scheme, name)
        vcode = L.err(VALFN[scheme], A.buf(blob))
    R.n += 2
    D0 = ref_std(scheme, name)
    got = unpack(scheme, blob)
    want = {k: D0[k] for k in got}
    if code != ERR_OK or got != want or pack(scheme, D0) != blob:
        R.bad('%sParamsStd:table' % scheme, dict(c), '%sParamsStd(%s) = %d; fields differing from the standard\'s table: %s' % (
            scheme, name, code, [k for k in got if got[k] != want[k]] or 'unused octets'))
    exp, note = ref_params(scheme, D0)
    no_point = scheme == 'dstu' and D0['Px'] == 0 and D0['Py'] == 0
    if not exp and not no_point:
        raise AssertionError('reference rejects the standard set %s %s: %s' % (scheme, name, note))
    R.outc('std %s: %s' % (scheme, 'validates' if vcode == ERR_OK else 'code %d' % vcode))
    if (vcode == ERR_OK) != bool(exp):
        R.bad('%s:standard-set-%s' % (VALFN[scheme], 'rejected' if exp else 'without-base-point-accepted'), dict(c),
              '%s(standard set %s) = %d, reference verdict: %s' % (VALFN[scheme], name, vcode, 'valid' if exp else 'invalid'))
    if seed is not None:
        S0 = (RS if scheme == 'stb99' else RP).seed_std(name)
        if unpack_seed(scheme, seed) != S0:
            R.bad('%sParamsStd:seed-table' % scheme, dict(c), '%sParamsStd(%s): seed differs from the table' % (scheme, name))

def k_params(L, c, R):
    scheme = c['scheme']; blob = bytes.fromhex(c['blob'])
    with vf.Arena(L) as A:
        code = L.err(VALFN[scheme], A.buf(blob))
    D = unpack(scheme, blob)
    exp, note = ref_params(scheme, D)
    R.n += 1
    R.outc('%s code %d' % (VALFN[scheme], code))
    if exp is None:
        R.outc('unclassified by the reference'); return
    R.outc('%s %s %s' % (scheme, c.get('pert', '?').split(':')[0], 'stays valid' if exp else 'invalid'))
    if (code == ERR_OK) != exp:
        R.bad('%s:%s:%s' % (VALFN[scheme], 'invalid-accepted' if code == ERR_OK else 'valid-rejected', c.get('pert', '?') if ',' in c.get('pert', '').split(':')[0] or c.get('name', '').startswith('CM') else c.get('pert', '?').split(':')[0]), dict(c),
              '%s(%s with %s) = %d [%s], reference validator: %s %s' % (VALFN[scheme], c.get('name', ''), c.get('pert', ''), code, L.cfg,
                                                                     'valid' if exp else 'invalid', '(' + note + ')' if note else ''))
    elif code not in (ERR_OK, BAD_PARAMS):
        R.outc('rejected with a code other than ERR_BAD_PARAMS: %d' % code)

def k_batch(L, c, R):
    """several cases of one standard set in one job (the reference's primality results are memoised per process)"""
    for sub in c['cases']:
        KINDS[sub['kind']](L, dict(sub, cfg=c['cfg']), R)

def big_fields(scheme, D0):
    """[(field, used octets)] of the multi-octet number fields in struct order"""
    if scheme in ('bign', 'bign96'):
        w = D0['l'] // 4
        return [('p', w), ('a', w), ('b', w), ('q', w), ('yG', w), ('seed', 8)]
    if scheme == 'g12s':
        no = (D0['p'].bit_length() + 7) // 8
        return [('p', no), ('a', no), ('b', no), ('q', D0['l'] // 8), ('xP', no), ('yP', no)]
    if scheme == 'dstu':
        no = (D0['p0'] + 7) // 8
        return [('B', no), ('n', no), ('Px', no), ('Py', no)]
    if scheme == 'stb99':
        no, ro = (D0['l'] + 7) // 8, (D0['r'] + 7) // 8
        return [('p', no), ('q', ro), ('a', no), ('d', no)]
    if scheme == 'pfok':
        no = (D0['l'] + 7) // 8
        return [('p', no), ('g', no)]

def small_fields(scheme, D0):
    """[(field, alternative values)]"""
    if scheme in ('bign', 'bign96'):
        return [('l', [96, 128, 192, 256, D0['l'] + 1, D0['l'] - 1, 0, 512, D0['l'] + (1 << 32)])]
    if scheme == 'g12s':
        return [('l', [256, 512, 0, 255, 257, 384]), ('n', [0, 1, 2, 4, D0['n'] + 1, 0xFFFFFFFF])]
    if scheme == 'dstu':
        m = D0['p0']
        return [('p0', [m - 1, m + 1, 0, 159, 510]), ('p1', [D0['p1'] + 1, D0['p1'] - 1, 0, m]), ('p2', [D0['p2'] + 1, 0, D0['p1']]),
                ('p3', [D0['p3'] + 1, 0, D0['p2']]), ('A', [0, 1, 2, 255]), ('c', [0, 1, 2, 4, D0['c'] + 1, 0xFFFFFFFF])]
    if scheme == 'stb99':
        i = RS.LS.index(D0['l'])
        return [('l', [D0['l'] + 1, D0['l'] - 1, RS.LS[(i + 1) % 10], 0]), ('r', [D0['r'] + 1, D0['r'] - 1, RS.RS[(i + 1) % 10], 0])]
    if scheme == 'pfok':
        i = RP.LS.index(D0['l'])
        return [('l', [D0['l'] + 1, D0['l'] - 1, RP.LS[(i + 1) % 21], 0]), ('r', [D0['r'] + 1, D0['r'] - 1, RP.RS[(i + 1) % 21], 0]),
                ('n', [0, 1, D0['l'] - 1, D0['l'], D0['l'] + 1, 1 << 32])]

def perturbations(scheme, D0):
    """yield (label, dict) -- each FIELD x each PERTURBATION of the design list"""
    bf = big_fields(scheme, D0)
    for i, (f, w) in enumerate(bf):
        v = D0[f]; W = 8 * w; M = (1 << W) - 1
        bits = sorted(set([0, 1, 7, W // 2, W - 1] + ([v.bit_length() - 1] if v else [])))
        for b in bits:
            yield '%s:bit%d' % (f, b), dict(D0, **{f: v ^ (1 << b)})
        yield '%s:+1' % f, dict(D0, **{f: (v + 1) & M})
        yield '%s:-1' % f, dict(D0, **{f: (v - 1) & M})
        yield '%s:zero' % f, dict(D0, **{f: 0})
        if i + 1 < len(bf):
            g, w2 = bf[i + 1]
            if not (D0[g] >> W) and not (v >> (8 * w2)):
                yield '%s:swap-%s' % (f, g), dict(D0, **{f: D0[g], g: v})
    for f, alts in small_fields(scheme, D0):
        for a in alts:
            if a >= 0 and a != D0[f]:
                yield '%s:=%d' % (f, a), dict(D0, **{f: a})
    def fits(f, v):
        return v >= 0 and not (v >> (8 * dict(bf)[f]))
    if scheme in ('bign', 'bign96'):
        p, q = D0['p'], D0['q']
        for lab, f, v in (('q:q+2', 'q', q + 2), ('q:3q', 'q', 3 * q), ('p:p+4', 'p', p + 4), ('p:p-4', 'p', p - 4), ('yG:p-yG', 'yG', p - D0['yG']),
                          ('yG:yG+p', 'yG', D0['yG'] + p), ('seed:seed+1', 'seed', (D0['seed'] + 1) & SIZE_MAX), ('a:a+p', 'a', D0['a'] + p),
                          ('b:b+p', 'b', D0['b'] + p), ('b:p-b', 'b', p - D0['b']), ('q:p', 'q', p), ('q:next-prime', 'q', pri.next_prime(q + 2) or 0)):
            if fits(f, v):
                yield lab, dict(D0, **{f: v})
    if scheme == 'g12s':
        p, q, a = D0['p'], D0['q'], D0['a']
        G = (D0['xP'], D0['yP'])
        G2 = RG.ec_mul(2, G, a, p); Gq1 = RG.ec_mul(q - 1, G, a, p)
        for lab, ch in (('q:q+2', {'q': q + 2}), ('q:3q', {'q': 3 * q}), ('p:p+4', {'p': p + 4}), ('yP:p-yP', {'yP': p - G[1]}),
                        ('G:2G', {'xP': G2[0], 'yP': G2[1]}), ('G:(q-1)G', {'xP': Gq1[0], 'yP': Gq1[1]}), ('xP:xP+p', {'xP': G[0] + p}),
                        ('yP:yP+p', {'yP': G[1] + p}), ('a:a+p', {'a': a + p}), ('b:b+p', {'b': D0['b'] + p}), ('xP:p', {'xP': p}), ('q:p', {'q': p}),
                        ('G:(0,0)', {'xP': 0, 'yP': 0}), ('q:n*q', {'q': D0['n'] * q, 'n': 1})):
            if all(fits(f, v) for f, v in ch.items() if f != 'n'):
                yield lab, dict(D0, **ch)
    if scheme == 'dstu':
        P = {'p': (D0['p0'], D0['p1'], D0['p2'], D0['p3']), 'A': D0['A'], 'B': D0['B'], 'n': D0['n'], 'c': D0['c']}
        pt = (D0['Px'], D0['Py'])
        if pt != (0, 0):
            P2 = RD.ec_add(P, pt, pt); Pn = RD.ec_neg(pt)
            m = D0['p0']
            fl = RD.F(P)
            for lab, ch in (('n:n+2', {'n': D0['n'] + 2}), ('n:3n', {'n': 3 * D0['n']}), ('n:c*n', {'n': D0['c'] * D0['n']}), ('P:2P', {'Px': P2[0], 'Py': P2[1]}),
                            ('P:-P', {'Px': Pn[0], 'Py': Pn[1]}), ('P:(0,sqrtB)', {'Px': 0, 'Py': fl.sqrt(D0['B'])}), ('P:(0,0)', {'Px': 0, 'Py': 0}),
                            ('Px:bit-m', {'Px': pt[0] | (1 << m)} if m % 8 else {}), ('B:bit-m', {'B': D0['B'] | (1 << m)} if m % 8 else {}),
                            ('A:flip', {'A': D0['A'] ^ 1})):
                if ch and all(fits(f, v) for f, v in ch.items() if f in dict(bf)):
                    yield lab, dict(D0, **ch)
    if scheme == 'stb99':
        p, q = D0['p'], D0['q']
        a2 = D0['a'] * D0['a'] * pow(RS.mont_R(D0), -1, p) % p
        for lab, f, v in (('q:q+2', 'q', q + 2), ('q:3q', 'q', 3 * q), ('p:p+4', 'p', p + 4), ('p:p+2q', 'p', p + 2 * q), ('a:a*a', 'a', a2),
                          ('d:p-d', 'd', p - D0['d']), ('a:p-a', 'a', p - D0['a']), ('a:e', 'a', RS.mont_R(D0) % p), ('d:e', 'd', RS.mont_R(D0) % p),
                          ('a:a+p', 'a', D0['a'] + p), ('d:d+p', 'd', D0['d'] + p), ('d:p', 'd', p), ('a:p', 'a', p), ('d:a', 'd', D0['a'])):
            if fits(f, v):
                yield lab, dict(D0, **{f: v})
        # the pair (a, d) is tied by a = d^((p-1)/q): consistent alterations of BOTH (beyond "single field"; stb99.h lists 0 < a, d < p and a != e)
        Ri = pow(RS.mont_R(D0), -1, p); e = RS.mont_R(D0) % p
        yield 'a,d:zero', dict(D0, a=0, d=0)
        yield 'a,d:e', dict(D0, a=e, d=e)
        yield 'a,d:squares', dict(D0, a=a2, d=D0['d'] * D0['d'] * Ri % p)
    if scheme == 'pfok':
        p, g = D0['p'], D0['g']
        R_ = RP.mont_R(D0)
        g2 = g * g * pow(R_, -1, p) % p
        for lab, f, v in (('p:p+4', 'p', p + 4), ('p:p+2', 'p', p + 2), ('g:g*g', 'g', g2), ('g:p-g', 'g', p - g), ('g:e', 'g', R_ % p), ('g:p-e', 'g', p - R_ % p),
                          ('g:g+p', 'g', g + p), ('g:p', 'g', p), ('g:g+1', 'g', g + 1), ('g:g+2', 'g', g + 2), ('g:g+3', 'g', g + 3)):
            if fits(f, v):
                yield lab, dict(D0, **{f: v})

# ================================================================== keys
def bign_ctx(l):
    ps = ecp.params_by_level(l)
    return ps, ecp.Curve(ps['p'], ps['a'], ps['b']), (0, ps['yG']), ps['q'], l // 4

def cubic_roots(a, c, p):
    """roots of x^3 + a x + c mod p (p prime) when there is exactly one, else []: gcd(x^p - x, f) computed in GF(p)[x]/(f)"""
    def mulmod(u, v):
        r = [0] * 5
        for i, ui in enumerate(u):
            for j, vj in enumerate(v):
                r[i + j] = (r[i + j] + ui * vj) % p
        for d in (4, 3):                       # x^3 = -a x - c
            t = r[d]; r[d] = 0
            r[d - 2] = (r[d - 2] - a * t) % p; r[d - 3] = (r[d - 3] - c * t) % p
        return r[:3]
    acc = [1, 0, 0]; base = [0, 1, 0]
    for bit_ in bin(p)[2:]:
        acc = mulmod(acc, acc)
        if bit_ == '1':
            acc = mulmod(acc, base)
    h = [acc[0], (acc[1] - 1) % p, acc[2]]      # x^p - x mod f
    f = [c % p, a % p, 0, 1]
    def trim(u):
        while u and u[-1] == 0:
            u = u[:-1]
        return u
    u, v = f, trim(h)
    while v:
        inv = pow(v[-1], -1, p)
        while len(u) >= len(v):
            k = u[-1] * inv % p; sh = len(u) - len(v)
            u = trim([(ui - k * v[i - sh]) % p if i >= sh else ui for i, ui in enumerate(u)])
            if not u:
                break
        u, v = v, u
    if len(u) != 2:
        return []
    return [(-u[0]) * pow(u[1], -1, p) % p]

def bign_key_cases(l):
    """[(label, kind, privkey int or None, (x, y))] -- x, y any integers below 2^(2l)"""
    ps, E, G, q, no = bign_ctx(l)
    p = ps['p']; M = 1 << (8 * no)
    pts = []
    ds = [1, 2, 3, q - 1, q - 2, (q + 1) // 2, int.from_bytes(vf.filler('C12/d/%d' % l, no), 'little') % q or 5]
    for d in ds:
        Q = E.mul(d, G)
        pts.append(('on-curve dG d=%s' % (d if d < 4 else 'q-%d' % (q - d) if q - d < 4 else 'big'), Q))
    Q = E.mul(ds[-1], G); x, y = Q
    pts += [('off-curve (x,y+1)', (x, (y + 1) % p)), ('off-curve (x+1,y)', ((x + 1) % p, y)), ('off-curve (y,x)', (y, x)),
            ('x=p', (p, G[1])), ('y=p', (x, p)), ('(p,p)', (p, p)), ('(0,0)', (0, 0)), ('(0,sqrt b)=G', G), ('(0,-sqrt b)=-G', E.neg(G)),
            ('-Q', E.neg(Q)), ('all-FF', (M - 1, M - 1)), ('(0,1)', (0, 1)), ('(1,0)', (1, 0)), ('(p-1,p-1)', (p - 1, p - 1))]
    # twist: -y^2 = x^3 + a x + b (p = 3 mod 4: -1 is a non-residue) -- the least x whose right-hand side is a non-residue
    xt = 1
    while ecp.legendre(E.rhs(xt), p) != -1:
        xt += 1
    yt = ecp.sqrt_mod((-E.rhs(xt)) % p, p)
    assert (yt * yt + E.rhs(xt)) % p == 0
    pts.append(('twist point', (xt, yt)))
    # x = p + x0 and y = p + y0 when they fit
    for x0 in range(0, M - p):
        ys = E.lift_x(x0)
        if ys:
            pts.append(('x=p+x0 (x0=%d on curve)' % x0, (p + x0, ys[0][1]))); break
    for y0 in range(1, M - p):              # a curve point with y0 < 2^(2l) - p: its y-coordinate plus p still fits
        xs = cubic_roots(ps['a'], ps['b'] - y0 * y0, p)
        if xs:
            assert E.is_on((xs[0], y0))
            pts.append(('y=p+y0 (y0=%d on curve)' % y0, (xs[0], p + y0)))
            pts.append(('on-curve (x, y0=%d)' % y0, (xs[0], y0)))
            break
    out = [(lab, 'pubkey', None, pt) for lab, pt in pts]
    for d in (0, 1, 2, q - 1, q, q + 1, M - 1, ds[-1]):
        dm = d % q
        base = E.mul(dm, G) if dm else None
        cands = [('dG', base), ('-dG', E.neg(base) if base else None), ('(d+1)G', E.mul((dm + 1) % q, G) if (dm + 1) % q else None),
                 ('(0,0)', (0, 0)), ('G', G)]
        for lab, Qc in cands:
            if Qc is not None:
                dl = str(d) if d < 3 else 'q%+d' % (d - q) if abs(d - q) < 3 else '2^%d-1' % (8 * no) if d == M - 1 else 'big'
                out.append(('d=%s Q=%s' % (dl, lab), 'keypair', d, Qc))
    return out

def k_bignkey(L, c, R):
    l = c['l']; sch = 'bign96' if l == 96 else 'bign'
    ps, E, G, q, no = bign_ctx(l)
    x, y = int(c['x']), int(c['y'])
    pub = x.to_bytes(no, 'little') + y.to_bytes(no, 'little')
    with vf.Arena(L) as A:
        code0, blob, _ = lib_std(L, A, sch, BIGN96_NAME if l == 96 else BIGN_NAMES[l])
        assert code0 == ERR_OK
        pb = A.buf(blob)
        if c['what'] == 'pubkey':
            code = L.err(sch + 'PubkeyVal', pb, A.buf(pub))
            exp = ERR_OK if (x < ps['p'] and y < ps['p'] and E.is_on((x, y))) else BAD_PUBKEY
            assert (exp == ERR_OK) == RBign.pubkey_is_valid(l, pub)
        else:
            d = int(c['d'])
            code = L.err(sch + 'KeypairVal', pb, A.buf(d.to_bytes(no, 'little')), A.buf(pub))
            if not 0 < d < q:
                exp = BAD_PRIVKEY
            else:
                exp = ERR_OK if E.mul(d, G) == (x, y) else BAD_PUBKEY
            assert {ERR_OK: 'OK', BAD_PRIVKEY: 'BAD_PRIVKEY', BAD_PUBKEY: 'BAD_PUBKEY'}[exp] == RBign.keypair_val(l, d.to_bytes(no, 'little'), pub)
    R.n += 1
    fn = sch + ('PubkeyVal' if c['what'] == 'pubkey' else 'KeypairVal')
    R.outc('%s code %d' % (fn, code))
    if code != exp:
        cls = 'invalid-accepted' if code == ERR_OK else 'valid-rejected' if exp == ERR_OK else 'wrong-error-code'
        R.bad('%s:%s' % (fn, cls), dict(c), '%s(l=%d, %s%s) = %d [%s], expected %d (%s)' % (
            fn, l, 'd=%s, ' % hex(int(c['d'])) if c['what'] != 'pubkey' else '', 'Q=(%s, %s)' % (hex(x), hex(y)), code, L.cfg, exp, c.get('label', '')))

_DSTU_FULL = {}
def dstu_full(name):
    """reference standard set with a base point (table value or generated by 6.8 from a filler tape)"""
    if name not in _DSTU_FULL:
        _DSTU_FULL[name] = _dstu_full(name)
    P, tape = _DSTU_FULL[name]
    return dict(P), tape

def _dstu_full(name):
    P = RD.params_std(name)
    no = (P['p'][0] + 7) // 8
    tape = vf.filler('C12/dstu/' + name, 64 * no, seed=1)
    if P.get('P') is None:
        P['P'] = RD.point_gen(P, tape)
    return P, tape

def k_dstupoint(L, c, R):
    """dstuPointVal / dstuPointGen against section 10.1 / 6.8"""
    P, tape = dstu_full(c['name'])
    no = (P['p'][0] + 7) // 8
    blob = pack('dstu', dstu_dict(P))
    with vf.Arena(L) as A:
        pb = A.buf(blob)
        if c['what'] == 'gen':
            g, st, t = vf.make_tape(A, tape)
            out = A.buf(2 * no, 0)
            code = L.err('dstuPointGen', out, pb, g, st)
            exp = RD.point_gen(RD.params_std(c['name']), tape)
            R.n += 1
            if code != ERR_OK or t.over or out.get() != RD.encode_point(P, exp):
                R.bad('dstuPointGen:differs', dict(c), 'dstuPointGen(%s, tape) = %d, point %s, reference (6.8) %s' % (c['name'], code, out.get().hex(), RD.encode_point(P, exp).hex()))
            return
        x, y = int(c['x']), int(c['y'])
        code = L.err('dstuPointVal', pb, A.buf(x.to_bytes(no, 'little') + y.to_bytes(no, 'little')))
    exp = RD.point_val(P, (x, y))
    R.n += 1; R.outc('dstuPointVal code %d' % code)
    if (code == ERR_OK) != exp:
        R.bad('dstuPointVal:%s' % ('invalid-accepted' if code == ERR_OK else 'valid-rejected'), dict(c),
              'dstuPointVal(%s, (%s, %s)) = %d [%s], section 10.1 (on the curve, order n): %s (%s)' % (c['name'], hex(x), hex(y), code, L.cfg, exp, c.get('label', '')))

def dstu_point_cases(name, nrec=6):
    P, _ = dstu_full(name)
    fl = RD.F(P); m = P['p'][0]; no = (m + 7) // 8
    pt = P['P']
    out = [('base point', pt), ('2P', RD.ec_add(P, pt, pt)), ('-P', RD.ec_neg(pt)), ('(n-1)P', RD.ec_mul(P, P['n'] - 1, pt)), ('(0,sqrt B) order 2', (0, fl.sqrt(P['B']))),
           ('(0,0)', (0, 0)), ('off-curve (x,y+1)', (pt[0], pt[1] ^ 1)), ('off-curve (x+1,y)', (pt[0] ^ 1, pt[1])), ('(y,x)', (pt[1], pt[0])),
           ('all-FF', ((1 << (8 * no)) - 1,) * 2)]
    if m % 8:
        out += [('x with bit m set', (pt[0] | (1 << m), pt[1])), ('y with bit m set', (pt[0], pt[1] | (1 << m)))]
    # curve points with the least x-coordinates: orders n, 2n, (4n): in the subgroup or not
    got = 0
    for xc in range(2, 400):
        try:
            q = RD.recover(P, xc)
        except ValueError:
            continue
        out.append(('curve point recovered from x~%d' % xc, q)); got += 1
        if got >= nrec:
            break
    return out

def k_pfokkey(L, c, R):
    P = RP.params_std(c['name'])
    no = (P['l'] + 7) // 8
    y = int(c['y'])
    with vf.Arena(L) as A:
        code = L.err('pfokPubkeyVal', A.buf(pack('pfok', P)), A.buf(y.to_bytes(no, 'little')))
    exp = RP.pubkey_val(P, y)
    R.n += 1; R.outc('pfokPubkeyVal code %d' % code)
    if (code == ERR_OK) != exp:
        R.bad('pfokPubkeyVal:%s' % ('invalid-accepted' if code == ERR_OK else 'valid-rejected'), dict(c),
              'pfokPubkeyVal(%s, y=%s) = %d, 0 < y < p: %s (%s)' % (c['name'], hex(y), code, exp, c.get('label', '')))

# ================================================================== seeds, generation
def seed_perturbations(scheme, S0):
    R_ = RS if scheme == 'stb99' else RP
    chains = ['di', 'ri'] if scheme == 'stb99' else ['li']
    def mod(**kw):
        S = {k: (list(v) if isinstance(v, list) else v) for k, v in S0.items()}
        for k, v in kw.items():
            if isinstance(v, tuple):
                S[k][v[0]] = v[1]
            else:
                S[k] = v
        return S
    yield 'std', mod()
    i = R_.LS.index(S0['l'])
    for v in (S0['l'] + 1, S0['l'] - 1, R_.LS[(i + 1) % len(R_.LS)], R_.LS[i - 1], 0, 1 << 32):
        yield 'l=%d' % v, mod(l=v)
    for k in (0, 15, 30):
        for v in (0, 1, 65256, 65257, 65535):
            yield 'zi[%d]=%d' % (k, v), mod(zi=(k, v))
    yield 'zi=0', mod(zi=[0] * 31)
    for ch in chains:
        c0 = S0[ch]; t = max(j for j, v in enumerate(c0) if v)
        for j in range(0, min(t + 2, len(c0))):
            for v in sorted(set([c0[j] + 1, max(c0[j] - 1, 0), 0, 2 * c0[j], c0[j] // 2])):
                if v != c0[j]:
                    yield '%s[%d]=%d' % (ch, j, v), mod(**{ch: (j, v)})
        for v in (16, 17, 32, 33):
            yield '%s[t]=%d' % (ch, v), mod(**{ch: (t, v)})
        if t + 2 < len(c0):
            yield '%s[t+2]=20' % ch, mod(**{ch: (t + 2, 20)})
        # EVERY entry of the chain array, also far behind the end of the standard chain: garbage there must be refused ...
        for j in range(t + 1, len(c0)):
            for v in (1, 20):
                yield '%s[%d]=%d (behind the chain)' % (ch, j, v), mod(**{ch: (j, v)})
        # ... and long slowly descending chains that use the whole array (valid or not: the reference decides)
        for num, den in ((4, 5), (3, 4), (7, 10), (2, 3), (9, 10)):
            for first in (c0[0], c0[0] - 1):
                lc = [first]
                while len(lc) < len(c0) and lc[-1] * num // den >= 17:
                    lc.append(lc[-1] * num // den + (1 if len(lc) % 2 else 0))
                lc += [0] * (len(c0) - len(lc))
                yield '%s=long chain x%d/%d from %d (%d entries)' % (ch, num, den, first, sum(1 for v in lc if v)), mod(**{ch: lc})
        yield '%s=0' % ch, mod(**{ch: [0] * len(c0)})
        yield '%s=0,zi=0' % ch, mod(**{ch: [0] * len(c0), 'zi': [0] * 31})
    # default chains of every level (SeedAdj on an empty seed) and every level with the standard set's chains
    for l in R_.LS + [0, 637, 639, 2463]:
        Z = {'l': l, 'zi': [0] * 31}
        for ch in chains:
            Z[ch] = [0] * len(S0[ch])
        yield 'empty l=%d' % l, Z

def k_seed(L, c, R):
    scheme = c['scheme']; blob = bytes.fromhex(c['blob'])
    R_ = RS if scheme == 'stb99' else RP
    S = unpack_seed(scheme, blob)
    with vf.Arena(L) as A:
        vcode = L.err(scheme + 'SeedVal', A.buf(blob))
        b = A.buf(blob)
        acode = L.err(scheme + 'SeedAdj', b)
        after = b.get()
    expv = R_.seed_val(S); expa = R_.seed_adj(S)
    R.n += 2
    R.outc('%sSeedVal code %d' % (scheme, vcode)); R.outc('%sSeedAdj code %d' % (scheme, acode))
    if (vcode == ERR_OK) != expv:
        R.bad('%sSeedVal:%s' % (scheme, 'invalid-accepted' if vcode == ERR_OK else 'valid-rejected'), dict(c),
              '%sSeedVal(%s: %s) = %d, conditions listed in %s.h: %s' % (scheme, c.get('pert', ''), S, vcode, scheme, expv))
    if (acode == ERR_OK) != (expa is not None):
        R.bad('%sSeedAdj:%s' % (scheme, 'invalid-accepted' if acode == ERR_OK else 'valid-rejected'), dict(c),
              '%sSeedAdj(%s: %s) = %d, documented result: %s' % (scheme, c.get('pert', ''), S, acode, expa))
    elif expa is not None and unpack_seed(scheme, after) != expa:
        R.bad('%sSeedAdj:wrong-defaults' % scheme, dict(c), '%sSeedAdj(%s: %s) -> %s, documented defaults: %s' % (scheme, c.get('pert', ''), S, unpack_seed(scheme, after), expa))

def k_gen(L, c, R):
    """stb99ParamsGen from the standard seed reproduces the standard set = the reference generator's output"""
    scheme, name = c['scheme'], c['name']
    R_ = RS if scheme == 'stb99' else RP
    S = R_.seed_std(name)
    with vf.Arena(L) as A:
        out = A.buf(LAY[scheme][0], 0)
        t0 = time.time()
        if scheme == 'stb99':
            code = L.err('stb99ParamsGen', out, A.buf(pack_seed(scheme, S)))
        else:
            qtrace = []
            def on_q(qp, n, num):
                qtrace.append((int.from_bytes(_ct.string_at(qp, n * L.wbytes), 'little'), num))
            cb = _ct.CFUNCTYPE(None, _ct.c_void_p, _ct.c_size_t, _ct.c_size_t)(on_q)
            code = L.err('pfokParamsGen', out, A.buf(pack_seed(scheme, S)), cb if c.get('on_q') else None)
        R.extra['gen_s'] = round(time.time() - t0, 2)
        got = unpack(scheme, out.get())
        vcode = L.err(VALFN[scheme], out)
    if scheme == 'pfok':
        etrace = []
        exp = R_.params_gen(S, on_q=lambda q, num: etrace.append((q, num)))
        etrace.append((etrace[-1][0], 0))        # pfok.c announces the accepted q once more with num = 0
        if c.get('on_q') and qtrace != etrace:
            R.bad('pfokParamsGen:on_q-trace', dict(c), 'pfokParamsGen(seed of %s): on_q saw %d candidates %s.., the reference chain has %d: %s..' % (
                name, len(qtrace), [hex(q)[:20] + '/%d' % n for q, n in qtrace[:3]], len(etrace), [hex(q)[:20] + '/%d' % n for q, n in etrace[:3]]))
    else:
        exp = R_.params_gen(S)
    R.n += 2
    keys = [k for k in got if k != 'n']          # pfok: n is not produced by the generator's algorithm
    if code != ERR_OK or any(got[k] != exp[k] for k in keys):
        R.bad('%sParamsGen:differs' % scheme, dict(c), '%sParamsGen(seed of %s) = %d; fields differing from the reference generator: %s' % (
            scheme, name, code, [k for k in keys if got[k] != exp[k]]))
    std = R_.params_std(name)
    # pfok: the standard sets list some generator g, not the least one the documented procedure (g = 1, 2, ...) returns
    if any(exp[k] != std[k] for k in keys if not (scheme == 'pfok' and k == 'g')):
        raise AssertionError('reference generator does not reproduce the standard set ' + name)
    if code == ERR_OK and vcode != ERR_OK:
        R.bad('%s:generated-set-rejected' % VALFN[scheme], dict(c), '%s(generated %s) = %d' % (VALFN[scheme], name, vcode))


# ================================================================== generators driven by caller callbacks (bignParamsGen, pfokParamsGen on_q)
import ctypes as _ct
ERR_NO_RESULT = 118
CB_CAP = 1234          # code returned by the scripted on_seed() when the call budget is used up

def bigngen_model(D, calc_script, seed_script, cap):
    """STB 34.101.45 alg. 6.1.3 as bign.h documents bignParamsGen: -> (code, final dict | None, trace)"""
    l, p, a = D['l'], D['p'], D['a']
    seed = D['seed']; trace = []; nq = 0; ns = 0
    std = ecp.params_by_level(l)
    while True:
        ns += 1
        trace.append('seed:%016x' % seed)
        if ns > cap:
            return CB_CAP, None, trace
        if ns <= len(seed_script) and seed_script[ns - 1]:
            return seed_script[ns - 1], None, trace
        b = ecp.seed_b({'l': l, 'p': p, 'a': a, 'seed': seed.to_bytes(8, 'little')}, belt.hash)
        cur = seed
        seed = (seed + 1) % (1 << 64)
        if (4 * a ** 3 + 27 * b * b) % p == 0 or ecp.jacobi(b, p) != 1:
            continue
        nq += 1
        trace.append('calc_q:b=%x' % b)
        act = calc_script[nq - 1] if nq <= len(calc_script) else 'std'
        if act == 'std':
            act = ('q:%x' % std['q']) if (p, a, b) == (std['p'], std['a'], std['b']) else 'noresult'
        if act == 'noresult':
            continue
        if act.startswith('err:'):
            return int(act[4:]), None, trace
        q = int(act[2:], 16)
        if q.bit_length() == 2 * l and q != p and pri.is_prime(q) and all(pow(p, m, q) != 1 for m in range(1, 51)):
            return ERR_OK, {'l': l, 'p': p, 'a': a, 'b': b, 'q': q, 'yG': pow(b, (p + 1) // 4, p), 'seed': cur}, trace

def k_bigngen(L, c, R):
    D = {k: int(v) for k, v in c['D'].items()}
    calc_script, seed_script, cap = c['calc'], c['seeds'], c['cap']
    std = ecp.params_by_level(D['l']) if D['l'] in (128, 192, 256) else None
    trace = []; state = {'nq': 0, 'ns': 0}
    size = LAY['bign'][0]
    def rd(ptr):
        return unpack('bign', _ct.string_at(ptr, size))
    def on_seed(ptr, st):
        state['ns'] += 1
        trace.append('seed:%016x' % rd(ptr)['seed'])
        if state['ns'] > cap:
            return CB_CAP
        if state['ns'] <= len(seed_script) and seed_script[state['ns'] - 1]:
            return seed_script[state['ns'] - 1]
        return 0
    def calc_q(ptr, st):
        P = rd(ptr)
        state['nq'] += 1
        trace.append('calc_q:b=%x' % P['b'])
        act = calc_script[state['nq'] - 1] if state['nq'] <= len(calc_script) else 'std'
        if act == 'std':
            act = ('q:%x' % std['q']) if std and (P['p'], P['a'], P['b']) == (std['p'], std['a'], std['b']) else 'noresult'
        if act == 'noresult':
            return ERR_NO_RESULT
        if act.startswith('err:'):
            return int(act[4:])
        q = int(act[2:], 16)
        _ct.memmove(ptr + 200, q.to_bytes(64, 'little'), 64)
        return 0
    CB = _ct.CFUNCTYPE(_ct.c_uint32, _ct.c_void_p, _ct.c_void_p)
    cq, os_ = CB(calc_q), CB(on_seed)
    blob = pack('bign', D)
    with vf.Arena(L) as A:
        pb = A.buf(blob)
        code = L.err('bignParamsGen', pb, None if c.get('null_calc') else cq, None if c.get('null_on_seed') else os_, 0)
        got = unpack('bign', pb.get()); raw = pb.get()
        vcode = L.err('bignParamsVal', pb) if code == ERR_OK else None
    R.n += 1
    exp = c.get('expect_code')
    if exp is not None:                  # argument errors documented in bign.h
        R.outc('bignParamsGen argument error %d' % code)
        if code != exp:
            R.bad('bignParamsGen:argument:%s' % c['label'], dict(c), 'bignParamsGen(%s) = %d, bign.h: %d' % (c['label'], code, exp))
        return
    ecode, efin, etrace = bigngen_model(D, calc_script, seed_script, cap)
    if c.get('null_on_seed'):
        etrace = [t for t in etrace if not t.startswith('seed:')]
    R.outc('bignParamsGen code %d after %d seeds' % (ecode, sum(t.startswith('seed:') for t in etrace)))
    if trace != etrace:
        k = next((i for i, (x, y) in enumerate(zip(trace, etrace)) if x != y), min(len(trace), len(etrace)))
        R.bad('bignParamsGen:callback-trace:%s' % c['label'], dict(c), 'bignParamsGen(%s): callbacks diverge from alg. 6.1.3 at call %d: got %s, expected %s (lengths %d / %d)' % (
            c['label'], k, trace[k:k + 2], etrace[k:k + 2], len(trace), len(etrace)))
    elif code != ecode:
        R.bad('bignParamsGen:code:%s' % c['label'], dict(c), 'bignParamsGen(%s) = %d, expected %d' % (c['label'], code, ecode))
    elif code == ERR_OK:
        diff = [k for k in efin if got[k] != efin[k]]
        if diff:
            R.bad('bignParamsGen:result:%s' % c['label'], dict(c), 'bignParamsGen(%s): fields %s differ from alg. 6.1.3 (e.g. %s: %x / %x)' % (c['label'], diff, diff[0], got[diff[0]], efin[diff[0]]))
        elif vcode != ERR_OK:
            R.bad('bignParamsVal:generated-set-rejected', dict(c), 'bignParamsVal(generated set, %s) = %d' % (c['label'], vcode))
        no = D['l'] // 4
        for f, off, n in LAY['bign'][1]:
            if f in ('b', 'q', 'yG') and any(raw[off + no:off + n]):
                R.bad('bignParamsGen:padding', dict(c), 'bignParamsGen(%s): unused octets of %s are not zero' % (c['label'], f))

def bigngen_cases(l, quick):
    std = ecp.params_by_level(l)
    s0 = int.from_bytes(bytes(std['seed']), 'little')
    base = {'l': l, 'p': std['p'], 'a': std['a'], 'b': 0, 'q': 0, 'yG': 0}
    def D(seed, **kw):
        d = dict(base, seed=seed % (1 << 64)); d.update(kw); return {k: str(v) for k, v in d.items()}
    out = []
    def add(label, Dd, calc=(), seeds=(), cap=40, **kw):
        out.append(dict(kind='bigngen', label='l=%d %s' % (l, label), D=Dd, calc=list(calc), seeds=list(seeds), cap=cap, **kw))
    for k in range(0, 4 if quick else 12):
        add('from seed - %d' % k, D(s0 - k))
    add('from seed, no on_seed', D(s0), null_on_seed=1)
    # the first seed before the standard one whose b passes the discriminant / residue filter: calc_q answers a bad q there
    k = 1
    while True:
        b = ecp.seed_b({'l': l, 'p': std['p'], 'a': std['a'], 'seed': ((s0 - k) % (1 << 64)).to_bytes(8, 'little')}, belt.hash)
        if (4 * std['a'] ** 3 + 27 * b * b) % std['p'] and ecp.jacobi(b, std['p']) == 1:
            break
        k += 1
    p = std['p']
    comp = (1 << (2 * l - 1)) + 15
    while pri.is_prime(comp): comp += 2
    short = pri.next_prime(1 << (2 * l - 2))
    for lab, act in (('q = p', 'q:%x' % p), ('q composite', 'q:%x' % comp), ('q one bit short', 'q:%x' % short), ('q = 0', 'q:0'), ('q = 2^2l - 1', 'q:%x' % ((1 << (2 * l)) - 1)),
                     ('no result', 'noresult')):
        add('bad answer at seed - %d: %s' % (k, lab), D(s0 - k), calc=[act])
    add('calc_q fails at seed - %d' % k, D(s0 - k), calc=['err:777'])
    add('calc_q fails at the 2nd call', D(s0 - k), calc=['noresult', 'err:778'])
    add('bad q at the standard seed, then budget', D(s0), calc=['q:%x' % comp], cap=6)
    add('on_seed fails at call 1', D(s0 - 1), seeds=[901])
    add('on_seed fails at call 3', D(s0 - 3), seeds=[0, 0, 903])
    add('seed wraps 2^64', D((1 << 64) - 2), cap=4)
    # argument errors (bign.h: ERR_BAD_INPUT for calc_q == 0; the set itself: ERR_BAD_PARAMS)
    add('calc_q = NULL', D(s0), null_calc=1, expect_code=BAD_INPUT)
    for lab, kw in (('l = 100', dict(l=100)), ('p = 1 mod 4', dict(p=p - 2)), ('p top bit clear', dict(p=p >> 1 | 3)), ('a = 0', dict(a=0)), ('a = p', dict(a=p)),
                    ('a > p', dict(a=p + 1)), ('p composite', dict(p=p + 4 if not pri.is_prime(p + 4) else p + 8)), ('p padded', dict(p=p + (1 << (2 * l)))), ('a padded', dict(a=std['a'] + (1 << (2 * l))))):
        Dd = D(s0, **kw)
        if pack('bign', {k: int(v) for k, v in Dd.items()}) is not None:
            add(lab, Dd, expect_code=BAD_PARAMS)
    return out

def k_sgprime(L, c, R):
    """priIsSGPrime(q) for odd primes q: TRUE iff 2q + 1 is prime (pri.h: deterministic test)"""
    W = wbits(L)
    with vf.Arena(L) as A:
        for v in c['vals']:
            q = int(v); n = c.get('n') or nwords(L, q.bit_length())
            st = stack(A, L.sz('priIsSGPrime_deep', n))
            got = L.boolean('priIsSGPrime', A.words(q, n), n, st)
            exp = int(pri.is_prime(2 * q + 1))
            R.n += 1; R.outc('Sophie Germain prime' if exp else 'prime q with composite 2q + 1')
            if got != exp:
                R.bad('priIsSGPrime:%s' % ('composite-accepted' if got else 'safe-prime-rejected'), dict(c, vals=[str(q)]),
                      'priIsSGPrime([%d words] %d) = %d [%s], 2q + 1 is %s' % (n, q, got, L.cfg, 'prime' if exp else 'composite'))
            st.free()

def k_sgrange(L, c, R):
    prepare_sieve(1 << 17)
    vals = [str(q) for q in range(max(3, c['start'] | 1), c['start'] + c['count'], 2) if ref_prime(q)]
    k_sgprime(L, dict(c, vals=vals), R)

def k_ecpvalidators(L, c, R):
    """ecpIsValid / ecpSeemsValidGroup / ecpIsSafeGroup on small prime-field curves with completely known groups (the cell is C06's:
    it owns the small-curve machinery); here the verdicts are judged as validator decisions"""
    import C06
    r = C06.validators_cell({'kind': 'validators', 'cfg': c['cfg'], 'spec': C06.tspec(c['spec']), 'nU': 40, 'bits': 16})
    R.n += r['calls']; R.outc('group validator calls on small curves', r['calls'])
    for key, rec, msg in r['viol']:
        R.bad(key.replace('ecp:validators:', ''), dict(c), msg)

def curvevalid_jobs(tier, cfg):
    J = []
    for p_ in (3, 5, 7, 11, 13, 9, 15, 21, 25, 49, 251, 253, 255, 65521, 65535) + ((1021, 1023) if tier == 'thorough' else ()):
        J.append(dict(cfg=cfg, part='curve validators (ecpIsValid / ec2IsValid)', kind='curvevalid', fam='p', p=p_, full=p_ <= (49 if tier == 'quick' else 255)))
    # binary fields: the ten standard DSTU polynomials (irreducible) and reducible neighbours of the same shape (a factor x + 1 when the
    # number of terms is even is impossible for tri/pentanomials, so reducibility is decided by the reference's Ben-Or test)
    import dstu as RD_
    polys = []
    for nme in RD_.STD_NAMES:
        polys.append(tuple(RD_.params_std(nme)['p']))
    seen = set()
    for poly in polys:
        if poly in seen:
            continue
        seen.add(poly)
        J.append(dict(cfg=cfg, part='curve validators (ecpIsValid / ec2IsValid)', kind='curvevalid', fam='2', poly=list(poly), irred=True))
        m = poly[0]
        cnt = 0
        for k1 in range(poly[1] + 1, poly[1] + 40):
            alt = (m, k1, poly[2], poly[3]) if poly[2] else (m, k1, 0, 0)
            if alt[1] >= m or (alt[2] and alt[1] <= alt[2]):
                continue
            f = (1 << m) | (1 << alt[1]) | ((1 << alt[2]) if alt[2] else 0) | ((1 << alt[3]) if alt[3] else 0) | 1
            irr = polys_irred(f)
            J.append(dict(cfg=cfg, part='curve validators (ecpIsValid / ec2IsValid)', kind='curvevalid', fam='2', poly=list(alt), irred=irr))
            cnt += 1
            if cnt >= (2 if tier == 'quick' else 6):
                break
    return J

def polys_irred(f):
    import polys as PL
    return bool(PL.is_irreducible(f))

def k_stdgroup(L, c, R):
    """ecpSeemsValidGroup / ec2SeemsValidGroup on a standard curve with the order moved across the Hasse boundary (C06 owns the curve
    contexts); the headers define the predicate exactly"""
    import C06
    fam, name = c['fam'], c['name']
    ref = C06.ref_params(fam, name)
    binary = fam == 'dstu'
    spec = ('2', ref['poly'], ref['a'], ref['b']) if binary else ('p', ref['p'], ref['a'], ref['b'])
    ctx = C06.get_ctx(c['cfg'], spec)
    G = ref['G'] if ref['G'] is not None else C06.std_points(ctx.E, ref, binary)[0]
    v, calls = C06.std_group_validators(ctx, G, ref['q'], ref['h'], ref, binary)
    R.n += calls; R.outc('group validator calls on standard curves', calls)
    if v:
        R.bad(v[0], dict(c), v[2])

def k_curvevalid(L, c, R):
    """ecpIsValid / ec2IsValid as decisions: every coefficient pair (A, B) over a small prime field (complete), composite and too small
    moduli; binary curves over standard fields and over fields given by REDUCIBLE tri/pentanomials, B = 0 against B != 0.
    ecp.h: valid iff the field is valid (mod prime), mod > 3, A, B in the field and 4 A^3 + 27 B^2 != 0 (mod p);
    ec2.h: valid iff the field is valid (polynomial irreducible) and B != 0"""
    import C06
    calls = 0
    def one(spec, exp, what):
        nonlocal calls
        try:
            ctx = C06.Ctx(c['cfg'], spec)
        except (RuntimeError, AssertionError) as e:
            return               # the creator refuses the description: nothing to validate
        try:
            pre = 'ecp' if spec[0] == 'p' else 'ec2'
            args = (ctx.n, ctx.fdeep) if pre == 'ecp' else (ctx.n,)
            st = C06.gbuf(ctx.A, L.sz(pre + 'IsValid_deep', *args))
            got = L.boolean(pre + 'IsValid', ctx.ec, st); calls += 1
            if C06.gbad(st):
                R.bad(pre + 'IsValid:stack', dict(c, spec=list(spec)), '%sIsValid wrote past %sIsValid_deep octets of its stack [%s]' % (pre, pre, what))
            if got != exp:
                R.bad('%sIsValid:%s' % (pre, 'invalid-accepted' if got else 'valid-rejected'), dict(c, spec=[spec[0], list(spec[1]) if isinstance(spec[1], tuple) else spec[1], spec[2], spec[3]]),
                      '%sIsValid = %d for %s; the header gives %d' % (pre, got, what, exp))
        finally:
            ctx.A.__exit__()
    if c['fam'] == 'p':
        p_ = c['p']
        prime = ref_prime(p_)
        if c['full']:
            pairs = [(a, b) for a in range(p_) for b in range(p_)]
        else:
            bs = sorted({0, 1, 2, p_ - 3, p_ - 1, (p_ + 1) // 2})
            pairs = sorted(set([(a, b) for a in bs for b in bs] + [((-3 * t * t) % p_, (2 * t ** 3) % p_) for t in (1, 2, 5, p_ - 1, 1000 % p_)]
                               + [((-3 * t * t) % p_, (2 * t ** 3 + 1) % p_) for t in (1, 2, 5)]))
        for a, b in pairs:
            if True:
                exp = int(prime and p_ > 3 and (4 * a ** 3 + 27 * b * b) % p_ != 0)
                one(('p', p_, a, b), exp, 'y^2 = x^3 + %d x + %d over Z / %d (%s, discriminant %d)' % (a, b, p_, 'prime' if prime else 'composite', (4 * a ** 3 + 27 * b * b) % p_))
    else:
        poly = tuple(c['poly'])
        irr = c['irred']
        for a in (0, 1):
            for b in (0, 1, 2, (1 << poly[0]) - 1):
                one(('2', poly, a, b), int(irr and b != 0), 'y^2 + xy = x^3 + %d x^2 + %#x over GF(2)[x] / (x^%d + x^%d + x^%d + x^%d + 1) (%s)' % (
                    a, b, poly[0], poly[1], poly[2], poly[3], 'irreducible' if irr else 'reducible'))
    R.n += calls; R.outc('curve validator calls', calls)

# ================================================================== dispatcher
KINDS = {'date2_all': k_date2_all, 'date2': k_date2, 'date_range': k_date_range, 'isprimew': k_isprimew, 'nextprimew': k_nextprimew,
         'nextprime': k_nextprime, 'sieved': k_sieved, 'smooth': k_sieved, 'primeval': k_primeval, 'isprime_range': k_isprime_range, 'carm': k_carm,
         'irred': k_irred, 'irred_big': k_irred_big, 'bels_std': k_bels_std, 'std': k_std, 'params': k_params, 'bignkey': k_bignkey,
         'dstupoint': k_dstupoint, 'pfokkey': k_pfokkey, 'pqfam': k_pqfam, 'seed': k_seed, 'gen': k_gen, 'batch': k_batch,
         'bigngen': k_bigngen, 'sgprime': k_sgprime, 'sgrange': k_sgrange, 'ecpvalidators': k_ecpvalidators, 'stdgroup': k_stdgroup, 'curvevalid': k_curvevalid}

def run_case(c):
    L = common.lib(c['cfg'])
    R = Res()
    t0 = time.time()
    KINDS[c['kind']](L, c, R)
    R.extra['t'] = time.time() - t0
    out = R.pack()
    for cfg in c.get('also', ()):           # same inputs on another build; the reference verdicts are memoised
        out.setdefault('also', {})[cfg] = run_case(dict({k: v for k, v in c.items() if k != 'also'}, cfg=cfg))
    return out

def replay(rec):
    r = run_case(rec)
    for key, (rc, msg, cnt) in sorted(r['mism'].items()):
        return msg
    return None

# ================================================================== job lists
def chunks(start, end, step):
    a = start
    while a < end:
        yield a, min(step, end - a); a += step

def chernick(k0, cnt):
    """(6k+1)(12k+1)(18k+1) with three prime factors, k >= k0; verified by Korselt's criterion"""
    out = []; k = k0
    while len(out) < cnt:
        fs = [6 * k + 1, 12 * k + 1, 18 * k + 1]
        if all(f % s for f in fs for s in (5, 7, 11, 13, 17, 19, 23, 29, 31, 37)) and all(pri.is_prime(f) for f in fs):
            n = fs[0] * fs[1] * fs[2]
            assert all((n - 1) % (f - 1) == 0 for f in fs)
            out.append(n)
        k += 1
    return out

def std_primes():
    """primes / group orders of all standard sets (reference tables)"""
    ps = []
    for l in (96, 128, 192, 256):
        t = ecp.params_by_level(l); ps += [t['p'], t['q']]
    for n in RG.STD_NAMES:
        t = RG.params_std(n); ps += [t['p'], t['q']]
    for n in RS.STD_NAMES:
        t = RS.params_std(n); ps += [t['p'], t['q']]
    for n in RP.STD_NAMES:
        t = RP.params_std(n); ps += [t['p'], (t['p'] - 1) // 2]
    for n in RD.STD_NAMES:
        ps.append(RD.params_std(n)['n'])
    return sorted(set(ps))

def adjacent_primes(x, k):
    lo = []; a = x - 1
    while len(lo) < k:
        if pri.is_prime(a):
            lo.append(a)
        a -= 1
    hi = []; a = x + 1
    while len(hi) < k:
        if pri.is_prime(a):
            hi.append(a)
        a += 1
    return lo + hi

def irreducibles(d, cnt, salt=0):
    """the first cnt irreducible polynomials x^d + c (c odd, increasing from salt)"""
    out = []; c = salt | 1
    while len(out) < cnt:
        if polys.is_irreducible((1 << d) | c):
            out.append((1 << d) | c)
        c += 2
    return out

def prime_jobs(tier, cfg):
    q = tier == 'quick'
    W = 32 if cfg == 'w32' else 64
    J = []
    def add(part, **kw):
        J.append(dict(cfg=cfg, part=part, **kw))
    # priIsPrimeW: dense ranges
    dense = 1 << (16 if q else 24)
    for s, n in chunks(0, dense, 1 << (14 if q else 17)):
        add('priIsPrimeW', kind='isprimew', start=s, count=n)
    hw = 1 << (13 if q else 16)
    for c0 in (1 << 31, 1 << 32, 1 << 63, (1 << 64) - 1, 1373653, 4759123141, 25326001, 3215031751):
        lo, hi = max(0, c0 - hw), min(1 << W, c0 + hw + 1)
        for s, n in chunks(lo, hi, 1 << 13):
            add('priIsPrimeW', kind='isprimew', start=s, count=n)
    # special composites and primes through every primality function
    import json
    V = json.load(open(os.path.join(vf.VERIF, 'ref', 'vectors', 'pri.json')))
    psi = [str(int(t['psi'])) for t in V['deterministic_bounds']]
    add('pseudoprimes', kind='primeval', vals=psi, cls='least strong pseudoprime to the first prime bases')
    pmax = (1 << 16) if W == 32 else (1 << (24 if q else 26))
    for s, n in chunks(3, pmax, 1 << 17):
        add('pseudoprime family p(k(p-1)+1)', kind='pqfam', p0=s, p1=s + n, ks=[2, 3, 4, 5, 6])
    for x in (1 << 16, 1 << 32):
        ps = adjacent_primes(x, 4)
        add('pq', kind='primeval', vals=[str(a * b) for i, a in enumerate(ps) for b in ps[i:]], cls='product of primes adjacent to 2^%d' % (16 if x == 1 << 16 else 32))
        add('pq', kind='primeval', vals=[str(a) for a in ps], cls='prime adjacent to 2^%d' % (16 if x == 1 << 16 else 32))
    sp = std_primes()
    for v in sp:
        add('standard primes', kind='primeval', vals=[str(v)], cls='prime / order of a standard set')
    pairs = [(a, b) for i, a in enumerate(sp) for b in sp[i:]]
    if q:
        pairs = [(a, b) for i, a in enumerate(sp) for b in sp[i:i + 2]]
    for i in range(0, len(pairs), 16):
        add('standard primes', kind='primeval', vals=[str(a * b) for a, b in pairs[i:i + 16]], cls='product of two standard primes')
    ch = chernick(1 << 40, 3) + chernick(1 << 84, 2) + ([] if q else chernick(1 << 170, 2))
    add('carmichael', kind='primeval', vals=[str(v) for v in ch], cls='multi-word Chernick Carmichael number')
    limit = 10 ** 10 if q else 10 ** 11
    for p1 in pri.small_primes(int(round(limit ** (1 / 3))) + 2)[1:]:
        if p1 ** 3 < limit:
            add('carmichael', kind='carm', p1=p1, limit=limit)
    # priIsSGPrime: every odd prime below a bound, windows where 2q + 1 gains a word, the safe primes of the pfok sets
    for s, n in chunks(0, 1 << (16 if q else 20), 1 << 13):
        add('priIsSGPrime', kind='sgrange', start=s, count=n)
    for c0 in (1 << 15, 1 << 16, 1 << 31, 1 << 32, 1 << 63, 1 << 64, 1 << 127, 1 << 128):
        hw = 1 << (9 if q else 12)
        add('priIsSGPrime', kind='sgrange', start=c0 - hw, count=2 * hw)
    sg = [str((RP.params_std(nm)['p'] - 1) // 2) for nm in RP.STD_NAMES]
    add('priIsSGPrime', kind='sgprime', vals=sg)
    add('priIsSGPrime', kind='sgprime', vals=[str(v) for v in std_primes() if v % 2 and pri.is_prime(v)][:12 if q else 40])
    for nw_extra in (1, 2):
        add('priIsSGPrime', kind='sgprime', vals=['3', '5', '7', '11', '23', '29', '65537', str(pri.next_prime((1 << (W - 1)) + 1))], n=1 + nw_extra)
    for s, n in chunks(0, 1 << (12 if q else 16), 1 << 9):
        add('priIsPrime small', kind='isprime_range', start=s, count=n)
    if cfg == 'w32':           # two-word numbers: windows through priIsPrime
        for c0 in (1 << 32, 1 << 63):
            for s, n in chunks(c0 - (1 << (8 if q else 11)), c0 + (1 << (8 if q else 11)), 1 << 7):
                add('priIsPrime windows', kind='isprime_range', start=s, count=n)
    # next-prime searches
    for s, n in chunks(0, 1 << 16, 1 << 12):
        add('priNextPrimeW', kind='nextprimew', start=s, count=n)
    for l in (8, 16, 17, 31, 32, 33, 63, 64):
        lo = max(0, (1 << l) - (1 << 12))
        if l <= W:
            add('priNextPrimeW', kind='nextprimew', start=lo, count=(1 << l) - lo)
        nw = -(-l // W)
        for trials, bc in ((SIZE_MAX, 0), (SIZE_MAX, 100), (7, 10)):
            for s, n in chunks(lo, 1 << l, 1 << 9):
                add('priNextPrime', kind='nextprime', start=s, count=n, n=nw, trials=trials, base_count=bc, iter=RM_ITER)
    combos = [(1, SIZE_MAX, 0, 16), (2, SIZE_MAX, 30, 16), (1, SIZE_MAX, 30, 13), (1, 3, 10, 13)] if q else \
             [(1, SIZE_MAX, 0, 16), (1, SIZE_MAX, 30, 16), (1, SIZE_MAX, 1024, 16), (2, SIZE_MAX, 0, 16), (2, SIZE_MAX, 30, 16), (1, 3, 10, 16), (1, 1, 0, 16), (2, 2, 1024, 16)]
    for nw, trials, bc, lg in combos:
        for s, n in chunks(0, 1 << lg, 1 << 11):
            add('priNextPrime', kind='nextprime', start=s, count=n, n=nw, trials=trials, base_count=bc, iter=RM_ITER)
    # factor-base predicates
    for kind in ('sieved', 'smooth'):
        for nw in (1, 2):
            for bc in ((0, 1, 2, 10, 100, 1024) if nw == 1 or not q else (10,)):
                for s, n in chunks(0 if kind == 'sieved' else 1, 1 << 16, 1 << (12 if bc > 100 else 14)):
                    add('priIs' + kind.capitalize(), kind=kind, start=s, count=n, n=nw, base_count=bc)
        for l in (8, 16, 17, 31, 32, 33, 63, 64):
            lo = max(1, (1 << l) - (1 << 12))
            for bc in (10, 1024):
                for s, n in chunks(lo, 1 << l, 1 << 10):
                    add('priIs' + kind.capitalize(), kind=kind, start=s, count=n, n=-(-l // W), base_count=bc)
    return J

def poly_jobs(tier, cfg):
    q = tier == 'quick'
    J = []
    def add(part, **kw):
        J.append(dict(cfg=cfg, part=part, **kw))
    for s, n in chunks(0, 1 << 17, 1 << 12):
        add('ppIsIrred deg<=16', kind='irred', start=s, count=n, n=1)
    if not q:
        for s, n in chunks(0, 1 << 17, 1 << 12):
            add('ppIsIrred deg<=16', kind='irred', start=s, count=n, n=2)
    for ln in RB.LENS:
        for num in range(17):
            add('bels standard keys', kind='bels_std', len=ln, num=num)
        l = 8 * ln
        std = [(1 << l) | int.from_bytes(RB.std_m(ln, num), 'little') for num in range(17)]
        add('ppIsIrred deg %d' % l, kind='irred_big', polys=['%x' % f for f in std], cls='standard bels polynomial')
        # single-coefficient alterations of the standard polynomials
        alt = []
        for f in std[:3 if q else 17]:
            alt += [f ^ (1 << b) for b in (0, 1, 7, l // 2, l - 1)] + [f ^ 3, f ^ 6]
        for i in range(0, len(alt), 8):
            add('ppIsIrred deg %d' % l, kind='irred_big', polys=['%x' % f for f in alt[i:i + 8]], cls='standard bels polynomial with flipped coefficients')
        J.append(dict(cfg=cfg, expand='polyprods', ln=ln))
        # dense window of low coefficients x^l + c and filler-valued polynomials of degree l
        for s, n in chunks(0, 1 << (8 if q else 12), 16):
            add('ppIsIrred deg %d' % l, kind='irred_big', polys=['%x' % ((1 << l) | c) for c in range(s, s + n)], cls='x^l + c, every c below the bound')
        fl = [(1 << l) | int.from_bytes(vf.filler('C12/poly/%d/%d' % (l, i), ln), 'little') for i in range(64 if q else 1024)]
        for i in range(0, len(fl), 16):
            add('ppIsIrred deg %d' % l, kind='irred_big', polys=['%x' % f for f in fl[i:i + 16]], cls='filler-valued polynomial')
    return J

def date_jobs(tier, cfg):
    q = tier == 'quick'
    alpha = [0, 1, 2, 3, 8, 9, 10, 0x30, 0xFF] if q else list(range(11)) + [15, 0x30, 0x39, 0xFF]
    J = [dict(cfg=cfg, part='tmDateIsValid2', kind='date2_all', alpha=alpha, i0=i) for i in range(len(alpha))]
    for y0, n in chunks(1580, 2106, 40):
        J.append(dict(cfg=cfg, part='tmDateIsValid', kind='date_range', y0=y0, y1=y0 + n - 1, m0=0, m1=13, d0=0, d1=32))
    for y0, y1 in ((0, 5), (2395, 2405), (9995, 10005), ((1 << 32) - 3, (1 << 32) + 5), ((1 << 64) - 12, (1 << 64) - 2)):
        J.append(dict(cfg=cfg, part='tmDateIsValid', kind='date_range', y0=y0, y1=y1, m0=0, m1=13, d0=0, d1=32))
    for big in ((1 << 32) + 1, (1 << 64) - 2, 256 + 2):     # (the helper's loop bound is inclusive: 2^64-1 is not usable)
        J.append(dict(cfg=cfg, part='tmDateIsValid', kind='date_range', y0=2000, y1=2004, m0=big, m1=big, d0=0, d1=32))
        J.append(dict(cfg=cfg, part='tmDateIsValid', kind='date_range', y0=2000, y1=2004, m0=0, m1=13, d0=big, d1=big))
    return J

def g12s_cm_sets():
    """A non-standard g12s curve of KNOWN order N = 3 r (complex multiplication by sqrt(-11), j = -32768):
    4p = t^2 + 11 v^2, N = p + 1 +- t.  -> [(label, params dict)]: (q = r, n = 3) is valid, q = N is rejected ONLY by the primality of q"""
    v = ((1 << 126) + 12345) | 1
    found = None
    while not found:
        tmax = math.isqrt(4 * (1 << 256) - 11 * v * v)
        t = tmax if tmax & 1 else tmax - 1
        for i in range(20000):
            tt = t - 2 * i
            p = (tt * tt + 11 * v * v) // 4
            if p >> 255 == 0:
                break
            for sign in (1, -1):
                N = p + 1 - sign * tt
                if N % 3 == 0 and N < (1 << 256) and N // 3 > (1 << 254) and pri.is_prime(N // 3) and pri.is_prime(p):
                    found = (p, N); break
            if found:
                break
        v += 2
    p, N = found
    r = N // 3
    j = -32768 % p
    k = j * pow((1728 - j) % p, -1, p) % p
    a, b = 3 * k % p, 2 * k % p
    def point(a, b, x):
        while True:
            y = ecp.sqrt_mod((x * x * x + a * x + b) % p, p)
            if y is not None and (y * y - (x * x * x + a * x + b)) % p == 0:
                return (x, y)
            x += 1
    P = point(a, b, 1)
    if RG.ec_mul(N, P, a, p) is not None:            # the other twist has order p + 1 - t
        c = 2
        while pow(c, (p - 1) // 2, p) == 1:
            c += 1
        a, b = a * c * c % p, b * c * c * c % p
        P = point(a, b, 1)
    assert RG.ec_mul(N, P, a, p) is None
    while RG.ec_mul(3, P, a, p) is None or RG.ec_mul(r, P, a, p) is None:
        P = point(a, b, P[0] + 1)
    G3 = RG.ec_mul(3, P, a, p); Gr = RG.ec_mul(r, P, a, p)
    # every condition of 5.2 except "q prime" holds for q = N
    assert (N - p - 1) ** 2 <= 4 * p and N != p and all(pow(p, i, N) != 1 for i in range(1, 32)) and (4 * a ** 3 + 27 * b * b) % p and a and b
    base = dict(l=256, p=p, a=a, b=b)
    return [('valid: q = r, n = 3, G of order r', dict(base, q=r, n=3, xP=G3[0], yP=G3[1])),
            ('q = N = 3r composite, n = 1, G of order N', dict(base, q=N, n=1, xP=P[0], yP=P[1])),
            ('q = N = 3r composite, n = 1, G of order r', dict(base, q=N, n=1, xP=G3[0], yP=G3[1])),
            ('q = r, n = 3, G of order 3r', dict(base, q=r, n=3, xP=P[0], yP=P[1])),
            ('q = r, n = 3, G of order 3', dict(base, q=r, n=3, xP=Gr[0], yP=Gr[1])),
            ('q = r, n = 1 (Hasse)', dict(base, q=r, n=1, xP=G3[0], yP=G3[1]))]

def param_jobs(tier, cfg):
    """specs expanded in parallel by expand() (the reference arithmetic that builds the cases is not free)"""
    q = tier == 'quick'
    J = [dict(cfg=cfg, expand='params', scheme=scheme, name=name, quick=q) for scheme, name in STD_SETS]
    J += [dict(cfg=cfg, expand='g12s_cm')]
    J += [dict(cfg=cfg, expand='bignkeys', l=l) for l in (96, 128, 192, 256)]
    J += [dict(cfg=cfg, expand='dstupoints', name=name, quick=q) for name in RD.STD_NAMES]
    J += [dict(cfg=cfg, expand='pfokkeys', name=name) for name in RP.STD_NAMES]
    J += [dict(cfg=cfg, expand='seeds', scheme=scheme, quick=q) for scheme in ('stb99', 'pfok')]
    J += [dict(cfg=cfg, expand='bigngen', l=l, quick=q) for l in (128, 192, 256)]
    return J

def expand(spec):
    """spec -> list of concrete cases"""
    cfg = spec['cfg']; what = spec['expand']
    J = []
    def add(part, **kw):
        J.append(dict(cfg=cfg, part=part, **kw))
    if what == 'params':
        scheme, name = spec['scheme'], spec['name']
        add('standard sets', kind='std', scheme=scheme, name=name)
        if scheme == 'dstu':
            D0 = dstu_dict(dstu_full(name)[0])
            add('standard sets', kind='dstupoint', what='gen', name=name)
            add('standard sets', kind='params', scheme=scheme, name=name, pert='generated base point', blob=pack(scheme, D0).hex())
        else:
            D0 = ref_std(scheme, name)
        for lab, D in perturbations(scheme, D0):
            blob = pack(scheme, D)
            kind_ = lab.split(':')[1]
            if spec.get('quick') and scheme in ('stb99', 'pfok') and D0['l'] > 1100 and (kind_ in ('-1', 'zero') or (kind_.startswith('bit') and kind_ != 'bit0')):
                continue        # quick tier: the long moduli get the short perturbation list
            if blob is not None:
                add('%s perturbations' % scheme, kind='params', scheme=scheme, name=name, pert=lab, blob=blob.hex())
    elif what == 'g12s_cm':
        for lab, D in g12s_cm_sets():
            add('g12s crafted curve of known composite order', kind='params', scheme='g12s', name='CM curve D=-11', pert=lab, blob=pack('g12s', D).hex())
    elif what == 'bignkeys':
        l = spec['l']
        for lab, kind, d, (x, y) in bign_key_cases(l):
            add('bign keys', kind='bignkey', l=l, what=kind, label=lab, d=str(d) if d is not None else None, x=str(x), y=str(y))
    elif what == 'dstupoints':
        for lab, (x, y) in dstu_point_cases(spec['name'], 3 if spec.get('quick') else 6):
            add('dstu points', kind='dstupoint', what='val', name=spec['name'], label=lab, x=str(x), y=str(y))
    elif what == 'pfokkeys':
        name = spec['name']
        P = RP.params_std(name); p = P['p']; no = (P['l'] + 7) // 8
        for lab, y in (('0', 0), ('1', 1), ('2', 2), ('p-1', p - 1), ('p', p), ('p+1', p + 1), ('e', RP.mont_R(P) % p), ('g', P['g']), ('2^8no-1', (1 << (8 * no)) - 1),
                       ('p with top octet cleared', p & ((1 << (8 * no - 8)) - 1)), ('p+256', p + 256), ('p-256', p - 256)):
            add('pfok keys', kind='pfokkey', name=name, label=lab, y=str(y))
    elif what == 'bigngen':
        for cse in bigngen_cases(spec['l'], spec.get('quick')):
            add('bignParamsGen (alg. 6.1.3 with scripted callbacks)', **cse)
    elif what == 'seeds':
        scheme = spec['scheme']; R_ = RS if scheme == 'stb99' else RP
        seen = set()
        for name in R_.STD_NAMES:
            for lab, S in seed_perturbations(scheme, R_.seed_std(name)):
                blob = pack_seed(scheme, S)
                if blob not in seen:
                    seen.add(blob)
                    add('%s seeds' % scheme, kind='seed', scheme=scheme, name=name, pert=lab, blob=blob.hex())
        for name in R_.STD_NAMES:
            if scheme == 'stb99' and (not spec['quick'] or name in R_.STD_NAMES[:2]):
                add('generation from seed', kind='gen', scheme=scheme, name=name)
            if scheme == 'pfok' and name == 'test':          # the standard pfok sets need hours (a safe prime of 1022+ bits)
                add('generation from seed', kind='gen', scheme=scheme, name=name, on_q=1)
                add('generation from seed', kind='gen', scheme=scheme, name=name, on_q=0)
    elif what == 'polyprods':
        ln = spec['ln']; l = 8 * ln
        std0 = (1 << l) | int.from_bytes(RB.std_m(ln, 0), 'little')
        prods = []
        for d in (1, 2, 3, 8, l // 4, l // 2 - 1, l // 2):
            g = irreducibles(d, 2, salt=d); h = irreducibles(l - d, 2, salt=3 * d)
            prods += [polys.mul(g[0], h[0]), polys.mul(g[1], h[1])]
        g = irreducibles(l // 2, 1)[0]
        prods.append(polys.mul(g, g))
        g3 = irreducibles(l // 4, 4)
        prods.append(polys.mul(polys.mul(g3[0], g3[1]), polys.mul(g3[2], g3[3])))
        for i in range(0, len(prods), 4):
            add('ppIsIrred deg %d' % l, kind='irred_big', polys=['%x' % f for f in prods[i:i + 4]], cls='product of irreducibles')
        xk = [std0 << k for k in (1, 7)] + [irreducibles(l - k, 1)[0] << k for k in (1, 2, 8, l // 2)] + [1 << l, (1 << l) | 1, (1 << l) | 2]
        add('ppIsIrred deg %d' % l, kind='irred_big', polys=['%x' % f for f in xk], cls='x^k multiple')
    if what in ('params', 'dstupoints', 'pfokkeys', 'seeds', 'bignkeys'):
        B = {}
        for j in J:
            if j['kind'] == 'gen' or (j['kind'] == 'dstupoint' and j['what'] == 'gen'):
                B.setdefault(('single', len(B)), []).append(j)
            else:
                B.setdefault(j['part'], []).append(j)
        size = {'params': 8, 'dstupoints': 6, 'pfokkeys': 12, 'seeds': 64, 'bignkeys': 16}[what]
        out = []
        for part, js in B.items():
            if part[0] == 'single':
                out += js; continue
            for i in range(0, len(js), size):
                out.append(dict(cfg=cfg, part=part, kind='batch', cases=[{k: v for k, v in j.items() if k not in ('cfg', 'part')} for j in js[i:i + size]]))
        return out
    return J

# ================================================================== run
def _expand_safe(spec):
    return expand(spec)

def run(tier):
    chk = vf.Check(PROP, tier, deadline_s=600 if tier == 'quick' else 3000)
    t0 = time.time()
    L = common.lib('rel')
    for scheme, idx in SIZEOF_IDX.items():
        assert L.sz('vh_c12_sizeof', idx) == LAY[scheme][0], 'struct layout of %s changed' % scheme
    assert L.sz('vh_c12_sizeof', 5) == SEEDLAY['pfok'][0] and L.sz('vh_c12_sizeof', 7) == SEEDLAY['stb99'][0]
    assert L.sz('vh_c12_sizeof', 8) == 64
    Lw = common.lib('w32')
    assert Lw.sz('vh_c12_sizeof', 0) == 4 and L.sz('vh_c12_sizeof', 0) == 8
    J = date_jobs(tier, 'rel') + param_jobs(tier, 'rel')
    for cfg in ('rel', 'w32'):
        J += prime_jobs(tier, cfg) + poly_jobs(tier, cfg)
        import C06
        J += [dict(cfg=cfg, part='curve / group validators on small curves', kind='ecpvalidators', spec=['p', p, a, b]) for p, a, b in C06.validator_curves(tier)]
        J += curvevalid_jobs(tier, cfg)
        J += [dict(cfg=cfg, part='group validators on standard curves (Hasse boundary)', kind='stdgroup', fam=fam, name=name) for fam, name in C06.std_list('thorough')]
    only = [x for x in os.environ.get('C12_ONLY', '').split(',') if x]       # development aid: run a subset of the parts
    if only:
        J = [j for j in J if 'expand' in j or any(x in j['part'] for x in only)]
        chk.cap('C12_ONLY=%s: only a subset of the parts was run' % ','.join(only))
    specs = [j for j in J if 'expand' in j]
    J = [j for j in J if 'expand' not in j]
    for spec, r in zip(specs, vf.pmap(_expand_safe, specs, case_timeout=600)):
        if isinstance(r, dict):
            chk.violation('harness:expand:%s' % spec['expand'], dict(spec, kind='expand'), 'case generation failed: %s' % str(r)[-1500:])
        else:
            J += [j for j in r if not only or any(x in j['part'] for x in only)]
    # inputs whose reference verdict is expensive and memoised run on both builds inside one job
    shared = lambda j: j['kind'] in ('irred', 'irred_big') or j.get('part') == 'standard primes'
    J = [j for j in J if not (j['cfg'] == 'w32' and shared(j))]
    for j in J:
        if shared(j):
            j['also'] = ['w32']
    prepare_sieve(1 << (16 if tier == 'quick' else 24))
    # deterministic interleaving of cheap and expensive jobs over the workers
    import hashlib
    order = sorted(range(len(J)), key=lambda i: hashlib.sha256(b'%d' % i).digest())
    res = vf.pmap(run_case, [J[i] for i in order], case_timeout=900)
    results = [None] * len(J)
    for i, r in zip(order, res):
        results[i] = r
    carm = {}
    kinds = {}
    flat = []
    for c, r in zip(J, results):
        flat.append((c, r))
        for cfg, r2 in (r.get('also') or {}).items():
            flat.append((dict({k: v for k, v in c.items() if k != 'also'}, cfg=cfg), r2))
    for c, r in flat:
        part = c.get('part', c['kind'])
        if 'mism' not in r:
            rec = {k: v for k, v in c.items() if k not in ('part', 'also')}
            chk.violation('%s:%s' % ('crash' if 'crash' in r else 'harness', c['kind']), rec,
                          '%s in %s: %s' % ('library crashed' if 'crash' in r else 'HARNESS ERROR', c['kind'], (r.get('stderr') or r.get('harness_error') or str(r))[-1500:]))
            continue
        chk.part(part + ' [' + c['cfg'] + ']', states=r['n'], transitions=r['n'], traces_validated_against_impl=r['n'], evaluations=r['n'], cpu_s=round(r['extra']['t'], 2))
        kinds[c['kind']] = kinds.get(c['kind'], 0) + 1
        for o, k in r['out'].items():
            chk.outcome(o, k)
        for key, (rec, msg, cnt) in r['mism'].items():
            rec = {k: v for k, v in rec.items() if k not in ('part', 'also')}
            chk.violation(key, rec, msg + ('   [%d such cases in this job]' % cnt if cnt > 1 else ''))
        if 'carm' in r['extra']:
            carm[(c['cfg'], c['limit'])] = carm.get((c['cfg'], c['limit']), 0) + r['extra']['carm']
        if 'gen_s' in r['extra']:
            chk.observe('%sParamsGen(%s) took %.1f s' % (c['scheme'], c['name'], r['extra']['gen_s']))
    known = {10 ** 10: 1547, 10 ** 11: 3605}
    for (cfg, limit), n in carm.items():
        if known.get(limit) != n:
            chk.violation('harness:carmichael-count', {'cfg': cfg, 'kind': 'primeval', 'vals': []}, 'generated %d Carmichael numbers below %d, literature: %s' % (n, limit, known.get(limit)))
        chk.observe('Carmichael numbers below %d generated and tested [%s]: %d' % (limit, cfg, n))
    for kind in ('batch', 'nextprime', 'irred_big', 'bels_std', 'date_range'):
        for c in J:
            if c['kind'] == kind:
                c = dict(c['cases'][0], cfg=c['cfg']) if kind == 'batch' else c
                chk.sample({k: (v if len(str(v)) < 100 else str(v)[:100] + '...') for k, v in c.items() if k not in ('part', 'also')})
                break
    for s in ({'tmDateIsValid2': '6-tuples over %s' % ('{0,1,2,3,8,9,10,0x30,0xFF}' if tier == 'quick' else '{0..10,15,0x30,0x39,0xFF}')},
              {'priIsPrimeW': 'every n < 2^%d, windows of half-width 2^%d around 2^31, 2^32, 2^63, 2^64-1 and psi_2..psi_4, 4759123141; all p(k(p-1)+1), k=2..6, p < 2^%d' % ((16, 13, 24) if tier == 'quick' else (24, 16, 26))},
              {'ppIsIrred': 'all 131072 polynomials below x^17'},
              {'params': 'bignParamsVal(128v1 with q:q+2)'}, {'keys': 'bignPubkeyVal twist point / x=p / y=p+y0'},
              {'jobs by kind': kinds}):
        chk.sample(s)
    chk.assumptions += [
        'references: ref/ecp.py validate_params (STB 34.101.45 alg. 6.1.4; its extra Hasse test is never the only failing condition, such cases would be skipped), '
        'ref/g12s.py (5.2), ref/stb99.py and ref/pfok.py (condition lists of stb99.h / pfok.h), ref/dstu.py, ref/bels.py, ref/pri.py, ref/polys.py, ref/dates.py',
        'perturbed structures keep the octets the headers call unused at zero; values that do not fit the used octets are not generated ("if it fits")',
        'priRMTest / priIsPrime / priNextPrime draw their Miller-Rabin bases from an INTERNAL generator (prngCOMBO seeded by utilNonce32), a tape cannot be passed in this '
        'version of pri.h: "prime accepted" is deterministic, "composite rejected" is asserted only with iter >= %d (priIsPrime: 32), i.e. false-alarm probability <= 4^-%d per composite' % (RM_ITER, RM_ITER),
        'priRMTest with iter = 0 and priIsSmooth(0) are not asserted (degenerate / outside "natural numbers")',
        'beyond single-field alterations: stb99 pairs (a, d) in {(0,0), (e,e), (a^2,d^2)} (stb99.h lists 0 < a, d < p among the checked conditions) and a '
        'non-standard g12s curve with complex multiplication whose order 3r is known (q = 3r is rejected only by the primality of q)',
        'g12s has no exported public-key validator; pfokParamsGen is not run (needs a safe prime, hours); dstu standard sets 1..9 carry no base point in the standard: '
        'they are validated with a point generated by 6.8 from a fixed tape, which is also compared with dstuPointGen',
        'tm.h documents y >= 1583 with no upper limit: years 0..5, 1580..2105, 2395..2405, 9995..10005, around 2^32 and below 2^64 are enumerated',
    ]
    chk.observe('case generation + exploration: %.0f s, %d jobs' % (time.time() - t0, len(J)))
    return chk.finish('C12', 'E1: complete enumeration of the stated alphabets / ranges / (standard set x field x perturbation) products on the real validators; '
                      'every verdict compared with the specification-level reference validator')
