"""bels (STB 34.101.60 secret sharing) part of the catalogue: function descriptors, reference bindings
(ref/bels.py over ref/polys.py), reference-built key rings and the corpus replayed by C07 / C09 / C15 / C19.

All key material of the corpus is produced by the REFERENCE (so that gen_cases needs no library); that the library
generates the same keys from the same tapes / identifiers is itself part of the corpus (belsGenM0/Mi/Mid cases)."""
import vf, cat
from cat import Fn, reg
import bels as R, polys

E = dict(OK=0, BAD_INPUT=109, OUTOFMEMORY=110, BAD_RNG=304, BAD_ANG=305, BAD_PUBKEY=505)
LENS = (16, 24, 32)

def split(b, n):
    return [bytes(b[i:i + n]) for i in range(0, len(b), n)]

_memo = {}
def memo(f):
    """references are pure functions of the case: cache them (several checks ask for the same prediction)"""
    def g(c):
        k = (f.__name__, tuple(sorted((a, (tuple(b) if isinstance(b, list) else b)) for a, b in c.items())))
        if k not in _memo:
            if len(_memo) > 50000:
                _memo.clear()
            _memo[k] = f(c)
        return _memo[k]
    g.__name__ = f.__name__
    return g

# ------------------------------------------------------------------ references
@memo
def _stdm_ref(c):
    if c['len'] not in LENS or not 0 <= c['num'] <= 16:
        return {'ret': E['BAD_INPUT']}
    return {'ret': 0, 'm': R.std_m(c['len'], c['num'])}

@memo
def _valm_ref(c):
    if len(c['m']) not in LENS:
        return {'ret': E['BAD_INPUT']}
    return {'ret': 0 if R.val_m(c['m']) else E['BAD_PUBKEY']}

@memo
def _genm0_ref(c):
    if c['len'] not in LENS:
        return {'ret': E['BAD_INPUT']}
    t = R.Tape(c['ang'])
    try:
        m = R.gen_m0(c['len'], t)
    except EOFError:
        return None                     # tape shorter than the search: no prediction (not generated)
    if m is None:
        return {'ret': E['BAD_ANG']}
    return {'ret': 0, 'm0': m, 'ang_used': t.pos, 'ang_over': 0}

def _err_ang_or_pubkey(r):
    # bels.h documents both: \expect{ERR_BAD_ANG} for a repeating ang and "all attempts failed is interpreted as a
    # wrong m0 -> ERR_BAD_PUBKEY"; with a valid m0 and a degenerate ang either code is within the documented class
    return r in (E['BAD_ANG'], E['BAD_PUBKEY'])

@memo
def _genmi_ref(c):
    if c['len'] not in LENS:
        return {'ret': E['BAD_INPUT']}
    t = R.Tape(c['ang'])
    try:
        m = R.gen_mi(c['len'], c['m0'], t)
    except EOFError:
        return None
    except ValueError:
        return None                     # invalid m0: expectation of the header, not generated
    if m is None:
        return {'ret': _err_ang_or_pubkey}
    return {'ret': 0, 'mi': m, 'ang_used': t.pos, 'ang_over': 0}

@memo
def _genmid_ref(c):
    if c['len'] not in LENS:
        return {'ret': E['BAD_INPUT']}
    try:
        m = R.gen_mid(c['len'], c['m0'], c['id'])
    except ValueError:
        return None
    if m is None:
        return {'ret': E['BAD_PUBKEY']}
    return {'ret': 0, 'mid': m}

@memo
def _share_ref(c):
    ln, cnt, thr = c['len'], c['count'], c['threshold']
    if ln not in LENS or thr == 0 or cnt < thr:
        return {'ret': E['BAD_INPUT']}
    t = R.Tape(c['rng'])
    try:
        sh = R.share(c['s'], thr, cnt, c['m0'], split(c['mi'], ln), t)
    except (ValueError, EOFError):
        return None
    return {'ret': 0, 'si': b''.join(sh), 'rng_used': t.pos, 'rng_over': 0}

@memo
def _share2_ref(c):
    ln, cnt, thr = c['len'], c['count'], c['threshold']
    if ln not in LENS or thr == 0 or cnt < thr or cnt > 16:
        return {'ret': E['BAD_INPUT']}
    t = R.Tape(c['rng'])
    try:
        sh = R.share_std(c['s'], thr, cnt, t)
    except (ValueError, EOFError):
        return None
    return {'ret': 0, 'si': b''.join(sh), 'rng_used': t.pos, 'rng_over': 0}

def _share3_ref(c):
    # the one-time key of belsShare3 comes from the experimental bels-genk, which neither STB 34.101.60 nor bels.h
    # defines: only the return code is predicted here; C13 checks that the output is a valid sharing of s
    ln, cnt, thr = c['len'], c['count'], c['threshold']
    if ln not in LENS or thr == 0 or cnt < thr or cnt > 16:
        return {'ret': E['BAD_INPUT']}
    return {'ret': 0}

@memo
def _recover_ref(c):
    ln, cnt = c['len'], c['count']
    if ln not in LENS or cnt == 0:
        return {'ret': E['BAD_INPUT']}
    mis = split(c['mi'], ln)
    if len(set(mis)) != len(mis):
        return {'ret': E['BAD_PUBKEY']}
    if c['m0'] in mis:
        return None                     # header expects distinct m0, mi; the code does not look: no prediction
    try:
        return {'ret': 0, 's': R.recover(split(c['si'], ln), c['m0'], mis)}
    except ValueError:
        return None

@memo
def _recover2_ref(c):
    ln, cnt = c['len'], c['count']
    if ln not in LENS or cnt == 0 or cnt > 16:
        return {'ret': E['BAD_INPUT']}
    try:
        return {'ret': 0, 's': R.recover_std(split(c['si'], ln + 1))}
    except ValueError as e:
        return {'ret': E[str(e)]}

# ------------------------------------------------------------------ descriptors
def _len(c):
    return c['len']

reg(Fn('belsStdM', [('out', 'm', _len), ('val', 'len'), ('val', 'num')], _stdm_ref, group='bels'))
reg(Fn('belsValM', [('in', 'm'), ('len', 'm')], _valm_ref, group='bels'))
reg(Fn('belsGenM0', [('out', 'm0', _len), ('val', 'len'), ('gen', 'ang')], _genm0_ref, group='bels'))
reg(Fn('belsGenMi', [('out', 'mi', _len), ('val', 'len'), ('in', 'm0'), ('gen', 'ang')], _genmi_ref, group='bels'))
reg(Fn('belsGenMid', [('out', 'mid', _len), ('val', 'len'), ('in', 'm0'), ('in', 'id'), ('len', 'id')], _genmid_ref, group='bels'))

def _k_of(case, res):
    n = (case['threshold'] - 1) * case['len'] if case['threshold'] else 0
    return [('one-time key k', bytes(case.get('rng') or b'')[:max(n, 0)])]

f = reg(Fn('belsShare', [('out', 'si', lambda c: c['count'] * c['len']), ('val', 'count'), ('val', 'threshold'), ('val', 'len'),
                         ('in', 's'), ('in', 'm0'), ('in', 'mi'), ('gen', 'rng')], _share_ref, group='bels', secrets=('s',)))
f.derived = _k_of
f = reg(Fn('belsShare2', [('out', 'si', lambda c: c['count'] * (c['len'] + 1)), ('val', 'count'), ('val', 'threshold'), ('val', 'len'),
                          ('in', 's'), ('gen', 'rng')], _share2_ref, group='bels', secrets=('s',)))
f.derived = _k_of
reg(Fn('belsShare3', [('out', 'si', lambda c: c['count'] * (c['len'] + 1)), ('val', 'count'), ('val', 'threshold'), ('val', 'len'),
                      ('in', 's')], _share3_ref, group='bels', secrets=('s',)))
f = reg(Fn('belsRecover', [('out', 's', _len), ('val', 'count'), ('val', 'len'), ('in', 'si'), ('in', 'm0'), ('in', 'mi')],
           _recover_ref, group='bels', secrets=('si',)))
f.derived = lambda case, res: [('recovered secret', res.get('s') or b'')] if res.get('ret') == 0 else []
f = reg(Fn('belsRecover2', [('out', 's', _len), ('val', 'count'), ('val', 'len'), ('in', 'si')], _recover2_ref, group='bels', secrets=('si',)))
f.derived = lambda case, res: [('recovered secret', res.get('s') or b'')] if res.get('ret') == 0 else []
del f

# ------------------------------------------------------------------ value alphabets
SECRETS = ('0', '1', 'ff', 'f')
TAPES = ('00', 'ff', 'f')

def secret(kind, ln):
    if kind == '0':
        return bytes(ln)
    if kind == '1':
        return b'\x01' + bytes(ln - 1)
    if kind == 'ff':
        return b'\xff' * ln
    return vf.filler('bels.s/%s/%d' % (kind, ln), ln)

def ktape(kind, n):
    """generator output for the one-time key k ((threshold - 1) * len octets)"""
    if kind == '00':
        return bytes(n)
    if kind == 'ff':
        return b'\xff' * n
    return vf.filler('bels.k/%s' % kind, n)

def octets(poly, ln):
    return int(poly).to_bytes(ln, 'little')

# ------------------------------------------------------------------ reference-built key rings
_RING = {}
def ring(ln):
    """key material of length ln, all derived with the reference:
      std0, std[16]        standard keys (tables A.1-A.4)
      m0g, m0g_tape        common key generated by bels-genm0 from a tape of 3 rejected candidates + 1 accepted
      mig[16], mig_tapes   user keys generated by bels-genmi for m0g from consecutive slices of one filler tape
      ids[16], mid[16]     user keys generated by genmid for the standard common key from identifiers of 0,5,..,75 octets
    every family is pairwise distinct and distinct from its common key (asserted)"""
    if ln in _RING:
        return _RING[ln]
    r = {}
    r['std0'] = R.std_m(ln, 0)
    r['std'] = [R.std_m(ln, i) for i in range(1, 17)]
    # an irreducible polynomial that is not in the tables: a minimal polynomial w.r.t. the standard field
    seed = R.gen_mi(ln, r['std0'], R.Tape(vf.filler('bels.m0seed/%d' % ln, 3 * ln)))
    assert seed is not None
    cands = [bytes(ln), b'\x01' + bytes(ln - 1), vf.filler('bels.m0c/%d' % ln, ln), seed]
    t = R.Tape(b''.join(cands))
    r['m0g'] = R.gen_m0(ln, t)
    r['m0g_tape'] = t.data[:t.pos]
    tape = vf.filler('bels.mitape/%d' % ln, 40 * 3 * ln)
    t = R.Tape(tape)
    r['mig'], r['mig_tapes'] = [], []
    while len(r['mig']) < 16:
        p = t.pos
        m = R.gen_mi(ln, r['m0g'], t)
        if m is None or m in r['mig'] or m == r['m0g']:
            continue
        r['mig'].append(m); r['mig_tapes'].append(tape[p:t.pos])
    r['ids'], r['mid'] = [], []
    i = 0
    while len(r['mid']) < 16:
        ident = vf.filler('bels.id/%d/%d' % (ln, i), 5 * i)
        i += 1
        m = R.gen_mid(ln, r['std0'], ident)
        if m is None or m in r['mid'] or m == r['std0']:
            continue
        r['ids'].append(ident); r['mid'].append(m)
    for m0, ks in ((r['std0'], r['std']), (r['m0g'], r['mig']), (r['std0'], r['mid'])):
        assert len(set(ks + [m0])) == 17 and all(R.val_m(k) for k in ks + [m0])
    _RING[ln] = r
    return r

FAMILIES = ('std', 'genmi', 'genmid')
def family(ln, fam):
    """-> (m0, [16 user keys])"""
    r = ring(ln)
    if fam == 'std':
        return r['std0'], r['std']
    if fam == 'genmi':
        return r['m0g'], r['mig']
    return r['std0'], r['mid']

def field_classes(ln, m0):
    """candidates u for bels-genmi classified by the degree of their minimal polynomial over GF(2)[x]/(x^l + m0):
    -> dict name -> octets.  'x', 'x2', 'xfrob' are conjugates of x (minimal polynomial = f0 itself: rejected because the
    key must differ from m0); 'zero', 'one', 'sub' lie in proper subfields (degree < l: rejected)"""
    l = 8 * ln
    f0 = (1 << l) | int.from_bytes(m0, 'little')
    a = int.from_bytes(vf.filler('bels.sub/%d' % ln, ln), 'little')
    sub = a
    for _ in range(l // 2):
        sub = polys.sqrmod(sub, f0)
    sub ^= polys.mod(a, f0)              # a^(2^(l/2)) + a  is fixed by the Frobenius power l/2: lies in GF(2^(l/2))
    return {'zero': bytes(ln), 'one': octets(1, ln), 'x': octets(2, ln), 'x+1': octets(3, ln), 'x2': octets(4, ln),
            'xfrob': octets(polys.x_pow_2k(l - 1, f0), ln), 'sub': octets(sub, ln), 'ones': b'\xff' * ln,
            'f1': vf.filler('bels.u1/%d' % ln, ln), 'f2': vf.filler('bels.u2/%d' % ln, ln)}

def genmi_tapes(ln, m0):
    """tapes of 1..3 candidates covering 0, 1, 2 rejections before acceptance and the all-rejected exits"""
    fc = field_classes(ln, m0)
    seqs = [['f1'], ['ones'], ['x+1'], ['x', 'f1'], ['x2', 'f2'], ['xfrob', 'f1'], ['zero', 'f1'], ['one', 'f2'], ['sub', 'f1'],
            ['x', 'zero', 'f1'], ['sub', 'xfrob', 'f2'], ['one', 'x2', 'ones'],
            ['zero', 'zero', 'zero'], ['x', 'x2', 'xfrob'], ['sub', 'one', 'x']]
    return [('+'.join(s), b''.join(fc[k] for k in s)) for s in seqs]

def pairs(maxcount):
    return [(c, t) for c in range(1, maxcount + 1) for t in range(1, c + 1)]

QUICK_PAIRS = pairs(3) + [(4, 2), (4, 4), (5, 3), (6, 1), (6, 6)]
QUICK_BIG = [(7, 7), (9, 5), (16, 1), (16, 16)]

def big_pairs(tier):
    if tier == 'quick':
        return QUICK_BIG
    out = []
    for c in range(7, 17):
        for t in sorted(set((1, 2, c // 2, c - 1, c))):
            out.append((c, t))
    return out

def _shares(ln, fam, count, thr, sk, kk):
    m0, mis = family(ln, fam)
    s = secret(sk, ln)
    tape = ktape(kk, (thr - 1) * ln)
    return s, tape, m0, mis[:count], R.share(s, thr, count, m0, mis[:count], R.Tape(tape))

def gen_cases(tier):
    """(function name, case) corpus: admissible inputs + inputs whose documented result is a specific error"""
    th = tier == 'thorough'
    out = []
    # ---- belsStdM: the complete (len, num) domain + the documented error class
    for ln in LENS:
        for num in range(17) if th or ln == 16 else (0, 1, 2, 15, 16):
            out.append(('belsStdM', dict(len=ln, num=num)))
    for ln, num in ((0, 0), (8, 1), (15, 1), (17, 1), (31, 16), (33, 0), (64, 2), (16, 17), (24, 17), (32, 17), (32, 255), (16, 1 << 32)):
        out.append(('belsStdM', dict(len=ln, num=num)))
    # ---- belsValM
    for ln in LENS:
        r = ring(ln)
        for m in [r['std0']] + (r['std'] if th else [r['std'][0], r['std'][15]]) + [r['m0g']] + r['mig'][:2 if not th else 16] + r['mid'][:2 if not th else 16]:
            out.append(('belsValM', dict(m=m)))
        bad = [bytes(ln), octets(1, ln), octets(2, ln), octets(3, ln), b'\xff' * ln, b'\xff' * (ln - 1) + b'\x7f',
               vf.filler('bels.v1/%d' % ln, ln), vf.filler('bels.v2/%d' % ln, ln), vf.filler('bels.v3/%d' % ln, ln)]
        bits = range(0, 8 * ln, 1 if ln == 16 else 3) if th else (0, 1, 2, 7, 8, 31, 32, 63, 64, 65, 8 * ln - 2, 8 * ln - 1)
        for b in bits:
            x = bytearray(r['std0']); x[b // 8] ^= 1 << (b % 8); bad.append(bytes(x))
        if th:
            for b in range(0, 8 * ln, 7):
                x = bytearray(r['mig'][0]); x[b // 8] ^= 1 << (b % 8); bad.append(bytes(x))
        for m in bad:
            out.append(('belsValM', dict(m=m)))
    for n in (0, 1, 8, 15, 17, 23, 25, 31, 33, 48, 64):
        out.append(('belsValM', dict(m=vf.filler('bels.vbad', n))))
    # ---- belsGenM0: r rejected candidates, then an accepted one
    for ln in LENS:
        r = ring(ln)
        out.append(('belsGenM0', dict(len=ln, ang=r['m0g_tape'])))
        rej = [bytes(ln), octets(1, ln), octets(2, ln), octets(3, ln), b'\xff' * (ln - 1) + b'\x7f']
        rej = [c for c in rej if not R.val_m(c)]
        j = 0
        while len(rej) < (12 if not th else 40):
            c = vf.filler('bels.rej/%d/%d' % (ln, j), ln); j += 1
            if not R.val_m(c):
                rej.append(c)
        for nrej in (0, 1, 2, 5, 12) + ((40,) if th else ()):
            for acc in (r['std0'], r['mig'][1], r['std'][15])[:3 if th else 2]:
                out.append(('belsGenM0', dict(len=ln, ang=b''.join(rej[:nrej]) + acc)))
        if th:
            # a plain filler tape: the reference walks it until the first irreducible candidate (about l candidates)
            j = 0
            tape = b''
            while True:
                c = vf.filler('bels.scan/%d/%d' % (ln, j), ln); j += 1
                tape += c
                if R.val_m(c):
                    break
            out.append(('belsGenM0', dict(len=ln, ang=tape)))
    # ---- belsGenMi
    for ln in LENS:
        r = ring(ln)
        for m0 in (r['std0'], r['m0g']):
            for j, (name, tape) in enumerate(genmi_tapes(ln, m0)):
                if th or m0 is r['std0'] or j % 3 == 0:
                    out.append(('belsGenMi', dict(len=ln, m0=m0, ang=tape)))
        for tp in r['mig_tapes'][:2 if not th else 16]:
            out.append(('belsGenMi', dict(len=ln, m0=r['m0g'], ang=tp)))
    # ---- belsGenMid: identifier lengths across the belt-hash block boundaries
    idlens = range(0, 71) if th else (0, 1, 8, 31, 32, 33, 63, 64, 65, 100)
    for ln in LENS:
        r = ring(ln)
        for m0 in (r['std0'], r['m0g']):
            for n in idlens:
                if not th and m0 is r['m0g'] and n not in (0, 33, 64):
                    continue
                out.append(('belsGenMid', dict(len=ln, m0=m0, id=vf.filler('bels.idc/%d' % n, n))))
            out.append(('belsGenMid', dict(len=ln, m0=m0, id=bytes(16))))
            out.append(('belsGenMid', dict(len=ln, m0=m0, id=b'\xff' * 16)))
        for ident in r['ids'][:3 if not th else 16]:
            out.append(('belsGenMid', dict(len=ln, m0=r['std0'], id=ident)))
    # ---- sharing and recovery
    small = pairs(6) if th else QUICK_PAIRS
    big = big_pairs(tier)
    for ln in LENS:
        for fam in FAMILIES:
            if fam == 'std':
                prs = small + big
            elif th:
                prs = small + (big if fam == 'genmi' else [(7, 7), (16, 1), (16, 8), (16, 16)])
            else:
                prs = pairs(3) + ([(6, 4), (9, 5), (16, 16)] if fam == 'genmi' else [(5, 5), (6, 1)])
            for (cnt, thr) in prs:
                s, tape, m0, mis, sh = _shares(ln, fam, cnt, thr, 'f', 'f')
                out.append(('belsShare', dict(count=cnt, threshold=thr, len=ln, s=s, m0=m0, mi=b''.join(mis), rng=tape)))
                if fam == 'std':
                    out.append(('belsShare2', dict(count=cnt, threshold=thr, len=ln, s=s, rng=tape)))
                    out.append(('belsShare3', dict(count=cnt, threshold=thr, len=ln, s=s)))
                # recoveries: all shares in natural order; exactly threshold shares (the last users) reversed;
                # one share less than the threshold (result defined by bels-recover, not the secret);
                # thorough: a stride-2 / rotated order of all shares
                sel = [('all', list(range(cnt))), ('thr', list(range(cnt - thr, cnt))[::-1])]
                if thr > 1 and (th or cnt <= 4):
                    sel.append(('below', list(range(thr - 1))))
                if th and 3 <= cnt <= 6:
                    sel.append(('mix', [(2 * j + 1) % cnt for j in range(cnt)] if cnt % 2 else list(range(1, cnt)) + [0]))
                seen = set()
                for what, order in sel:
                    if tuple(order) in seen:
                        continue
                    seen.add(tuple(order))
                    k = len(order)
                    if fam == 'std':
                        out.append(('belsRecover2', dict(count=k, len=ln, si=b''.join(bytes([j + 1]) + sh[j] for j in order))))
                        if what != 'all' and not (th and cnt <= 6):
                            continue
                    elif what == 'below' and cnt > 3 and not (th and cnt <= 6):
                        continue
                    out.append(('belsRecover', dict(count=k, len=ln, si=b''.join(sh[j] for j in order), m0=m0,
                                                    mi=b''.join(mis[j] for j in order))))
        # the value alphabet of secret x generator output on two shapes (standard keys)
        for (cnt, thr) in ((3, 2), (5, 5)):
            for sk in SECRETS:
                for kk in TAPES:
                    if (sk, kk) == ('f', 'f') or (not th and (sk, kk) not in (('0', '00'), ('ff', 'ff'), ('1', 'f'))):
                        continue
                    s, tape, m0, mis, sh = _shares(ln, 'std', cnt, thr, sk, kk)
                    out.append(('belsShare2', dict(count=cnt, threshold=thr, len=ln, s=s, rng=tape)))
                    if th or cnt == 3:
                        out.append(('belsShare', dict(count=cnt, threshold=thr, len=ln, s=s, m0=m0, mi=b''.join(mis), rng=tape)))
                        out.append(('belsShare3', dict(count=cnt, threshold=thr, len=ln, s=s)))
                    order = list(range(cnt - thr, cnt))
                    out.append(('belsRecover2', dict(count=thr, len=ln, si=b''.join(bytes([j + 1]) + sh[j] for j in order))))
        # documented error classes
        r = ring(ln)
        s = secret('f', ln)
        for (cnt, thr) in ((1, 0), (0, 0), (2, 3), (0, 1)):
            mi = b''.join(r['std'][:cnt])
            out.append(('belsShare', dict(count=cnt, threshold=thr, len=ln, s=s, m0=r['std0'], mi=mi, rng=b'')))
            out.append(('belsShare2', dict(count=cnt, threshold=thr, len=ln, s=s, rng=b'')))
            out.append(('belsShare3', dict(count=cnt, threshold=thr, len=ln, s=s)))
        out.append(('belsShare2', dict(count=17, threshold=2, len=ln, s=s, rng=b'')))
        out.append(('belsShare3', dict(count=17, threshold=2, len=ln, s=s)))
        sh = R.share_std(s, 2, 3, R.Tape(ktape('f', ln)))
        out.append(('belsRecover', dict(count=0, len=ln, si=b'', m0=r['std0'], mi=b'')))
        out.append(('belsRecover2', dict(count=0, len=ln, si=b'')))
        out.append(('belsRecover2', dict(count=17, len=ln, si=b''.join(bytes([j % 16 + 1]) + sh[0][1:] for j in range(17)))))
        for nums in ((1, 1), (2, 3, 2), (0, 1), (1, 17), (3, 255), (16, 1, 16)):
            out.append(('belsRecover2', dict(count=len(nums), len=ln, si=b''.join(bytes([j]) + sh[i % 3][1:] for i, j in enumerate(nums)))))
        for dup in ((0, 0), (0, 1, 0), (0, 1, 2, 1)):
            out.append(('belsRecover', dict(count=len(dup), len=ln, si=b''.join(sh[j % 3][1:] for j in dup), m0=r['std0'],
                                            mi=b''.join(r['std'][j] for j in dup))))
    return out

def sweep_cases(tier):
    """C09 argument sweeps: scalars / lengths across and beyond the documented domains of bels.h; every case's reference
    names the documented error (\\expect{ERR_BAD_INPUT}: len in {16,24,32}, 0 <= num <= 16, 0 < threshold <= count (<= 16);
    \\expect{ERR_BAD_PUBKEY}: share numbers in 1..16 and distinct, user keys distinct).  Buffers are sized by the same
    scalars, so under exact-size allocation a function that does not stop at the check writes out of bounds."""
    out = []
    f = lambda tag, n: vf.filler('bels.sw/' + tag, n)
    lens = (0, 1, 8, 15, 16, 17, 23, 24, 25, 31, 32, 33, 40, 48, 64)
    for ln in lens:
        for num in (0, 16, 17):
            out.append(('belsStdM', dict(len=ln, num=num)))
        out.append(('belsValM', dict(m=f('m', ln))))
        if ln in LENS:
            continue                        # admissible lengths are the corpus (need valid keys); here: only beyond the domain
        out.append(('belsGenM0', dict(len=ln, ang=f('ang', 64))))
        out.append(('belsGenMi', dict(len=ln, m0=f('m0', ln), ang=f('ang', 64))))
        out.append(('belsGenMid', dict(len=ln, m0=f('m0', ln), id=f('id', 9))))
        out.append(('belsShare', dict(count=3, threshold=2, len=ln, s=f('s', ln), m0=f('m0', ln), mi=f('mi', 3 * ln), rng=f('k', ln))))
        out.append(('belsShare2', dict(count=3, threshold=2, len=ln, s=f('s', ln), rng=f('k', ln))))
        out.append(('belsShare3', dict(count=3, threshold=2, len=ln, s=f('s', ln))))
        out.append(('belsRecover', dict(count=2, len=ln, si=f('si', 2 * ln), m0=f('m0', ln), mi=f('mi', 2 * ln))))
        out.append(('belsRecover2', dict(count=2, len=ln, si=b''.join(bytes([j + 1]) + f('si%d' % j, ln) for j in range(2)))))
    for ln in LENS:
        r = ring(ln)
        s = secret('f', ln)
        for num in (15, 16, 17, 18, 255, 256, 1 << 16, 1 << 32, vf.SIZE_MAX):
            out.append(('belsStdM', dict(len=ln, num=num)))
        for cnt, thr in ((0, 0), (1, 0), (5, 0), (0, 1), (1, 2), (2, 3), (5, 6), (16, 17), (1, 1), (16, 16), (3, 1 << 32), (3, vf.SIZE_MAX)):
            mi = b''.join(r['std'][:cnt])
            out.append(('belsShare', dict(count=cnt, threshold=thr, len=ln, s=s, m0=r['std0'], mi=mi, rng=ktape('f', max(thr - 1, 0) * ln if thr <= 16 else 0))))
            out.append(('belsShare2', dict(count=cnt, threshold=thr, len=ln, s=s, rng=ktape('f', max(thr - 1, 0) * ln if thr <= 16 else 0))))
            out.append(('belsShare3', dict(count=cnt, threshold=thr, len=ln, s=s)))
        for cnt, thr in ((17, 1), (17, 17), (18, 2), (32, 16), (255, 3)):
            out.append(('belsShare2', dict(count=cnt, threshold=thr, len=ln, s=s, rng=ktape('f', (thr - 1) * ln))))
            out.append(('belsShare3', dict(count=cnt, threshold=thr, len=ln, s=s)))
        sh = R.share_std(s, 2, 16, R.Tape(ktape('f', ln)))
        out.append(('belsRecover', dict(count=0, len=ln, si=b'', m0=r['std0'], mi=b'')))
        for cnt in (0, 1, 16, 17, 18, 40):
            out.append(('belsRecover2', dict(count=cnt, len=ln, si=b''.join(bytes([j % 16 + 1]) + sh[j % 16][1:] for j in range(cnt)))))
        for pos in (0, 1, 2):
            for v in (0, 1, 16, 17, 128, 255):
                nums = [5, 6, 7]; nums[pos] = v
                out.append(('belsRecover2', dict(count=3, len=ln, si=b''.join(bytes([n]) + sh[i][1:] for i, n in enumerate(nums)))))
        for dup in ((0, 0), (1, 0, 1), (0, 1, 2, 3, 4, 0), (3, 3, 3)):
            out.append(('belsRecover', dict(count=len(dup), len=ln, si=b''.join(sh[j][1:] for j in dup), m0=r['std0'], mi=b''.join(r['std'][j] for j in dup))))
            out.append(('belsRecover2', dict(count=len(dup), len=ln, si=b''.join(sh[j] for j in dup))))
    return out
