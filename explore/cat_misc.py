"""bash / brng / botp part of the catalogue (references: ref/bash.py, ref/brng.py, ref/botp.py)"""
import vf, cat
from cat import Fn, reg
from cat_belt import Composite, data, lengths
import bash as RB, brng as RG, botp as RO

E = dict(OK=0, BAD_INPUT=109, BAD_PARAMS=502, BAD_FORMAT=306, BAD_TIME=307, BAD_PWD=518)

# ------------------------------------------------------------------ bash
def _bashhash_ref(c):
    l = c['l']
    if l == 0 or l % 16 or l > 256:
        return {'ret': E['BAD_PARAMS']}
    return {'ret': 0, 'hash': RB.bash_hash(l, c['src'])}
reg(Fn('bashHash', [('out', 'hash', lambda c: c['l'] // 4 if 0 < c['l'] <= 256 else 64), ('val', 'l'), ('in', 'src'), ('len', 'src')], _bashhash_ref,
       group='bash', overlap=dict(dest='hash', src='src', aux=[])))

def _impl_bashf(lib, c, A, fill):
    b = A.buf(c['block'])
    lib.call('bashF', b, A.buf(lib.sz('bashF_deep'), fill))
    return {'ret': 0, 'block': b.get()}
reg(Composite('bash.F', _impl_bashf, lambda c: {'ret': 0, 'block': RB.bash_f(c['block'])}, group='bash'))

def _impl_bashhash_v(lib, c, A, fill):
    st = A.buf(lib.sz('bashHash_keep'), fill)
    lib.call('bashHashStart', st, c['l'])
    lib.call('bashHashStepH', A.buf(c['src']), len(c['src']), st)
    n = c['hlen']
    h = A.buf(n, fill)
    lib.call('bashHashStepG', h, n, st)
    tag = h.get()
    ok = lib.boolean('bashHashStepV', A.buf(tag), n, st)
    bad = None
    if n:
        w = bytearray(tag); w[n - 1] ^= 1
        bad = lib.boolean('bashHashStepV', A.buf(bytes(w)), n, st)
    return {'ret': 0, 'hash': tag, 'v_ok': ok, 'v_bad': bad}
reg(Composite('bash.hashGV', _impl_bashhash_v,
              lambda c: {'ret': 0, 'hash': RB.bash_hash(c['l'], c['src'])[:c['hlen']], 'v_ok': 1, 'v_bad': 0 if c['hlen'] else None}, group='bash'))

# ------------------------------------------------------------------ brng
def _ctr_ref(c):
    out, iv = RG.ctr_rand(c['key'], c['iv'], len(c['buf']), c['buf'])
    return {'ret': 0, 'buf': out, 'iv': iv}
reg(Fn('brngCTRRand', [('io', 'buf'), ('len', 'buf'), ('in', 'key'), ('io', 'iv')], _ctr_ref, group='brng', secrets=('key',)))
reg(Fn('brngHMACRand', [('out', 'buf', lambda c: c['count']), ('val', 'count'), ('in', 'key'), ('len', 'key'), ('in', 'iv'), ('len', 'iv')],
       lambda c: {'ret': 0, 'buf': RG.hmac_rand(c['key'], c['iv'], c['count'])}, group='brng', secrets=('key',),
       overlap=dict(dest='buf', src='key', aux=['iv'], excluded=[('buf', 'iv')])))

def _impl_ctr_steps(lib, c, A, fill):
    """brngCTRStart / StepR with a list of chunk lengths (zero-filled buffers) / StepG"""
    st = A.buf(lib.sz('brngCTR_keep'), fill)
    lib.call('brngCTRStart', st, A.buf(c['key']), A.buf(c['iv']) if c['iv'] is not None else None)
    out = b''
    for n in c['chunks']:
        b = A.buf(n, 0)
        lib.call('brngCTRStepR', b, n, st)
        out += b.get()
    iv = A.buf(32, fill)
    lib.call('brngCTRStepG', iv, st)
    return {'ret': 0, 'out': out, 'iv': iv.get()}
def _ctr_steps_ref(c):
    g = RG.CTR(c['key'], c['iv'])
    out = b''.join(g.step(n) for n in c['chunks'])
    return {'ret': 0, 'out': out, 'iv': g.get_iv()}
reg(Composite('brng.ctrSteps', _impl_ctr_steps, _ctr_steps_ref, group='brng'))

def _impl_hmac_steps(lib, c, A, fill):
    st = A.buf(lib.sz('brngHMAC_keep'), fill)
    iv = A.buf(c['iv'])
    lib.call('brngHMACStart', st, A.buf(c['key']), len(c['key']), iv, len(c['iv']))
    out = b''
    for n in c['chunks']:
        b = A.buf(n, fill)
        lib.call('brngHMACStepR', b, n, st)
        out += b.get()
    return {'ret': 0, 'out': out}
def _hmac_steps_ref(c):
    g = RG.HMAC(c['key'], c['iv'])
    return {'ret': 0, 'out': b''.join(g.step(n) for n in c['chunks'])}
reg(Composite('brng.hmacSteps', _impl_hmac_steps, _hmac_steps_ref, group='brng'))

# ------------------------------------------------------------------ botp
def _otp_out(c):
    return 11
def _cstr(b):
    return b.split(b'\0')[0].decode('latin1')

def _impl_dt(lib, c, A, fill):
    o = A.buf(c['digit'] + 1, fill)
    lib.call('botpDT', o, c['digit'], A.buf(c['mac']), len(c['mac']))
    return {'ret': 0, 'otp': _cstr(o.get())}
reg(Composite('botp.DT', _impl_dt, lambda c: {'ret': 0, 'otp': RO.otp_str(c['digit'], c['mac'])}, group='botp'))

def _impl_ctrnext(lib, c, A, fill):
    b = A.buf(c['ctr'])
    lib.call('botpCtrNext', b)
    return {'ret': 0, 'ctr': b.get()}
reg(Composite('botp.ctrNext', _impl_ctrnext, lambda c: {'ret': 0, 'ctr': RO.ctr_next(c['ctr'])}, group='botp'))

def _hotp_ref(c):
    if not 6 <= c['digit'] <= 8:
        return {'ret': E['BAD_PARAMS']}
    return {'ret': 0, 'otp': RO.hotp(c['key'], c['ctr'], c['digit'])[0]}
def _impl_hotp(lib, c, A, fill):
    o = A.buf(c['digit'] + 1 if 1 <= c['digit'] <= 20 else 21, fill)
    r = lib.err('botpHOTPRand', o, c['digit'], A.buf(c['key']), len(c['key']), A.buf(c['ctr']))
    res = {'ret': r}
    if r == 0:
        res['otp'] = _cstr(o.get())
        # verification: the generated password is accepted, every single-digit change is rejected
        res['v_ok'] = lib.err('botpHOTPVerify', A.buf(o.get()), A.buf(c['key']), len(c['key']), A.buf(c['ctr']))
        bad = []
        for i in range(c['digit']):
            w = bytearray(o.get()); w[i] = 0x30 + (w[i] - 0x30 + 1) % 10
            bad.append(lib.err('botpHOTPVerify', A.buf(bytes(w)), A.buf(c['key']), len(c['key']), A.buf(c['ctr'])))
        res['v_bad'] = sorted(set(bad))
    return res
reg(Composite('botp.HOTP', _impl_hotp, lambda c: dict(_hotp_ref(c), **({'v_ok': 0, 'v_bad': [E['BAD_PWD']]} if 6 <= c['digit'] <= 8 else {})),
              group='botp', secrets=('key',)))

def _impl_hotp_steps(lib, c, A, fill):
    """Start, StepS(ctr), n x StepR, StepG: the counter advances by one per generated password;
    StepV advances it only on success"""
    st = A.buf(lib.sz('botpHOTP_keep'), fill)
    lib.call('botpHOTPStart', st, c['digit'], A.buf(c['key']), len(c['key']))
    lib.call('botpHOTPStepS', st, A.buf(c['ctr']))
    otps = []
    for _ in range(c['n']):
        o = A.buf(c['digit'] + 1, fill)
        lib.call('botpHOTPStepR', o, st)
        otps.append(_cstr(o.get()))
    g = A.buf(8, fill)
    lib.call('botpHOTPStepG', g, st)
    ctr_after_r = g.get()
    # a wrong password leaves the counter, the right one advances it
    nxt = RO.hotp(c['key'], ctr_after_r, c['digit'])[0]
    wrong = ('%0*d' % (c['digit'], (int(nxt) + 1) % 10 ** c['digit']))
    vb = lib.boolean('botpHOTPStepV', A.buf(wrong.encode() + b'\0'), st)
    lib.call('botpHOTPStepG', g, st); ctr_after_bad = g.get()
    vo = lib.boolean('botpHOTPStepV', A.buf(nxt.encode() + b'\0'), st)
    lib.call('botpHOTPStepG', g, st); ctr_after_ok = g.get()
    return {'ret': 0, 'otps': otps, 'ctr_r': ctr_after_r, 'v_bad': vb, 'ctr_bad': ctr_after_bad, 'v_ok': vo, 'ctr_ok': ctr_after_ok}
def _hotp_steps_ref(c):
    ctr = c['ctr']; otps = []
    for _ in range(c['n']):
        o, ctr = RO.hotp(c['key'], ctr, c['digit']); otps.append(o)
    return {'ret': 0, 'otps': otps, 'ctr_r': ctr, 'v_bad': 0, 'ctr_bad': ctr, 'v_ok': 1, 'ctr_ok': RO.ctr_next(ctr)}
reg(Composite('botp.HOTPsteps', _impl_hotp_steps, _hotp_steps_ref, group='botp'))

def _impl_totp(lib, c, A, fill):
    o = A.buf(c['digit'] + 1 if 1 <= c['digit'] <= 20 else 21, fill)
    r = lib.err('botpTOTPRand', o, c['digit'], A.buf(c['key']), len(c['key']), c['t'])
    res = {'ret': r}
    if r == 0:
        res['otp'] = _cstr(o.get())
        res['v_ok'] = lib.err('botpTOTPVerify', A.buf(o.get()), A.buf(c['key']), len(c['key']), c['t'])
        w = bytearray(o.get()); w[0] = 0x30 + (w[0] - 0x30 + 1) % 10
        res['v_bad'] = lib.err('botpTOTPVerify', A.buf(bytes(w)), A.buf(c['key']), len(c['key']), c['t'])
    return res
def _totp_ref(c):
    if not 6 <= c['digit'] <= 8:
        return {'ret': E['BAD_PARAMS']}
    if c['t'] == vf.SIZE_MAX:
        return {'ret': E['BAD_TIME']}
    return {'ret': 0, 'otp': RO.totp(c['key'], c['t'], c['digit']), 'v_ok': 0, 'v_bad': E['BAD_PWD']}
reg(Composite('botp.TOTP', _impl_totp, _totp_ref, group='botp', secrets=('key',)))

def _impl_ocra(lib, c, A, fill):
    f = RO.ocra_parse(c['suite'])
    o = A.buf((f['digit'] if f else 9) + 1, fill)
    suite = A.buf(c['suite'].encode('latin1') + b'\0')
    P = A.buf(c['p']) if c['p'] is not None else None
    S = A.buf(c['s']) if c['s'] is not None else None
    C = A.buf(c['ctr']) if c['ctr'] is not None else None
    r = lib.err('botpOCRARand', o, suite, A.buf(c['key']), len(c['key']), A.buf(c['q']), len(c['q']), C, P, S, c['t'])
    res = {'ret': r}
    if r == 0:
        res['otp'] = _cstr(o.get())
        res['v_ok'] = lib.err('botpOCRAVerify', A.buf(o.get()), suite, A.buf(c['key']), len(c['key']), A.buf(c['q']), len(c['q']), C, P, S, c['t'])
        bad = set()
        for i in range(len(res['otp'])):
            w = bytearray(o.get()); w[i] = 0x30 + (w[i] - 0x30 + 1) % 10
            bad.add(lib.err('botpOCRAVerify', A.buf(bytes(w)), suite, A.buf(c['key']), len(c['key']), A.buf(c['q']), len(c['q']), C, P, S, c['t']))
        res['v_bad'] = sorted(bad)
    return res
def _ocra_ref(c):
    f = RO.ocra_parse(c['suite'])
    if f is None:
        return {'ret': E['BAD_FORMAT']}
    if not 4 <= len(c['q']) <= 2 * f['q_max']:
        return {'ret': E['BAD_PARAMS']}
    otp, _ = RO.ocra(c['suite'], c['key'], c['q'], c['ctr'], c['p'], c['s'], c['t'])
    return {'ret': 0, 'otp': otp, 'v_ok': 0, 'v_bad': [E['BAD_PWD']]}
reg(Composite('botp.OCRA', _impl_ocra, _ocra_ref, group='botp', secrets=('key',)))

# ------------------------------------------------------------------ the bashNNN macro families of bash.h (through drv/vh_macros.c)
def _impl_bashmacros(lib, c, A, fill):
    """Start / StepH x fragments / StepG / StepG2 / StepV (right, and the digest wrong in EVERY single octet) / Hash, all through
    the macros bash256*, bash384*, bash512* -- STB 34.101.77: bashNNN is the hash of level NNN / 2 with a digest of NNN / 8 octets"""
    N = c['N']; hl = N // 8; src = c['src']
    st = A.buf(lib.sz('vm_bash%d_keep' % N), fill)
    out = {'ret': 0}
    lib.call('vm_bash%dStart' % N, st)
    cut = len(src) // 3
    for part in (src[:cut], src[cut:]):
        lib.call('vm_bash%dStepH' % N, A.buf(part) if part else A.buf(1), len(part), st)
    h = A.buf(hl, fill); lib.call('vm_bash%dStepG' % N, h, st); out['hash'] = h.get()
    h2 = A.buf(hl, fill); lib.call('vm_bash%dStepG2' % N, h2, c['g2'], st); out['hash_g2'] = h2.get(c['g2'])
    good = lib.call('vm_bash%dStepV' % N, A.buf(out['hash']), st) & 0xFFFFFFFF
    if good == 0x7FFFFFFF:
        out['stepv'] = 'absent'
    else:
        rej = []
        for j in range(hl):
            x = bytearray(out['hash']); x[j] ^= 0x01 << (j % 8)
            if lib.call('vm_bash%dStepV' % N, A.buf(bytes(x)), st) & 0xFFFFFFFF:
                rej.append(j)
        out['stepv'] = 'right=%d accepted-wrong-octets=%s' % (1 if good else 0, rej)
    h3 = A.buf(hl, fill); out['ret'] = lib.err('vm_bash%dHash' % N, h3, A.buf(src) if src else A.buf(1), len(src)); out['hash_oneshot'] = h3.get()
    return out
def _ref_bashmacros(c):
    N = c['N']; d = RB.bash_hash(N // 2, c['src'])
    return {'ret': 0, 'hash': d, 'hash_g2': d[:c['g2']], 'stepv': 'right=1 accepted-wrong-octets=[]', 'hash_oneshot': d}
reg(Composite('bash.macros', _impl_bashmacros, _ref_bashmacros, group='bash'))

# ------------------------------------------------------------------ cases
def rate(l):
    return 192 - l // 2          # hash rate in octets for level l (buf_len = 192 - l/2)

def gen_cases(tier):
    out = []
    # bash-f
    blocks = [bytes(192), b'\xff' * 192, data(192)]
    bits = range(1536) if tier == 'thorough' else list(range(0, 1536, 7)) + [1535]
    for b in bits:
        x = bytearray(192); x[b // 8] |= 1 << (b % 8); blocks.append(bytes(x))
    blocks += [vf.filler('bf%d' % i, 192) for i in range(64 if tier == 'thorough' else 8)]
    out += [('bash.F', dict(block=b)) for b in blocks]
    for N in (256, 384, 512):
        r_ = 192 - N // 4
        for n in (0, 1, r_ - 1, r_, r_ + 1, 2 * r_ + 1):
            for g2 in (0, 1, N // 8 - 1, N // 8):
                out.append(('bash.macros', dict(N=N, src=data(n), g2=g2)))
    # bash hash: every level x every length 0..2r+1
    for l in range(16, 257, 16):
        r = rate(l)
        for n in lengths(0, 2 * r + 1, tier, r) if tier == 'quick' else range(0, 2 * r + 2):
            out.append(('bashHash', dict(l=l, src=data(n))))
        for n in (0, 1, r - 1, r, r + 1):
            for hl in sorted(set((0, 1, l // 8, l // 4 - 1, l // 4))):
                out.append(('bash.hashGV', dict(l=l, src=data(n, 3), hlen=hl)))
    # brng CTR: IVs whose counter wraps a word / all 256 bits
    key = bytes.fromhex('E9DEE72C8F0C0FA62DDB49F46F73964706075316ED247A3739CBA38303A98BF6')
    ivs = [bytes(32), (1).to_bytes(32, 'little'), ((1 << 64) - 1).to_bytes(32, 'little'), ((1 << 128) - 1).to_bytes(32, 'little'),
           ((1 << 192) - 1).to_bytes(32, 'little'), ((1 << 256) - 1).to_bytes(32, 'little'), ((1 << 256) - 2).to_bytes(32, 'little'),
           ((1 << 32) - 1).to_bytes(32, 'little'), vf.filler('iv32', 32), None]
    counts = [0, 1, 31, 32, 33, 64, 65, 96, 97]
    for iv in ivs:
        for n in counts:
            if iv is not None:
                out.append(('brngCTRRand', dict(buf=bytes(n), key=key, iv=iv)))
                out.append(('brngCTRRand', dict(buf=data(n, 3), key=key, iv=iv)))
        for chunks in ([32, 32, 32], [7, 25, 32], [1, 1, 62, 33], [33, 31], [0, 5, 0, 27, 64], [96]):
            out.append(('brng.ctrSteps', dict(key=key, iv=iv, chunks=chunks)))
    for kl in (0, 1, 32, 33, 64, 65):
        for il in (0, 1, 63, 64, 65, 128):
            for n in (0, 1, 32, 33, 65):
                out.append(('brngHMACRand', dict(count=n, key=data(kl, 3), iv=data(il))))
            out.append(('brng.hmacSteps', dict(key=data(kl, 3), iv=data(il), chunks=[7, 25, 32, 1, 33])))
    # botp
    k32 = key
    for d in range(4, 10):
        for off in range(16):
            mac = bytearray(vf.filler('dt%d' % off, 32)); mac[31] = (mac[31] & 0xF0) | off
            out.append(('botp.DT', dict(digit=d, mac=bytes(mac))))
        out.append(('botp.DT', dict(digit=d, mac=b'\xff' * 20)))
        out.append(('botp.DT', dict(digit=d, mac=bytes(19) + b'\x00')))
    for c in (bytes(8), b'\xff' * 8, b'\xff' * 7 + b'\xfe', bytes(7) + b'\xff', b'\x00' * 4 + b'\xff' * 4, bytes.fromhex('00ffffffffffffff')):
        out.append(('botp.ctrNext', dict(ctr=c)))
    for d in (5, 6, 7, 8, 9):
        for c in (bytes(8), b'\xff' * 8, b'\xff' * 7 + b'\xfe', vf.filler('ctr', 8)):
            for kl in (1, 16, 32, 33, 65):
                out.append(('botp.HOTP', dict(digit=d, key=data(kl, 3), ctr=c)))
            if 6 <= d <= 8:
                out.append(('botp.HOTPsteps', dict(digit=d, key=k32, ctr=c, n=3)))
        for t in (0, 1, 59, 2 ** 31 - 1, 2 ** 32, 2 ** 62, vf.SIZE_MAX):
            out.append(('botp.TOTP', dict(digit=d, key=k32, t=t)))
    # OCRA suites
    def suites():
        for d in (range(4, 10) if tier == 'thorough' else (4, 6, 9)):
            for c in ('', 'C-'):
                for qt in 'ANH':
                    for qn in ('04', '08', '64'):
                        for p in ('', '-PHBELT', '-PSHA1', '-PSHA256', '-PSHA512'):
                            for s in ('', '-S000', '-S064', '-S512'):
                                for t in ('', '-T1S', '-T59S', '-T1M', '-T59M', '-T1H', '-T48H'):
                                    yield 'OCRA-1:HOTP-HBELT-%d:%sQ%s%s%s%s%s' % (d, c, qt, qn, p, s, t)
    allsuites = list(suites())
    if tier == 'quick':
        base = dict(d=6, c='', qt='A', qn='08', p='', s='', t='')
        sel = set()
        opts = dict(d=(4, 6, 9), c=('', 'C-'), qt='ANH', qn=('04', '08', '64'), p=('', '-PHBELT', '-PSHA1', '-PSHA256', '-PSHA512'),
                    s=('', '-S000', '-S064', '-S512'), t=('', '-T1S', '-T59S', '-T1M', '-T59M', '-T1H', '-T48H'))
        ks = list(opts)
        for i, a in enumerate(ks):          # all single- and pair-factor combinations
            for b in ks[i:]:
                for va in opts[a]:
                    for vb in opts[b]:
                        x = dict(base); x[a] = va; x[b] = vb if a != b else va
                        sel.add('OCRA-1:HOTP-HBELT-%d:%sQ%s%s%s%s%s' % (x['d'], x['c'], x['qt'], x['qn'], x['p'], x['s'], x['t']))
        allsuites = sorted(sel)
    for su in allsuites:
        f = RO.ocra_parse(su)
        qmax = f['q_max'] if f else 8
        for ql in sorted(set((4, 2 * qmax))) if tier == 'quick' else sorted(set((3, 4, 5, 2 * qmax - 1, 2 * qmax, 2 * qmax + 1))):
            out.append(('botp.OCRA', dict(suite=su, key=k32, q=data(ql, 3), ctr=b'\xff' * 7 + b'\xfe', p=vf.filler('P', 64), s=vf.filler('S', 512), t=1234567)))
    for bad in ('OCRA-1:HOTP-HBELT-3:QA08', 'OCRA-1:HOTP-HBELT-10:QA08', 'OCRA-1:HOTP-HBELT-6:QA03', 'OCRA-1:HOTP-HBELT-6:QA65', 'OCRA-1:HOTP-HBELT-6:QA08-S513',
                'OCRA-1:HOTP-HBELT-6:QA08-T60S', 'OCRA-1:HOTP-HBELT-6:QA08-T49H', 'OCRA-1:HOTP-HBELT-6:QA08-T0S', 'OCRA-2:HOTP-HBELT-6:QA08', 'OCRA-1:HOTP-HBELT-6:QX08',
                'OCRA-1:HOTP-HBELT-6:QA08-', 'OCRA-1:HOTP-HBELT-6:QA8', 'OCRA-1:HOTP-HBELT-6:C-QA08-PMD5', 'OCRA-1:HOTP-SHA1-6:QA08', ''):
        out.append(('botp.OCRA', dict(suite=bad, key=k32, q=data(8, 3), ctr=bytes(8), p=vf.filler('P', 64), s=vf.filler('S', 512), t=1)))
    return out
