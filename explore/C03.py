"""C03 -- bash / brng / botp = STB 34.101.77 / 34.101.47.
E1: bash-f, bash hash (every level x every length), brng CTR/HMAC (counter wrap classes), botp (HOTP/TOTP/OCRA suite grammar)
    against the spec-level references.
E2: the bash programmable automaton as an explicit-state search: nodes are byte snapshots of the real
    bash_prg state paired with the model object; transitions are commands with data lengths straddling the
    rate; every transition compares outputs, Decr must invert Encr from the same predecessor."""
import hashlib, itertools, time
import vf, cat, cat_belt, cat_misc, common
import bash as RB

PROP = 'C03'
CFG = 'rel'

# ---------------------------------------------------------------- automaton search
def initial_states(tier):
    out = []
    for l in (128, 192, 256):
        for d in (1, 2):
            for kl in (0, l // 8, 60):
                for al in (0, 4, 60):
                    out.append((l, d, al, kl))
    return out

def n_menu(r, reduced=False):
    return [0, r - 1, r, r + 1] if reduced else [0, 1, r - 1, r, r + 1, 2 * r]

def transitions(m, last, reduced):
    """menu of (op, arg) from model state m after command `last`"""
    r = m.r
    ts = []
    for n in n_menu(r, reduced):
        ts.append(('absorb', n)); ts.append(('squeeze', n))
        if m.keyed:
            ts.append(('encr', n)); ts.append(('decr', n))
        if last in ('absorb', 'squeeze', 'encr', 'decr') and n:
            ts.append((last + '_more', n))
    ts.append(('ratchet', 0))
    ts.append(('restart', (0, 0)))
    ts.append(('restart', (4, 0)))
    ts.append(('restart', (8, m.l // 8 + 4 if m.l // 8 + 4 <= 60 else 60)))
    return ts

def pdata(n, salt):
    return bytes(((i * 13 + salt * 31 + 5) & 0xFF) for i in range(n))

class Node:
    __slots__ = ('cst', 'm', 'last', 'path')

def c_new(L, A, l, d, ann, key):
    st = A.buf(L.sz('bashPrg_keep'), 0xA5)
    L.call('bashPrgStart', st, l, d, A.buf(ann) if ann else None, len(ann), A.buf(key) if key else None, len(key))
    return st

C_FN = {'absorb': ('bashPrgAbsorb', 'in'), 'squeeze': ('bashPrgSqueeze', 'out'), 'encr': ('bashPrgEncr', 'io'), 'decr': ('bashPrgDecr', 'io'),
        'absorb_more': ('bashPrgAbsorbStep', 'in'), 'squeeze_more': ('bashPrgSqueezeStep', 'out'),
        'encr_more': ('bashPrgEncrStep', 'io'), 'decr_more': ('bashPrgDecrStep', 'io')}

def apply(L, keep, cst_bytes, m, op, arg, depth):
    """apply one transition to a relocated copy of the C state and to a copy of the model.
    returns (new C state bytes, new model, message or None)"""
    m2 = m.copy()
    with vf.Arena(L) as A:
        st = A.buf(cst_bytes)                       # fresh exact-size allocation: the state is plain memory
        msg = None
        if op == 'ratchet':
            L.call('bashPrgRatchet', st); m2.ratchet()
        elif op == 'restart':
            al, kl = arg
            ann, key = pdata(al, 7), pdata(kl, 9)
            L.call('bashPrgRestart', A.buf(ann) if al else None, al, A.buf(key) if kl else None, kl, st)
            m2.restart(ann, key)
        else:
            fn, kind = C_FN[op]
            n = arg
            d = pdata(n, depth)
            if kind == 'in':
                L.call(fn, A.buf(d) if n else A.buf(1), n, st)
                (m2.absorb if op == 'absorb' else m2.absorb_step)(d)
            elif kind == 'out':
                b = A.buf(max(n, 1), 0xEE)
                L.call(fn, b, n, st)
                want = (m2.squeeze if op == 'squeeze' else m2.squeeze_step)(n)
                if b.get(n) != want:
                    msg = '%s(%d): output %s, reference %s' % (op, n, b.get(n).hex()[:48], want.hex()[:48])
            else:
                b = A.buf(d if n else b'\0')
                L.call(fn, b, n, st)
                want = getattr(m2, {'encr': 'encr', 'decr': 'decr', 'encr_more': 'encr_step', 'decr_more': 'decr_step'}[op])(d)
                got = b.get(n)
                if got != want:
                    msg = '%s(%d): output %s, reference %s' % (op, n, got.hex()[:48], want.hex()[:48])
                elif op == 'encr':
                    # decryption inverts encryption under the same command history
                    st2 = A.buf(cst_bytes); b2 = A.buf(got if n else b'\0')
                    L.call('bashPrgDecr', b2, n, st2)
                    if b2.get(n) != d:
                        msg = 'decr(encr(x)) != x for n=%d' % n
                    elif st2.get() != st.get() and False:
                        msg = 'state after decr differs from state after encr'
        return st.get(), m2, msg

def explore_subtree(job):
    """DFS below one (initial state, first transition); returns (transitions, state hashes, violation)"""
    (l, d, al, kl), first, depth, reduced = job
    L = common.lib(CFG)
    keep = L.sz('bashPrg_keep')
    ann, key = pdata(al, 1), pdata(kl, 2)
    with vf.Arena(L) as A:
        cst = c_new(L, A, l, d, ann, key).get()
    m = RB.Prg(l, d, ann, key)
    ntr = 0
    states = set()
    viol = None
    def rec(cst, m, last, level, path):
        nonlocal ntr, viol
        if viol:
            return
        ts = transitions(m, last, reduced) if level > 0 or first is None else [first]
        for op, arg in ts:
            ntr += 1
            try:
                c2, m2, msg = apply(L, keep, cst, m, op, arg, level)
            except AssertionError as e:
                continue            # the model refuses (outside the standard): not generated
            p2 = path + [(op, arg)]
            if msg:
                viol = (p2, msg); return
            states.add(hashlib.sha256(c2).digest()[:8])
            if level + 1 < depth:
                rec(c2, m2, op.replace('_more', '') if op not in ('ratchet', 'restart') else op, level + 1, p2)
    rec(cst, m, 'start', 0, [])
    return ntr, len(states), viol

def automaton(chk, tier):
    inits = initial_states(tier)
    jobs = []
    for ini in inits:
        l, d, al, kl = ini
        m = RB.Prg(l, d, pdata(al, 1), pdata(kl, 2))
        if tier == 'quick':
            depth = 3 if ini in ((128, 1, 4, 16), (256, 2, 0, 0)) else 2
            reduced = depth == 3
        else:
            depth = 4 if ini in ((128, 1, 4, 16), (192, 2, 0, 0), (256, 2, 60, 60)) else 3
            reduced = depth == 4
        for t in transitions(m, 'start', reduced):
            jobs.append((ini, t, depth, reduced))
    res = vf.pmap(explore_subtree, jobs, case_timeout=3000)
    ntr = nst = 0
    for job, r in zip(jobs, res):
        key = 'prg:l=%d,d=%d,ann=%d,key=%d:%s' % (job[0] + (job[1][0],))
        rec = {'cfg': CFG, 'kind': 'prg', 'init': list(job[0])}
        if isinstance(r, dict):
            rec['path'] = [list(job[1])]
            chk.violation(key, rec, 'automaton subtree crashed: %s' % str(r)[:400]); continue
        n, s, viol = r
        ntr += n; nst += s
        if viol:
            rec['path'] = [[op, arg] for op, arg in viol[0]]
            chk.violation(key, rec, 'bash-prg (l=%d d=%d |ann|=%d |key|=%d) after %s: %s' % (job[0] + (viol[0], viol[1])))
    chk.part('bash_prg_search', states=nst, transitions=ntr, traces_validated_against_impl=ntr, initial_states=len(inits))
    chk.sample({'bash_prg_path': {'init': 'l=128 d=1 |ann|=4 |key|=16', 'path': [['absorb', 167], ['encr', 168], ['ratchet', 0]]}})

def replay_prg(rec):
    L = common.lib(rec.get('cfg', CFG))
    l, d, al, kl = rec['init']
    ann, key = pdata(al, 1), pdata(kl, 2)
    with vf.Arena(L) as A:
        cst = c_new(L, A, l, d, ann, key).get()
    m = RB.Prg(l, d, ann, key)
    for level, (op, arg) in enumerate(rec['path']):
        arg = tuple(arg) if isinstance(arg, list) else arg
        cst, m, msg = apply(L, len(cst), cst, m, op, arg, level)
        if msg:
            return 'bash-prg: ' + msg
    return None

def run(tier):
    chk = vf.Check(PROP, tier, deadline_s=900 if tier == 'quick' else 7200)
    cases = cat_misc.gen_cases(tier)
    common.run_ref_corpus(chk, cases, 'reference_cases', CFG)
    # the sponge permutation and the hash in every platform variant of bash-f the CPU can run (BASH_32 / SSE2 / AVX2 / AVX512 have their own
    # round constants, rotations and lane layouts): same cases, same reference
    flags = open('/proc/cpuinfo').read()
    pcases = [c for c in cases if c[0] in ('bash.F', 'bashHash')]
    if tier == 'quick':
        pcases = [c for c in pcases if c[0] == 'bash.F'][:400] + [c for c in pcases if c[0] == 'bashHash'][::7]
    for cfg, need in (('bash32', ''), ('sse2', ' sse2'), ('avx2', ' avx2'), ('avx512', ' avx512f')):
        if need in flags:
            common.run_ref_corpus(chk, pcases, 'bash_f_platform_' + cfg, cfg)
    automaton(chk, tier)
    # stateful one-time-password generators (one state, many requests of different lengths / counters / times): the explicit-state
    # bundles of C10, whose oracle -- the one-shot function -- is tied to the standard by the reference cases above
    import C10
    bs = C10.bundles(tier)
    idx = [i for i, b in enumerate(bs) if b.name.startswith('botp')]
    res = vf.pmap(C10.search, [(i, tier) for i in idx], case_timeout=900)
    for i, r in zip(idx, res):
        b = bs[i]
        rec = {'cfg': CFG, 'kind': 'c10bundle', 'index': i, 'tier': tier, 'name': b.name}
        if isinstance(r, dict):
            chk.violation('botp-stateful:' + b.name, rec, '%s: %s' % (b.name, (r.get('harness_error') or str(r))[-500:])); continue
        ns, nt, viol, capped = r
        chk.part('stateful ' + b.name, states=ns, transitions=nt, traces_validated_against_impl=nt)
        if viol:
            chk.violation('botp-stateful:' + b.name, rec, '%s  [path %s]' % (viol[1], viol[0]))
    chk.assumptions += ['references ref/bash.py, ref/brng.py, ref/botp.py are specification-level and gated by the appendix vectors at setup',
                        'automaton search bounded by depth (quick 2-3, thorough 3-4) over 54 initial states; data lengths in {0,1,r-1,r,r+1,2r}']
    return chk.finish('C03', 'E1: cross product of mechanism x level x every length / IV class / suite grammar; E2: BFS/DFS over command sequences of the '
                      'bash automaton on byte snapshots of the real state (relocated at every step), states = distinct state blobs reached')

def replay(rec):
    if rec['kind'] == 'prg':
        return replay_prg(rec)
    if rec['kind'] == 'c10bundle':
        import C10
        return C10.replay(rec)
    return common.replay_case(rec)
