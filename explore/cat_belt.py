"""belt part of the catalogue: function descriptors, reference bindings (ref/belt.py), case generators"""
import ctypes
import vf, cat
from cat import Fn, reg
import belt as R          # /verif/ref/belt.py

E = dict(OK=0, BAD_INPUT=109, OUTOFMEMORY=110, BAD_MAC=511, BAD_KEYTOKEN=513, BAD_PARAMS=502, BAD_FORMAT=306, BAD_LENGTH=108)

def _n(name):
    return lambda c: len(c[name])

# ------------------------------------------------------------------ high-level functions
def _mode(name, refE, with_iv=True, minlen=16):
    args = [('out', 'dest', _n('src')), ('in', 'src'), ('len', 'src'), ('in', 'key'), ('len', 'key')]
    if with_iv:
        args.append(('in', 'iv'))
    def ref(c):
        if len(c['src']) < minlen or len(c['key']) not in (16, 24, 32):
            return {'ret': E['BAD_INPUT']}
        return {'ret': 0, 'dest': refE(c)}
    return reg(Fn(name, args, ref, group='belt', secrets=('key',),
                  overlap=dict(dest='dest', src='src', aux=['key'] + (['iv'] if with_iv else []))))

_mode('beltECBEncr', lambda c: R.ecb_encr(c['key'], c['src']), with_iv=False)
_mode('beltECBDecr', lambda c: R.ecb_decr(c['key'], c['src']), with_iv=False)
_mode('beltCBCEncr', lambda c: R.cbc_encr(c['key'], c['iv'], c['src']))
_mode('beltCBCDecr', lambda c: R.cbc_decr(c['key'], c['iv'], c['src']))
_mode('beltCFBEncr', lambda c: R.cfb_encr(c['key'], c['iv'], c['src']), minlen=0)
_mode('beltCFBDecr', lambda c: R.cfb_decr(c['key'], c['iv'], c['src']), minlen=0)
_mode('beltCTR', lambda c: R.ctr(c['key'], c['iv'], c['src']), minlen=0)

def _bde_ref(f):
    def ref(c):
        if len(c['src']) < 16 or len(c['src']) % 16 or len(c['key']) not in (16, 24, 32):
            return {'ret': E['BAD_INPUT']}
        return {'ret': 0, 'dest': f(c['key'], c['iv'], c['src'])}
    return ref
def _sde_ref(f):
    def ref(c):
        if len(c['src']) < 32 or len(c['src']) % 16 or len(c['key']) not in (16, 24, 32):
            return {'ret': E['BAD_INPUT']}
        return {'ret': 0, 'dest': f(c['key'], c['iv'], c['src'])}
    return ref
for nm, rf in (('beltBDEEncr', _bde_ref(R.bde_encr)), ('beltBDEDecr', _bde_ref(R.bde_decr)),
               ('beltSDEEncr', _sde_ref(R.sde_encr)), ('beltSDEDecr', _sde_ref(R.sde_decr))):
    reg(Fn(nm, [('out', 'dest', _n('src')), ('in', 'src'), ('len', 'src'), ('in', 'key'), ('len', 'key'), ('in', 'iv')], rf,
           group='belt', secrets=('key',), overlap=dict(dest='dest', src='src', aux=['key', 'iv'])))

reg(Fn('beltMAC', [('out', 'mac', 8), ('in', 'src'), ('len', 'src'), ('in', 'key'), ('len', 'key')],
       lambda c: {'ret': 0, 'mac': R.mac(c['key'], c['src'])} if len(c['key']) in (16, 24, 32) else {'ret': E['BAD_INPUT']},
       group='belt', secrets=('key',), overlap=dict(dest='mac', src='src', aux=['key'])))
reg(Fn('beltHash', [('out', 'hash', 32), ('in', 'src'), ('len', 'src')],
       lambda c: {'ret': 0, 'hash': R.hash(c['src'])}, group='belt', overlap=dict(dest='hash', src='src', aux=[])))
reg(Fn('beltHMAC', [('out', 'mac', 32), ('in', 'src'), ('len', 'src'), ('in', 'key'), ('len', 'key')],
       lambda c: {'ret': 0, 'mac': R.hmac(c['key'], c['src'])}, group='belt', secrets=('key',),
       overlap=dict(dest='mac', src='src', aux=['key'])))
reg(Fn('beltPBKDF2', [('out', 'key', 32), ('in', 'pwd'), ('len', 'pwd'), ('val', 'iter'), ('in', 'salt'), ('len', 'salt')],
       lambda c: {'ret': 0, 'key': R.pbkdf2(c['pwd'], c['iter'], c['salt'])} if c['iter'] >= 1 else {'ret': E['BAD_INPUT']},
       group='belt', secrets=('pwd',)))

def _aead_wrap(f):
    def ref(c):
        if len(c['key']) not in (16, 24, 32):
            return {'ret': E['BAD_INPUT']}
        y, t = f(c['key'], c['iv'], c['src1'], c['src2'])
        return {'ret': 0, 'dest': y, 'mac': t}
    return ref
def _aead_unwrap(f):
    def ref(c):
        if len(c['key']) not in (16, 24, 32):
            return {'ret': E['BAD_INPUT']}
        x = f(c['key'], c['iv'], c['src1'], c['src2'], c['mac'])
        return {'ret': E['BAD_MAC']} if x is None else {'ret': 0, 'dest': x}
    return ref
for pre, w, u in (('beltDWP', R.dwp_wrap, R.dwp_unwrap), ('beltCHE', R.che_wrap, R.che_unwrap)):
    reg(Fn(pre + 'Wrap', [('out', 'dest', _n('src1')), ('out', 'mac', 8), ('in', 'src1'), ('len', 'src1'), ('in', 'src2'), ('len', 'src2'),
                          ('in', 'key'), ('len', 'key'), ('in', 'iv')], _aead_wrap(w), group='belt', secrets=('key',),
           overlap=dict(dest='dest', src='src1', aux=['key', 'iv', 'src2'], excluded=[('dest', 'mac')])))
    reg(Fn(pre + 'Unwrap', [('out', 'dest', _n('src1')), ('in', 'src1'), ('len', 'src1'), ('in', 'src2'), ('len', 'src2'), ('in', 'mac'),
                            ('in', 'key'), ('len', 'key'), ('in', 'iv')], _aead_unwrap(u), group='belt', secrets=('key',),
           overlap=dict(dest='dest', src='src1', aux=['key', 'iv', 'src2', 'mac'])))

def _kwp_wrap_ref(c):
    if len(c['src']) < 16 or len(c['key']) not in (16, 24, 32):
        return {'ret': E['BAD_INPUT']}
    return {'ret': 0, 'dest': R.kwp_wrap(c['key'], c['src'], c['header'])}
def _kwp_unwrap_ref(c):
    if len(c['src']) < 32 or len(c['key']) not in (16, 24, 32):
        return {'ret': E['BAD_INPUT']}
    x = R.kwp_unwrap(c['key'], c['src'], c['header'])
    return {'ret': E['BAD_KEYTOKEN']} if x is None else {'ret': 0, 'dest': x}
reg(Fn('beltKWPWrap', [('out', 'dest', lambda c: len(c['src']) + 16), ('in', 'src'), ('len', 'src'), ('in', 'header'), ('in', 'key'), ('len', 'key')],
       _kwp_wrap_ref, group='belt', secrets=('key', 'src'), overlap=dict(dest='dest', src='src', aux=['key', 'header'])))
reg(Fn('beltKWPUnwrap', [('out', 'dest', lambda c: max(len(c['src']) - 16, 0)), ('in', 'src'), ('len', 'src'), ('in', 'header'), ('in', 'key'), ('len', 'key')],
       _kwp_unwrap_ref, group='belt', secrets=('key',), overlap=dict(dest='dest', src='src', aux=['key', 'header'])))

def _krp_ref(c):
    n, m = len(c['src']), c['m']
    if n not in (16, 24, 32) or m not in (16, 24, 32) or m > n:
        return {'ret': E['BAD_INPUT']}
    return {'ret': 0, 'dest': R.krp(c['src'], c['level'], c['header'], m)}
reg(Fn('beltKRP', [('out', 'dest', lambda c: c['m'] if c['m'] <= 64 else 64), ('val', 'm'), ('in', 'src'), ('len', 'src'), ('in', 'level'), ('in', 'header')],
       _krp_ref, group='belt', secrets=('src',)))

def _fmt_ref(f):
    def ref(c):
        n = len(c['src'])
        if not (2 <= c['mod'] <= 65536) or n < 2 or len(c['key']) not in (16, 24, 32):
            return {'ret': E['BAD_INPUT']}
        if n > 600:
            return {'ret': 119}          # ERR_NOT_IMPLEMENTED (documented)
        if any(x >= c['mod'] for x in c['src']):
            return None                  # symbols outside the alphabet: precondition, no prediction
        return {'ret': 0, 'dest': f(c['key'], c['mod'], n, c['iv'], c['src'])}
    return ref
for nm, f in (('beltFMTEncr', R.fmt_encr), ('beltFMTDecr', R.fmt_decr)):
    reg(Fn(nm, [('u16out', 'dest', _n('src')), ('val', 'mod'), ('u16in', 'src'), ('len', 'src'), ('in', 'key'), ('len', 'key'), ('in', 'iv')],
           _fmt_ref(f), group='belt', secrets=('key',), overlap=dict(dest='dest', src='src', aux=['key', 'iv'], excluded=[('dest', 'iv')])))

# ------------------------------------------------------------------ low-level composites
def _impl_block(encr):
    def impl(lib, c, A, fill):
        k32 = A.buf(32, fill)
        lib.call('beltKeyExpand2', k32, A.buf(c['key']), len(c['key']))
        b = A.buf(c['block'])
        lib.call('beltBlockEncr' if encr else 'beltBlockDecr', b, k32)
        return {'ret': 0, 'block': b.get()}
    return impl
class Composite(Fn):
    def __init__(self, name, impl, ref, **kw):
        Fn.__init__(self, name, None, ref, **kw); self.impl = impl
def run(lib, fn, case, fill=0x00, place=None, A=None):
    if getattr(fn, 'impl', None):
        with vf.Arena(lib) as AA:
            return fn.impl(lib, case, AA, fill)
    return cat.run(lib, fn, case, fill, place, A)

reg(Composite('belt.blockEncr', _impl_block(True), lambda c: {'ret': 0, 'block': R.block_encr(c['key'], c['block'])}, group='belt'))
reg(Composite('belt.blockDecr', _impl_block(False), lambda c: {'ret': 0, 'block': R.block_decr(c['key'], c['block'])}, group='belt'))

def _impl_keyexpand(lib, c, A, fill):
    o = A.buf(32, fill)
    lib.call('beltKeyExpand', o, A.buf(c['key']), len(c['key']))
    return {'ret': 0, 'key_': o.get()}
reg(Composite('belt.keyExpand', _impl_keyexpand, lambda c: {'ret': 0, 'key_': R.key_expand(c['key'])}, group='belt'))

def _impl_wbl(step):
    def impl(lib, c, A, fill):
        st = A.buf(lib.sz('beltWBL_keep'), fill)
        lib.call('beltWBLStart', st, A.buf(c['key']), len(c['key']))
        if step == 'D2':
            n = len(c['buf'])
            b1 = A.buf(c['buf'][:n - 16]); b2 = A.buf(c['buf'][n - 16:])
            lib.call('beltWBLStepD2', b1, b2, n, st)
            return {'ret': 0, 'buf': b1.get() + b2.get()}
        b = A.buf(c['buf'])
        lib.call('beltWBLStep' + step, b, len(c['buf']), st)
        return {'ret': 0, 'buf': b.get()}
    return impl
reg(Composite('belt.wblE', _impl_wbl('E'), lambda c: {'ret': 0, 'buf': R.wbl_encr(c['key'], c['buf'])}, group='belt'))
reg(Composite('belt.wblD', _impl_wbl('D'), lambda c: {'ret': 0, 'buf': R.wbl_decr(c['key'], c['buf'])}, group='belt'))
reg(Composite('belt.wblD2', _impl_wbl('D2'), lambda c: {'ret': 0, 'buf': R.wbl_decr(c['key'], c['buf'])}, group='belt'))

def _impl_wblR(lib, c, A, fill):
    """continued encryption: Start, then 'calls' x StepR on the same buffer (round counter runs on: 1..2n, 2n+1..4n, ...);
    a StepE in between restarts the counter at 1"""
    st = A.buf(lib.sz('beltWBL_keep'), fill)
    lib.call('beltWBLStart', st, A.buf(c['key']), len(c['key']))
    b = A.buf(c['buf']); outs = []
    for op in c['ops']:
        lib.call('beltWBLStep' + op, b, len(c['buf']), st)
        outs.append(b.get())
    return {'ret': 0, 'bufs': outs}
def _wblR_ref(c):
    r = c['buf']; n = (len(r) + 15) // 16; rnd = 1; outs = []
    for op in c['ops']:
        if op == 'E':
            rnd = 1
        r = R.wbl_encr(c['key'], r, rnd); rnd += 2 * n
        outs.append(r)
    return {'ret': 0, 'bufs': outs}
reg(Composite('belt.wblR', _impl_wblR, _wblR_ref, group='belt'))

def _impl_block23(name):
    """beltBlockEncr2/Decr2 (u32[4] block) and Encr3/Decr3 (four separate u32 words) -- little-endian platform: words = octets"""
    def impl(lib, c, A, fill):
        k32 = A.buf(32, fill)
        lib.call('beltKeyExpand2', k32, A.buf(c['key']), len(c['key']))
        if name.endswith('2'):
            b = A.buf(c['block'])
            lib.call(name, b, k32)
            return {'ret': 0, 'block': b.get()}
        w = [A.buf(c['block'][4 * i:4 * i + 4]) for i in range(4)]
        lib.call(name, w[0], w[1], w[2], w[3], k32)
        return {'ret': 0, 'block': b''.join(x.get() for x in w)}
    return impl
for _nm, _f in (('beltBlockEncr2', R.block_encr), ('beltBlockDecr2', R.block_decr), ('beltBlockEncr3', R.block_encr), ('beltBlockDecr3', R.block_decr)):
    reg(Composite('belt.' + _nm[4:5].lower() + _nm[5:], _impl_block23(_nm), (lambda f: lambda c: {'ret': 0, 'block': f(c['key'], c['block'])})(_f), group='belt'))

# seam: length-block carries of belt-hash / DWP / CHE (the only way to see them without feeding 2^29 octets into one state);
# internal non-static helpers of belt_lcl.c -- if a refactoring removes the symbol the sub-check reports 'skipped', never a failure
def _impl_addbits(name, nbytes):
    def impl(lib, c, A, fill):
        if not lib.has(name):
            return {'ret': 0, 'skipped': 1}
        b = A.buf(c['block'])
        lib.call(name, b, c['count'])
        return {'ret': 0, 'block': b.get()}
    return impl
def _addbits_ref(nbytes):
    def ref(c):
        x = (int.from_bytes(c['block'], 'little') + 8 * c['count']) % (1 << (8 * nbytes))
        return {'ret': 0, 'block': x.to_bytes(nbytes, 'little')}
    return ref
reg(Composite('belt.addBitSizeU32', _impl_addbits('beltBlockAddBitSizeU32', 16), _addbits_ref(16), group='belt'))
reg(Composite('belt.addBitSizeW', _impl_addbits('beltHalfBlockAddBitSizeW', 8), _addbits_ref(8), group='belt'))

def _impl_compr(lib, c, A, fill):
    h = A.buf(c['h']); x = A.buf(c['x']); s = A.buf(c.get('s', bytes(16)))
    stack = A.buf(lib.sz('beltCompr_deep'), fill)
    lib.call('beltCompr2', s, h, x, stack)
    return {'ret': 0, 's': s.get(), 'h': h.get()}
def _compr_ref(c):
    # sigma1/sigma2 of X || h  (u32 words are little-endian octets on this platform)
    s, y = R.compr(c['x'] + c['h'])
    s = bytes(a ^ b for a, b in zip(s, c.get('s', bytes(16))))   # S is added to the caller's s
    return {'ret': 0, 's': s, 'h': y}
reg(Composite('belt.compr2', _impl_compr, _compr_ref, group='belt'))

def _impl_tagged(pre, keyed, G2):
    """Start/StepA|StepH/StepG2 + StepV2 with truncated tags"""
    def impl(lib, c, A, fill):
        st = A.buf(lib.sz(pre + '_keep'), fill)
        if keyed:
            lib.call(pre + 'Start', st, A.buf(c['key']), len(c['key']))
        else:
            lib.call(pre + 'Start', st)
        lib.call(pre + ('StepA' if keyed else 'StepH'), A.buf(c['src']), len(c['src']), st)
        t = A.buf(c['tlen'], fill)
        lib.call(pre + 'StepG2', t, c['tlen'], st)
        tag = t.get()
        ok = lib.boolean(pre + 'StepV2', A.buf(tag), c['tlen'], st)
        bad = None
        if c['tlen']:
            w = bytearray(tag); w[c['tlen'] - 1] ^= 0x80
            bad = lib.boolean(pre + 'StepV2', A.buf(bytes(w)), c['tlen'], st)
        return {'ret': 0, 'tag': tag, 'v_ok': ok, 'v_bad': bad}
    return impl
def _tag_ref(f):
    def ref(c):
        full = f(c)
        return {'ret': 0, 'tag': full[:c['tlen']], 'v_ok': 1, 'v_bad': (0 if c['tlen'] else None)}
    return ref
reg(Composite('belt.macG2', _impl_tagged('beltMAC', True, True), _tag_ref(lambda c: R.mac(c['key'], c['src'])), group='belt'))
reg(Composite('belt.hashG2', _impl_tagged('beltHash', False, True), _tag_ref(lambda c: R.hash(c['src'])), group='belt'))
reg(Composite('belt.hmacG2', _impl_tagged('beltHMAC', True, True), _tag_ref(lambda c: R.hmac(c['key'], c['src'])), group='belt'))

def _impl_fmtkeep(lib, c, A, fill):
    return {'ret': 0, 'keep': lib.sz('beltFMT_keep', c['mod'], c['count'])}
reg(Composite('belt.fmtKeep', _impl_fmtkeep, None, group='belt'))

# ------------------------------------------------------------------ case generation
KEYS = {16: bytes(range(0x10, 0x20)), 24: bytes(range(0x40, 0x58)), 32: bytes.fromhex(
    'E9DEE72C8F0C0FA62DDB49F46F73964706075316ED247A3739CBA38303A98BF6')}

def keyset(tier):
    ks = [KEYS[32], KEYS[16], KEYS[24], bytes(32), b'\xff' * 32]
    if tier == 'thorough':
        ks += [vf.filler('k32', 32), vf.filler('k16', 16), vf.filler('k24', 24), b'\xff' * 16, bytes(24)]
    return ks

def data(n, kind=0):
    if kind == 0:
        return bytes((7 * i + 3) & 0xFF for i in range(n))
    if kind == 1:
        return bytes(n)
    if kind == 2:
        return b'\xff' * n
    return vf.filler('d%d' % kind, n)

def lengths(lo, hi, tier, blk=16):
    """all lengths in quick around every block boundary (+-1) and every third one; thorough: all"""
    if tier == 'thorough':
        return list(range(lo, hi + 1))
    s = set()
    for n in range(lo, hi + 1):
        if n % blk in (0, 1, blk - 1) or n % 3 == 0 or n in (lo, hi):
            s.add(n)
    return sorted(s)

def ctr_ivs(key):
    """IVs such that the CTR counter (= E_K(iv)) carries out of each word and wraps 2^128 inside 3 blocks"""
    ivs = []
    for c in ((1 << 32) - 2, (1 << 64) - 2, (1 << 96) - 2, (1 << 128) - 2, (1 << 128) - 1):
        ivs.append(R.block_decr(key, c.to_bytes(16, 'little')))
    return ivs

IV0 = bytes.fromhex('BE32971343FC9A48A02A885F194B09A1')

def gen_cases(tier):
    """list of (function name, case) for C01; also the corpus replayed by C07 / C19"""
    out = []
    ks = keyset(tier)
    ivs = [IV0, bytes(16), b'\xff' * 16]
    kinds = [0, 2] if tier == 'quick' else [0, 1, 2, 3]
    # block: every single-octet block value class + single bits, per key
    for key in ks:
        blocks = [bytes(16), b'\xff' * 16, data(16)] + [bytes([0] * i + [v] + [0] * (15 - i)) for i in range(16) for v in ((0x01, 0x80, 0xFF) if tier == 'quick' else range(1, 256))]
        for b in blocks:
            out.append(('belt.blockEncr', dict(key=key, block=b)))
            out.append(('belt.blockDecr', dict(key=key, block=b)))
        out.append(('belt.keyExpand', dict(key=key)))
        for b in blocks[:3] + blocks[3::7]:
            for nm in ('belt.blockEncr2', 'belt.blockDecr2', 'belt.blockEncr3', 'belt.blockDecr3'):
                out.append((nm, dict(key=key, block=b)))
    for key in ks[:3] if tier == 'quick' else ks:
        for kd in kinds:
            for n in lengths(16, 80, tier):
                for f in ('beltECBEncr', 'beltECBDecr'):
                    out.append((f, dict(src=data(n, kd), key=key)))
                for iv in ivs[:1] if kd else ivs:
                    for f in ('beltCBCEncr', 'beltCBCDecr'):
                        out.append((f, dict(src=data(n, kd), key=key, iv=iv)))
            for n in lengths(0, 66, tier):
                for iv in ivs[:1] if kd else ivs:
                    for f in ('beltCFBEncr', 'beltCFBDecr', 'beltCTR'):
                        out.append((f, dict(src=data(n, kd), key=key, iv=iv)))
                out.append(('beltMAC', dict(src=data(n, kd), key=key)))
            for n in lengths(32, 208, tier):
                for f in ('belt.wblE', 'belt.wblD'):
                    out.append((f, dict(buf=data(n, kd), key=key)))
                out.append(('belt.wblD2', dict(buf=data(n, kd), key=key)))
                if n % 16 in (0, 1, 15) and kd == kinds[0]:
                    for ops in (['R'], ['R', 'R'], ['R', 'R', 'R'], ['E', 'R'], ['R', 'E', 'R']):
                        out.append(('belt.wblR', dict(buf=data(n, kd), key=key, ops=ops)))
            for n in range(16, 97, 16):
                for f in ('beltBDEEncr', 'beltBDEDecr'):
                    out.append((f, dict(src=data(n, kd), key=key, iv=ivs[0])))
            for n in range(32, 209, 16):
                for f in ('beltSDEEncr', 'beltSDEDecr'):
                    out.append((f, dict(src=data(n, kd), key=key, iv=ivs[0])))
            for n in lengths(16, 96, tier):
                for hdr in (None, bytes(range(16))):
                    out.append(('beltKWPWrap', dict(src=data(n, kd), header=hdr, key=key)))
                    y = R.kwp_wrap(key, data(n, kd), hdr)
                    out.append(('beltKWPUnwrap', dict(src=y, header=hdr, key=key)))
        # counter carries of CTR
        for iv in ctr_ivs(key):
            out.append(('beltCTR', dict(src=data(50), key=key, iv=iv)))
    # AEAD: all (|I|,|X|) pairs
    key = ks[0]
    rng = lengths(0, 49, tier)
    for pre in ('beltDWP', 'beltCHE'):
        for n1 in rng:
            for n2 in rng if tier == 'thorough' else [0, 1, 15, 16, 17, 33]:
                c = dict(src1=data(n1), src2=data(n2, 3), key=key, iv=IV0)
                out.append((pre + 'Wrap', c))
                w = (R.dwp_wrap if pre == 'beltDWP' else R.che_wrap)(key, IV0, c['src1'], c['src2'])
                out.append((pre + 'Unwrap', dict(src1=w[0], src2=c['src2'], mac=w[1], key=key, iv=IV0)))
        for k2 in ks[1:3]:
            for (n1, n2) in ((0, 0), (16, 16), (33, 7)):
                out.append((pre + 'Wrap', dict(src1=data(n1), src2=data(n2, 3), key=k2, iv=ivs[1])))
    # hash / hmac / tagged truncations
    for n in lengths(0, 130, tier, 32):
        out.append(('beltHash', dict(src=data(n))))
        out.append(('beltHash', dict(src=data(n, 2))))
    for kl in (list(range(0, 71)) if tier == 'thorough' else [0, 1, 15, 16, 31, 32, 33, 63, 64, 65, 70]):
        for n in (0, 1, 31, 32, 33, 64, 65):
            out.append(('beltHMAC', dict(src=data(n), key=data(kl, 3))))
    for tl in range(0, 9):
        out.append(('belt.macG2', dict(src=data(21), key=key, tlen=tl)))
    for tl in range(0, 33):
        out.append(('belt.hashG2', dict(src=data(45), tlen=tl)))
        out.append(('belt.hmacG2', dict(src=data(45), key=data(40, 3), tlen=tl)))
    # length-block carries: every word boundary of the counter x every boundary of 8 * count
    cnts = sorted(set(v for e in (0, 13, 29, 32, 45, 61, 64) for v in ((1 << e) - 1, 1 << e, (1 << e) + 1, (1 << e) | 0x1FFFFFFF) if 0 <= v < 1 << 64) | {1, 2, 16, (1 << 64) - 1, 0x1234567890ABCDEF})
    for nb, nm in ((16, 'belt.addBitSizeU32'), (8, 'belt.addBitSizeW')):
        blks = [bytes(nb), b'\xff' * nb, data(nb)] + [((1 << (8 * k)) - 8).to_bytes(nb, 'little') for k in range(4, nb + 1, 4)] + \
               [((1 << (8 * nb)) - (1 << (8 * k))).to_bytes(nb, 'little') for k in range(4, nb, 4)] + [(0xFFFFFFF8 << (8 * k)).to_bytes(nb, 'little') for k in range(0, nb - 3, 4)]
        for b in blks:
            for cn in cnts:
                out.append((nm, dict(block=b, count=cn)))
    # compress
    for kd in (0, 1, 2, 3):
        out.append(('belt.compr2', dict(h=data(32, kd), x=data(32, (kd + 1) % 4), s=data(16, (kd + 2) % 4))))
    # KRP: all admissible (n, m)
    for n in (16, 24, 32):
        for m in (16, 24, 32):
            if m <= n:
                for lvl in (bytes(12), b'\xff' * 12, bytes.fromhex('010000000000000000000000')):
                    for hdr in (bytes(16), bytes(range(16))):
                        out.append(('beltKRP', dict(m=m, src=KEYS[n], level=lvl, header=hdr)))
    # PBKDF2
    for it in ((1, 2, 3, 1000) if tier == 'thorough' else (1, 2, 3, 50)):
        for pl in (0, 1, 31, 32, 33, 65):
            for sl in ((0, 1, 31, 32, 33, 65) if it < 50 else (8,)):
                out.append(('beltPBKDF2', dict(pwd=data(pl, 3), iter=it, salt=data(sl))))
    # FMT encrypt/decrypt: block-count classes b=1 (belt-block), b=2 (belt-32block), b>=3 (wide block)
    mods = [2, 3, 10, 255, 256, 257, 9999, 49667, 65535, 65536]
    counts = [2, 3, 4, 5, 7, 8, 9, 12, 13, 19, 20, 21, 38, 39, 40] + ([319, 320, 599, 600] if tier == 'thorough' else [320, 600])
    for mod in mods if tier == 'thorough' else [2, 10, 256, 257, 49667, 65536]:
        for cnt in counts:
            if tier == 'quick' and cnt > 40 and mod not in (10, 49667, 65536):
                continue
            src = [(i * 7919 + 1) % mod for i in range(cnt)]
            for iv in (None, IV0):
                out.append(('beltFMTEncr', dict(mod=mod, src=src, key=key, iv=iv)))
                out.append(('beltFMTDecr', dict(mod=mod, src=src, key=key, iv=iv)))
            out.append(('beltFMTEncr', dict(mod=mod, src=[mod - 1] * cnt, key=ks[1], iv=None)))
            out.append(('beltFMTEncr', dict(mod=mod, src=[0] * cnt, key=ks[2], iv=None)))
    return out
