"""C02 -- bign (STB 34.101.45): signatures, key pairs, DH, key transport and IBS are sound and complete.
E1 shape explorer on the real object code; oracle = ref/bign.py over ref/ecp.py (spec-level, vector-gated) plus relations:
  * sign / sign2 / idsign / idsign2: output = reference value AND the library's own verifier accepts it under the
    reference public key d G (resp. the reference identity keys);
  * bignKeypairGen: pair = reference pair (rejection sampling on the tape, octets consumed) AND it passes bignKeypairVal /
    bignPubkeyVal / bignPubkeyCalc;
  * DH(dA, QB) = DH(dB, QA) = reference; unwrap(wrap(k)) = k with the reference token;
  * bignVerify / bignKeyUnwrap / bignIdExtract / bignIdVerify: every single-bit flip of every input and the boundary
    substitutions (s1 -> q, s1 + q, x/y -> p, p + x, off-curve, twist, (0,0), ...) are accepted IFF the reference equations accept.
Alphabets (private keys, hashes, OIDs, tapes, t, key lengths) are enumerated as cross products; engineered tuples (d, k, H)
put the intermediate k - (s0 + 2^l) d mod q on the boundaries of the reduction of a hash value H >= q."""
import re, time
import vf, cat, cat_belt, common
import cat_bign as B
import bign as R

PROP = 'C02'
CFG = 'rel'
LEVELS = B.LEVELS
E = B.E

def ename(r):
    return 'ERR_' + B.ENAME[r] if r in B.ENAME else '%#x' % r

# ------------------------------------------------------------------------------------------ items
def item(kind, fn, case, cls, x=None, cfg=CFG):
    return {'kind': kind, 'fn': fn, 'case': case, 'cls': cls, 'x': x or {}, 'cfg': cfg}

def enc_item(it):
    return dict(it, case=cat.enc_case(it['case']), x=cat.enc_case(it['x']))

def dec_item(it):
    return dict(it, case=cat.dec_case(it['case']), x=cat.dec_case(it['x']))

def call(cfg, fname, case):
    return common.run_fn(common.lib(cfg), fname, case)

def hx(b):
    if b is None:
        return 'NULL'
    b = bytes(b)
    if len(b) <= 160:
        return b.hex()
    return '%s...%s (%d octets; complete in the replay record)' % (b[:64].hex(), b[-64:].hex(), len(b))

def describe(it):
    """the exact input, for the violation message"""
    c = it['case']
    l = B.level_of(c) if 'params' in c else None
    parts = ['l=%s' % l]
    for k, v in c.items():
        if k == 'params':
            continue
        parts.append('%s=%s' % (k, hx(v) if isinstance(v, (bytes, bytearray)) or v is None else v))
    if it['kind'] == 'dh':
        parts += ['%s=%s' % (k, hx(v) if isinstance(v, (bytes, bytearray)) else v) for k, v in it['x'].items()]
    return ' '.join(parts)

# ------------------------------------------------------------------------------------------ oracles
def ref_verdict(fname, case):
    """-> (class name, expected outputs on acceptance) by the reference equations"""
    l = B.level_of(case)
    try:
        if fname == 'bignVerify':
            return R.verify_ex(l, case['oid_der'], case['hash'], case['sig'], case['pubkey']), {}
        if fname == 'bignIdVerify':
            return R.id_verify_ex(l, case['oid_der'], case['id_hash'], case['hash'], case['id_sig'], case['id_pubkey'], case['pubkey']), {}
        if fname == 'bignIdExtract':
            if not R.oid_der_is_valid(case['oid_der']):
                return 'BAD_OID', {}
            r = R.id_extract(l, case['oid_der'], case['id_hash'], case['sig'], case['pubkey'])
            if r is None:
                return 'BAD_SIG', {}
            return 'OK', {'id_privkey': B.enc(l, r[0]), 'id_pubkey': B.encp(l, r[1])}
        if fname == 'bignKeyUnwrap':
            k = R.key_unwrap(l, case['token'], case.get('header'), case['privkey'])
            return ('BAD_KEYTOKEN', {}) if k is None else ('OK', {'key': k})
    except R.BignError as e:
        return e.code, {}
    raise ValueError(fname)

def post_relations(it, res):
    """relations the property states on top of the reference value; -> list of messages"""
    fn, c, x, cfg = it['fn'], it['case'], it['x'], it['cfg']
    if res.get('ret') != 0 or 'params' not in c:
        return []
    l = B.level_of(c)
    PB = c['params']
    out = []
    if fn == 'bignKeypairGen':
        r = call(cfg, 'bignKeypairVal', dict(params=PB, privkey=res['privkey'], pubkey=res['pubkey']))['ret']
        if r:
            out.append('the returned pair (privkey=%s) fails bignKeypairVal: %s' % (res['privkey'].hex(), ename(r)))
        r = call(cfg, 'bignPubkeyVal', dict(params=PB, pubkey=res['pubkey']))['ret']
        if r:
            out.append('the returned public key fails bignPubkeyVal: %s' % ename(r))
        r = call(cfg, 'bignPubkeyCalc', dict(params=PB, privkey=res['privkey']))
        if r['ret'] == 0 and r['pubkey'] != res['pubkey']:
            out.append('bignPubkeyCalc(returned privkey) differs from the returned pubkey')
    elif fn == 'bignPubkeyCalc':
        r = call(cfg, 'bignKeypairVal', dict(params=PB, privkey=c['privkey'], pubkey=res['pubkey']))['ret']
        if r:
            out.append('(privkey, computed pubkey) fails bignKeypairVal: %s' % ename(r))
    elif fn in ('bignSign', 'bignSign2'):
        Q = x.get('pubkey') or B.pub(l, B.dec(c['privkey']))
        r = call(cfg, 'bignVerify', B.c_verify(l, c['oid_der'], c['hash'], res['sig'], Q))['ret']
        if r:
            out.append('the produced signature %s does not verify under the matching public key: bignVerify = %s' % (res['sig'].hex(), ename(r)))
    elif fn in ('bignIdSign', 'bignIdSign2'):
        if x.get('id_pubkey'):
            r = call(cfg, 'bignIdVerify', B.c_idverify(l, c['oid_der'], c['id_hash'], c['hash'], res['id_sig'], x['id_pubkey'], x['pubkey']))['ret']
            if r:
                out.append('the produced identity signature %s does not verify: bignIdVerify = %s' % (res['id_sig'].hex(), ename(r)))
    elif fn == 'bignKeyWrap':
        d = x['privkey']
        for hdr in ((c.get('header'),) if c.get('header') is not None else (None, bytes(16))):
            r = call(cfg, 'bignKeyUnwrap', dict(params=PB, token=res['token'], header=hdr, privkey=d))
            if r['ret'] or r['key'] != c['key']:
                out.append('unwrap(wrap(key)) != key: bignKeyUnwrap = %s key=%s' % (ename(r['ret']), r['key'].hex()))
    return out

def check_item(it):
    """-> (message or None, outcome label)"""
    fn, c, kind, cfg = it['fn'], it['case'], it['kind'], it['cfg']
    F = cat.CAT[fn]
    if kind == 'ref':
        res = call(cfg, fn, c)
        exp = F.ref(c)
        msgs = []
        m = cat.compare(res, exp)
        if m:
            if exp and isinstance(exp.get('ret'), int):
                m = m.replace('expected %#x' % exp['ret'], 'expected %s' % ename(exp['ret'])).replace('returned %#x' % res['ret'], 'returned %s' % ename(res['ret']))
            msgs.append(m)
        msgs += post_relations(it, res)
        return ('; '.join(msgs) or None), '%s %s' % (fn, ename(res['ret']))
    if kind == 'dh':
        l = B.level_of(c); x = it['x']
        a = call(cfg, 'bignDH', dict(params=c['params'], privkey=x['dA'], pubkey=x['QB'], key_len=x['n']))
        b = call(cfg, 'bignDH', dict(params=c['params'], privkey=x['dB'], pubkey=x['QA'], key_len=x['n']))
        want = R.dh(l, x['dA'], x['QB'], x['n'])
        msgs = []
        if a['ret'] or b['ret']:
            msgs.append('bignDH returned %s / %s' % (ename(a['ret']), ename(b['ret'])))
        else:
            if a['key'] != b['key']:
                msgs.append('DH(dA, QB) = %s but DH(dB, QA) = %s' % (a['key'].hex(), b['key'].hex()))
            if a['key'] != want:
                msgs.append('DH(dA, QB) = %s, reference %s' % (a['key'].hex(), want.hex()))
        return ('; '.join(msgs) or None), 'bignDH pair %s' % ename(a['ret'])
    if kind == 'mut':
        res = call(cfg, fn, c)
        cls, outs = ref_verdict(fn, c)
        acc_i, acc_r = res['ret'] == 0, cls == 'OK'
        label = '%s impl=%s ref=%s' % (fn, ename(res['ret']), cls)
        if acc_i != acc_r:
            return ('%s %s the input (%s) but the reference equations %s it (%s)' % (fn, 'ACCEPTS' if acc_i else 'rejects', ename(res['ret']),
                                                                                     'accept' if acc_r else 'reject', cls)), label
        if acc_i:
            m = cat.compare(res, dict(outs, ret=0))
            if m:
                return m, label
        return None, label
    if kind == 'obs':
        res = call(cfg, fn, c)
        return None, 'observation %s %s -> %s' % (fn, it['cls'], ename(res['ret']))
    raise ValueError(kind)

# ------------------------------------------------------------------------------------------ spaces
def rot(seq, i):
    return seq[i % len(seq)]

def sp_params(tier):
    out = []
    for nm in list(B.STD_NAME.values()) + ['1.2.112.0.2.0.34.101.45.3.4', '1.2.112.0.2.0.34.101.45.3.0', '']:
        out.append(item('ref', 'bignParamsStd', dict(name=nm), 'name'))
    for l in LEVELS:
        out.append(item('ref', 'bignParamsVal', dict(params=B.params_bytes(l)), 'standard'))
    for n, pb in B.bad_params():
        out.append(item('ref', 'bignParamsVal', dict(params=pb), 'invalid ' + n))
    for s in B.OID_STRINGS_OK + B.OID_STRINGS_BAD:
        out.append(item('ref', 'bign.oidToDER', dict(oid=s), 'oid'))
    return out

def sp_keys(tier):
    out = []
    for l in LEVELS:
        PB = B.params_bytes(l); q = B.q_of(l); no = l // 4; top = (1 << (2 * l)) - 1
        ds = B.d_alphabet(l)
        for sn, f, bad in B.tape_shapes(l):
            for dn, d in (ds[:1] if bad else ds):
                out.append(item('ref', 'bignKeypairGen', dict(params=PB, rng=f(d)), 'tape [%s]' % sn))
        for dn, d in ds:
            out.append(item('ref', 'bignPubkeyCalc', dict(params=PB, privkey=B.enc(l, d)), 'valid'))
            out.append(item('ref', 'bignKeypairVal', dict(params=PB, privkey=B.enc(l, d), pubkey=B.pub(l, d)), 'valid'))
            out.append(item('ref', 'bignPubkeyVal', dict(params=PB, pubkey=B.pub(l, d)), 'valid'))
            for n, Qm in B.point_subs(l, B.pub(l, d)):
                out.append(item('ref', 'bignKeypairVal', dict(params=PB, privkey=B.enc(l, d), pubkey=Qm), 'pubkey ' + n))
                out.append(item('ref', 'bignPubkeyVal', dict(params=PB, pubkey=Qm), 'pubkey ' + n))
        for v in (0, q, q + 1, top):
            out.append(item('ref', 'bignPubkeyCalc', dict(params=PB, privkey=B.enc(l, v)), 'privkey out of range'))
            out.append(item('ref', 'bignKeypairVal', dict(params=PB, privkey=B.enc(l, v), pubkey=B.pub(l, 1)), 'privkey out of range'))
    return out

def sp_dh(tier):
    out = []
    for l in LEVELS:
        PB = B.params_bytes(l); no = l // 4; q = B.q_of(l)
        ds = B.d_alphabet(l)
        lens = [0, 1, no - 1, no, no + 1, 2 * no] if (tier == 'thorough' or l == 128) else [no, 2 * no]
        for i, (an, da) in enumerate(ds):
            for j, (bn, db) in enumerate(ds):
                if i <= j:
                    for n in lens:
                        out.append(item('dh', 'bignDH', dict(params=PB), 'symmetric', dict(dA=B.enc(l, da), dB=B.enc(l, db), QA=B.pub(l, da), QB=B.pub(l, db), n=n)))
        d, Qf = ds[4][1], B.pub(l, ds[5][1])
        out.append(item('ref', 'bignDH', dict(params=PB, privkey=B.enc(l, d), pubkey=Qf, key_len=2 * no + 1), 'key_len'))
        for v in (0, q, q + 1):
            out.append(item('ref', 'bignDH', dict(params=PB, privkey=B.enc(l, v), pubkey=Qf, key_len=no), 'privkey out of range'))
        for n, Qm in B.point_subs(l, Qf) + B.point_subs(l, B.pub(l, 1)):
            out.append(item('ref', 'bignDH', dict(params=PB, privkey=B.enc(l, d), pubkey=Qm, key_len=2 * no), 'pubkey ' + n))
    return out

def hcls(l, H):
    return 'H>=q' if B.dec(H) >= B.q_of(l) else 'H<q'

def sp_sign(tier):
    """bignSign / bignSign2 over d x H x OID x tapes / t"""
    out = []
    full = tier == 'thorough'
    for l in LEVELS:
        ds = B.d_alphabet(l); hs = B.h_alphabet(l); tm = B.tape_menu(l); q = B.q_of(l)
        oids = B.oid_alphabet(long_form=full)
        # thorough: the 4-way cross product; quick: l = 128 gets the two 3-way products (d x H x OID, d x H x tape / t) with the
        # remaining dimension rotating, the other levels d x H x tape / t with a rotating OID
        ok = [t for t in tm if not t[2]]
        for i, (dn, d) in enumerate(ds):
            Q = B.pub(l, d)
            for j, (hn, H) in enumerate(hs):
                for o, (on, oid) in enumerate(oids):
                    for t, (tn, tape, bad) in enumerate(ok):
                        if full or o == (i + j + t) % len(oids) or (l == 128 and t == (i + j + o) % len(ok)):
                            out.append(item('ref', 'bignSign', B.c_sign(l, oid, H, d, tape), '%s tape[%s]' % (hcls(l, H), tn.split('(')[0]), dict(pubkey=Q)))
                    for t, (tn, tv) in enumerate(B.T_ALPHABET):
                        if full or o == (i + j + t) % len(oids) or (l == 128 and t == (i + j + o) % 4):
                            out.append(item('ref', 'bignSign2', B.c_sign2(l, oid, H, d, tv), '%s t=%s' % (hcls(l, H), tn), dict(pubkey=Q)))
        for o, (on, oid) in enumerate(oids):
            for tn, tape, bad in tm:
                if bad:
                    out.append(item('ref', 'bignSign', B.c_sign(l, oid, hs[6][1], ds[4][1], tape), 'tape[%s]' % tn))
        # a DER code whose last sub-identifier is not terminated: outside the property statement (invalid identifier), observation only
        bad_oid = B.OID_BELT[:-1] + bytes([B.OID_BELT[-1] | 0x80])
        out.append(item('obs', 'bignSign', B.c_sign(l, bad_oid, hs[6][1], ds[4][1], tm[0][1]), 'OID with unterminated last sub-identifier'))
        for v in (0, q, q + 1, (1 << (2 * l)) - 1):
            out.append(item('ref', 'bignSign', B.c_sign(l, B.OID_BELT, hs[6][1], v, tm[0][1]), 'privkey out of range'))
            out.append(item('ref', 'bignSign2', B.c_sign2(l, B.OID_BELT, hs[6][1], v, None), 'privkey out of range'))
    return out

def sp_engineered(tier):
    """(d, k, H), H >= q, with a = k - (s0 + 2^l) d mod q in {0, 1, H-q-1, H-q, H-q+1, q-1}; the same for the identity key e"""
    out = []
    full = tier == 'thorough'
    for l in LEVELS:
        ks = B.k_alphabet(l); oids = B.oid_alphabet(); h0s = B.h0_alphabet(l)
        for i, (hn, H) in enumerate(B.big_hashes(l)):
            for j, (kn, k) in enumerate(ks if (full or l == 128) else ks[:3]):
                oid = rot(oids, i + j)[1]
                for an, a in B.boundary_a(l, H):
                    d = B.eng_sign_d(l, oid, H, k, a)
                    if d:
                        out.append(item('ref', 'bignSign', B.c_sign(l, oid, H, d, B.enc(l, k)), 'H>=q engineered k-(s0+2^l)d = ' + an))
                    H0 = rot(h0s, i + j)[1]
                    e = B.eng_idsign_e(l, oid, H0, H, k, a)
                    out.append(item('ref', 'bignIdSign', B.c_idsign(l, oid, H0, H, e, B.enc(l, k)), 'H>=q engineered k-(s0+2^l)e = ' + an, dict(need_tp=1)))
    # the INTEGER product (s0 + 2^l) d before its reduction: private keys d = T div (s0 + 2^l) for targets T whose words above the low
    # l + 1 bits are all ones (up to 3l bits, and up to one 64- / 32-bit word beyond 2l bits), with hashes whose addition carries out of
    # the low 2l bits: every carry that must ripple through all-ones words of the intermediate (s0 does not depend on d)
    for l in LEVELS:
        q = B.q_of(l); ks = B.k_alphabet(l); oid = B.OID_BELT
        for hn, H in [('ones', B.enc(l, 2 ** (2 * l) - 1)), ('top bit', B.enc(l, 2 ** (2 * l - 1))), ('q-1', B.enc(l, q - 1))]:
            for kn, k in ks[:2 if (full or l == 128) else 1]:
                s0 = B.dec(B.R._s0(l, oid, B.mulG(l, k), bytes(H)))
                for tn, T in (('2^3l-1', 2 ** (3 * l) - 1), ('2^3l-2^(l+2)', 2 ** (3 * l) - 2 ** (l + 2)), ('2^(2l+64)-1', 2 ** (2 * l + 64) - 1),
                              ('2^(2l+32)-1', 2 ** (2 * l + 32) - 1), ('2^(2l+65)-1', 2 ** (2 * l + 65) - 1), ('2^(2l+128)-1', 2 ** (2 * l + 128) - 1)):
                    d = T // (s0 + 2 ** l)
                    if 0 < d < q:
                        out.append(item('ref', 'bignSign', B.c_sign(l, oid, H, d, B.enc(l, k)), 'engineered (s0+2^l)d = %s - r, hash %s' % (tn, hn)))
                        out.append(item('ref', 'bignIdSign', B.c_idsign(l, oid, B.h0_alphabet(l)[0][1], H, d, B.enc(l, k)), 'engineered (s0+2^l)e = %s - r, hash %s' % (tn, hn), dict(need_tp=1)))
                # a PARTIAL REMAINDER of the long division of (s0 + 2^l) d by q with an all-ones leading word: floor((s0 + 2^l) d / B^j) mod q in
                # [2^2l - 2^(2l - 64), q) -- quotient-digit estimate and borrow both B - 1, the boundary of the corrective addition of zzMod
                # (probability 2^-64 per step for a filler key); B = 2^64 and 2^32 (both word sizes)
                for wb in (64, 32):
                    for j in (1, 2):
                        if wb * j >= l + wb:
                            continue
                        km = s0 + 2 ** l; Bj = 1 << (wb * j)
                        delta = 2 ** (2 * l - wb) - (2 ** (2 * l) - q)
                        s1 = max(1, km // (2 * Bj)) - 1
                        d = -(-(Bj * (s1 * q + q - delta // 2)) // km)
                        if 0 < d < q and q - delta <= (km * d // Bj) % q < q:
                            out.append(item('ref', 'bignSign', B.c_sign(l, oid, H, d, B.enc(l, k)), 'engineered partial remainder of (s0+2^l)d / q with all-ones leading %d-bit word at position %d, hash %s' % (wb, j, hn)))
                            out.append(item('ref', 'bignIdSign', B.c_idsign(l, oid, B.h0_alphabet(l)[0][1], H, d, B.enc(l, k)), 'engineered partial remainder of (s0+2^l)e / q with all-ones leading %d-bit word at position %d, hash %s' % (wb, j, hn), dict(need_tp=1)))
    return out

def sp_idsign(tier):
    out = []
    full = tier == 'thorough'
    for l in LEVELS:
        es = B.e_alphabet(l); hs = B.h_alphabet(l); h0s = B.h0_alphabet(l); tm = [t for t in B.tape_menu(l)]
        oids = B.oid_alphabet(long_form=full)
        cross = full or l == 128
        for i, (en, e) in enumerate(es):
            for j, (hn, H) in enumerate(hs):
                for m, (h0n, H0) in enumerate(h0s):
                    for o, (on, oid) in enumerate(oids):
                        if full or o == (i + j + m) % len(oids):
                            tp = rot(tm, i + 2 * j + 3 * m + o)
                            out.append(item('ref', 'bignIdSign', B.c_idsign(l, oid, H0, H, e, tp[1]), '%s tape[%s]' % (hcls(l, H), tp[0].split('(')[0]), dict(need_tp=1)))
                    if full or m == (i + j) % len(h0s):
                        oid = rot(oids, i + j + m)[1]
                        for t, (tn, tv) in enumerate(B.T_ALPHABET):
                            out.append(item('ref', 'bignIdSign2', B.c_idsign2(l, oid, H0, H, e, tv), '%s t=%s' % (hcls(l, H), tn), dict(need_tp=1)))
                if cross:
                    for t, tp in enumerate(tm):
                        H0 = rot(h0s, i + j + t)[1]; oid = rot(oids, i + j + t)[1]
                        out.append(item('ref', 'bignIdSign', B.c_idsign(l, oid, H0, H, e, tp[1]), '%s tape[%s]' % (hcls(l, H), tp[0].split('(')[0]), dict(need_tp=1)))
        if not cross:
            for t, tp in enumerate(tm):
                out.append(item('ref', 'bignIdSign', B.c_idsign(l, B.OID_BELT, h0s[0][1], rot(hs, t)[1], rot(es, t)[1], tp[1]), 'tape[%s]' % tp[0].split('(')[0], dict(need_tp=1)))
        q = B.q_of(l)
        for v in (q, q + 1, (1 << (2 * l)) - 1):
            out.append(item('ref', 'bignIdSign', B.c_idsign(l, B.OID_BELT, h0s[0][1], hs[6][1], v, tm[0][1]), 'privkey out of range'))
            out.append(item('ref', 'bignIdSign2', B.c_idsign2(l, B.OID_BELT, h0s[0][1], hs[6][1], v, None), 'privkey out of range'))
    return out

def sp_keytransport(tier):
    out = []
    full = tier == 'thorough'
    hdrv = B.appendix()['header']
    for l in LEVELS:
        ds = B.d_alphabet(l); tm = B.tape_menu(l); ok = [t for t in tm if not t[2]]
        klens = list(range(16, 49)) if (full or l == 128) else [16, 17, 31, 32, 33, 47, 48]
        for i, n in enumerate(klens):
            for h, hdr in enumerate((None, hdrv)):
                for t, tp in enumerate(ok):
                    if full or t == (i + h) % len(ok):
                        dn, d = rot(ds, i + t)
                        out.append(item('ref', 'bignKeyWrap', B.c_wrap(l, B.keydata(n), hdr, B.pub(l, d), tp[1]), 'len %s tape[%s]' % ('16..48', tp[0].split('(')[0]), dict(privkey=B.enc(l, d))))
        if not full:
            for t, tp in enumerate(ok):
                dn, d = rot(ds, t)
                out.append(item('ref', 'bignKeyWrap', B.c_wrap(l, B.keydata(16 + t), rot((None, hdrv), t), B.pub(l, d), tp[1]), 'tape[%s]' % tp[0].split('(')[0], dict(privkey=B.enc(l, d))))
        for tp in tm:
            if tp[2]:
                out.append(item('ref', 'bignKeyWrap', B.c_wrap(l, B.keydata(32), hdrv, B.pub(l, ds[4][1]), tp[1]), 'tape[%s]' % tp[0]))
        # an off-curve recipient key: outside the property statement, recorded as an observation only
        Qm = dict(B.point_subs(l, B.pub(l, ds[4][1])))['y:=y+1']
        out.append(item('obs', 'bignKeyWrap', B.c_wrap(l, B.keydata(32), hdrv, Qm, ok[0][1]), 'off-curve recipient key'))
    return out

def mutants(l, fn, base, fields, every_bit, subs, tag):
    """base accepted; every single-bit flip (or one bit per octet) of the listed fields; substitutions = {field: [(label, value)]}"""
    out = [item('mut', fn, dict(base), '%s unaltered' % tag)]
    for f in fields:
        v = base[f]
        if v is None:
            v = bytes(16)           # a NULL header stands for 16 zero octets
        for bit, m in B.flips(v, every_bit):
            out.append(item('mut', fn, dict(base, **{f: m}), 'bit flip in %s' % f, dict(bit=bit)))
    for f, lst in subs.items():
        for n, v in lst:
            out.append(item('mut', fn, dict(base, **{f: v}), '%s %s' % (f, n)))
    return out

def oid_subs(oid):
    alt = B.oid_alphabet()[1][1] if oid == B.OID_BELT else B.OID_BELT
    body = oid[2:]
    return [('truncated', oid[:-1]), ('extended', oid + b'\x00'), ('other', alt), ('long-form length', b'\x06\x81' + bytes([len(body)]) + body),
            ('unterminated', oid[:-1] + bytes([oid[-1] | 0x80])), ('tag', b'\x07' + oid[1:])]

def hash_subs(l, H):
    q = B.q_of(l); h = B.dec(H); top = 1 << (2 * l)
    out = [('H+1', B.enc(l, (h + 1) % top)), ('H:=0', B.enc(l, 0)), ('H:=q', B.enc(l, q))]
    if h + q < top:
        out.append(('H+q', B.enc(l, h + q)))
    if h >= q:
        out.append(('H-q', B.enc(l, h - q)))
    return [(n, v) for n, v in out if v != H]

def sp_mutants(tier):
    out = []
    full = tier == 'thorough'
    hdrv = B.appendix()['header']
    for l in LEVELS:
        q = B.q_of(l); p = B.p_of(l); no = l // 4; top = 1 << (2 * l)
        ds = B.d_alphabet(l); ks = B.k_alphabet(l); hs = B.h_alphabet(l); oids = B.oid_alphabet()
        dA, dF = ds[4][1], ds[5][1]
        kA, kF = ks[0][1], ks[1][1]
        HA, HF, Hmax, H1 = hs[6][1], hs[7][1], hs[5][1], hs[1][1]
        allbits = full or l == 128
        # ---- bignVerify
        bases = [('generic', B.OID_BELT, HA, dA, kA, True), ('Q=G H=max', oids[4][1], Hmax, 1, kF, False), ('d=q-1 H=1', oids[1][1], H1, q - 1, ks[5][1], False)]
        for tn, t in (('s1=0', 0), ('s1=1', 1), ('s1=2^2l-q-1', top - q - 1)):
            a = (t + B.dec(HF)) % q
            bases.append((tn, oids[2][1], HF, B.eng_sign_d(l, oids[2][1], HF, kF, a), kF, False))
        bases.append(('s1+H=0', oids[3][1], HA, B.eng_sign_d(l, oids[3][1], HA, kA, 0), kA, False))
        for tag, oid, H, d, k, main in bases:
            sig = R.sign_k(l, oid, H, d, k)
            base = B.c_verify(l, oid, H, sig, B.pub(l, d))
            subs = {'sig': B.sig_subs(l, sig), 'pubkey': B.point_subs(l, base['pubkey']), 'oid_der': oid_subs(oid), 'hash': hash_subs(l, H)}
            # the verifier's point R = (s1 + H) G + (s0 + 2^l) Q at infinity: s1 := -(s0 + 2^l) d - H (the standard's step "R = O -> reject")
            s0i = B.dec(sig[:no // 2])
            subs['sig'] = list(subs['sig']) + [('s1 := -(s0+2^l)d - H (R = O)', sig[:no // 2] + B.enc(l, (-(s0i + 2 ** l) * d - B.dec(H)) % q))]
            fields = ('oid_der', 'hash', 'sig', 'pubkey') if (main or full) else ()
            out += mutants(l, 'bignVerify', base, fields, main and allbits, subs, tag)
        # ---- bignIdExtract (the trusted party's ordinary signature of H0)
        bases = [('generic', B.OID_BELT, HA, dF, kA, True), ('Q=G', oids[4][1], Hmax, 1, kF, False)]
        for tn, t in (('s1=0', 0), ('s1=2^2l-q-1', top - q - 1)):
            bases.append((tn, oids[1][1], HF, B.eng_sign_d(l, oids[1][1], HF, kF, (t + B.dec(HF)) % q), kF, False))
        for tag, oid, H0, d, k, main in bases:
            sig = R.sign_k(l, oid, H0, d, k)
            base = B.c_idextract(l, oid, H0, sig, B.pub(l, d))
            subs = {'sig': B.sig_subs(l, sig), 'pubkey': B.point_subs(l, base['pubkey']), 'oid_der': oid_subs(oid), 'id_hash': hash_subs(l, H0)}
            s0i = B.dec(sig[:no // 2])
            subs['sig'] = list(subs['sig']) + [('s1 := -(s0+2^l)d - H0 (R = O)', sig[:no // 2] + B.enc(l, (-(s0i + 2 ** l) * d - B.dec(H0)) % q))]
            fields = ('oid_der', 'id_hash', 'sig', 'pubkey') if (main or full) else ()
            out += mutants(l, 'bignIdExtract', base, fields, main and allbits, subs, tag)
        # ---- bignIdVerify
        es = B.e_alphabet(l)
        bases = []
        tp = B.eng_tp(l, B.OID_BELT, HA, es[0][1], kA)
        bases.append(('generic', B.OID_BELT, HA, HF, es[0][1], kF, tp, True))
        sg = R.sign_k(l, oids[4][1], Hmax, 1, 1)                      # trusted party d = 1, one-time key 1: R = Q = G
        e1 = (B.dec(sg[no // 2:]) + B.dec(Hmax)) % q
        bases.append(('R=Q=G', oids[4][1], Hmax, H1, e1, kA, dict(sig=sg, id_pubkey=B.pub(l, 1), pubkey=B.pub(l, 1)), False))
        for tn, t in (('s1=0', 0), ('s1=2^2l-q-1', top - q - 1)):
            e = B.eng_idsign_e(l, oids[2][1], HA, HF, kF, (t + B.dec(HF)) % q)
            bases.append((tn, oids[2][1], HA, HF, e, kF, B.eng_tp(l, oids[2][1], HA, e, kA), False))
        for tag, oid, H0, H, e, k, tp, main in bases:
            isig = R.id_sign_k(l, oid, H0, H, e, k)
            base = B.c_idverify(l, oid, H0, H, isig, tp['id_pubkey'], tp['pubkey'])
            subs = {'id_sig': B.sig_subs(l, isig), 'pubkey': B.point_subs(l, base['pubkey']), 'id_pubkey': B.point_subs(l, base['id_pubkey']),
                    'oid_der': oid_subs(oid), 'hash': hash_subs(l, H), 'id_hash': hash_subs(l, H0)}
            fields = ('oid_der', 'id_hash', 'hash', 'id_sig', 'id_pubkey', 'pubkey') if (main or full) else ()
            out += mutants(l, 'bignIdVerify', base, fields, main and allbits, subs, tag)
        # ---- bignKeyUnwrap
        tw = B.twist_point(l)[0]
        bases = [('generic', 32, hdrv, dA, kA, True), ('NULL header', 16, None, dF, kF, False), ('R=G d=1', 48, hdrv, 1, 1, False), ('d=q-1', 17, None, q - 1, ks[5][1], False)]
        for tag, n, hdr, d, k, main in bases:
            tok = R.key_wrap_k(l, B.keydata(n), hdr, B.pub(l, d), k)
            base = B.c_unwrap(l, tok, hdr, d)
            x = B.dec(tok[:no])
            tsub = [('x:=p', B.enc(l, p) + tok[no:]), ('x:=twist', B.enc(l, tw) + tok[no:]), ('x:=max', b'\xff' * no + tok[no:]), ('truncated by 1', tok[:-1]),
                    ('truncated to l/4+31', tok[:no + 31]), ('truncated to l/4', tok[:no]), ('extended', tok + b'\x00')]
            if x + p < top:
                tsub.append(('x:=x+p', B.enc(l, x + p) + tok[no:]))
            psub = [('d:=0', B.enc(l, 0)), ('d:=q', B.enc(l, q)), ('d:=q-d', B.enc(l, q - d)), ('d:=max', b'\xff' * no)]
            if d + q < top:
                psub.append(('d:=d+q', B.enc(l, d + q)))
            hsub = [('NULL' if hdr is not None else 'zeros', None if hdr is not None else bytes(16)), ('other', bytes(range(16)))]
            subs = {'token': tsub, 'privkey': [(a, b) for a, b in psub if b != base['privkey']], 'header': hsub}
            fields = ('token', 'header', 'privkey') if (main or full) else ('header',)
            out += mutants(l, 'bignKeyUnwrap', base, fields, main and allbits, subs, tag)
    return out

def sp_debug(tier):
    """hash values >= q under the assertion-enabled build (a fired ASSERT aborts the worker)"""
    out = []
    for l in LEVELS:
        ds = B.d_alphabet(l); ks = B.k_alphabet(l); h0 = B.h0_alphabet(l)[0][1]; es = B.e_alphabet(l)
        for i, (hn, H) in enumerate(B.big_hashes(l)):
            d = rot(ds, i)[1]; e = rot(es, i)[1]; k = rot(ks, i)[1]
            out.append(item('ref', 'bignSign', B.c_sign(l, B.OID_BELT, H, d, B.enc(l, k)), 'H>=q assertions on', cfg='dbg'))
            out.append(item('ref', 'bignSign2', B.c_sign2(l, B.OID_BELT, H, d, None), 'H>=q assertions on', cfg='dbg'))
            out.append(item('ref', 'bignIdSign', B.c_idsign(l, B.OID_BELT, h0, H, e, B.enc(l, k)), 'H>=q assertions on', cfg='dbg'))
            out.append(item('ref', 'bignIdSign2', B.c_idsign2(l, B.OID_BELT, h0, H, e, None), 'H>=q assertions on', cfg='dbg'))
    return out

# ------------------------------------------------------------------------------------------ identity keys for idsign items
def tp_job(j):
    l, oid, H0, e = j
    ks = B.k_alphabet(l)
    for kn, k in ks:
        tp = B.eng_tp(l, oid, H0, e, k)
        if tp:
            return {'id_pubkey': tp['id_pubkey'], 'pubkey': tp['pubkey']}
    return None

def attach_tp(items):
    """identity key pairs (R, Q) matching the private keys e of the idsign items, engineered with the reference"""
    jobs = {}
    for it in items:
        if it['x'].get('need_tp'):
            c = it['case']
            e = B.dec(c['id_privkey'])
            if e < B.q_of(B.level_of(c)):
                jobs[(B.level_of(c), c['oid_der'], c['id_hash'], e)] = None
    keys = list(jobs)
    res = vf.pmap(tp_job, keys, case_timeout=300)
    tab = dict(zip(keys, res))
    for it in items:
        if it['x'].get('need_tp'):
            c = it['case']
            r = tab.get((B.level_of(c), c['oid_der'], c['id_hash'], B.dec(c['id_privkey'])))
            it['x'] = dict(r) if isinstance(r, dict) and 'id_pubkey' in r else {}
    return len(keys)

# ------------------------------------------------------------------------------------------ driver
PARTS = [('parameters_oid', sp_params), ('key_pairs', sp_keys), ('dh', sp_dh), ('sign_engineered_boundaries', sp_engineered), ('sign', sp_sign),
         ('idsign', sp_idsign), ('key_transport', sp_keytransport), ('verifier_mutants', sp_mutants), ('assertion_build_H_ge_q', sp_debug)]

def run_part(chk, name, items):
    res = vf.pmap(check_item, items, case_timeout=300)
    shapes = set()
    for it, r in zip(items, res):
        key = '%s:%s' % (it['fn'], it['cls'])
        rec = {'cfg': it['cfg'], 'kind': 'item', 'item': enc_item(it)}
        if isinstance(r, dict):
            err = r.get('stderr') or r.get('harness_error') or ''
            what = r.get('crash') or 'harness error'
            m = re.search(r'Assertion in (\S+?)::(\d+)', err)
            if m:
                what = 'built-in self-check fired: Assertion in %s line %s' % (m.group(1), m.group(2))
            chk.violation(key + ':crash', rec, '%s(%s): %s\n%s' % (it['fn'], describe(it), what, '' if m else err[-600:]))
            continue
        msg, label = r
        chk.outcome(label)
        shapes.add((it['fn'], it['cls'], B.level_of(it['case']) if 'params' in it['case'] else 0))
        if label.startswith('observation'):
            chk.observe(label)
        if it['kind'] == 'mut' and ' ref=BAD_PUBKEY' in label and 'impl=ERR_BAD_PUBKEY' not in label and 'impl=ERR_OK' not in label:
            chk.observe('%s rejects an invalid public key with %s where bign.h names ERR_BAD_PUBKEY (class of rejection only; not part of C02)' % (it['fn'], label.split('impl=')[1].split()[0]))
        if msg:
            chk.violation(key, rec, '%s [%s]: %s\n  input: %s' % (it['fn'], it['cls'], msg, describe(it)))
    chk.part(name, states=len(shapes), transitions=len(items), traces_validated_against_impl=len(items), evaluations=len(items), distinct_nontrivial=len(shapes))
    for i in (0, len(items) // 2):
        if items:
            chk.sample({'part': name, 'fn': items[i]['fn'], 'class': items[i]['cls'], 'case': cat.short(items[i]['case'])})

def run(tier):
    chk = vf.Check(PROP, tier, deadline_s=600 if tier == 'quick' else 3000)
    for name, sp in PARTS:
        if chk.expired():
            chk.cap('deadline before part ' + name); continue
        items = sp(tier)
        if any(it['x'].get('need_tp') for it in items):
            n = attach_tp(items)
            chk.part('identity_key_engineering', evaluations=n)
        run_part(chk, name, items)
    chk.assumptions += ['reference ref/bign.py over ref/ecp.py is specification-level (Python integers, affine group law) and gated by the appendix vectors (ref/vectors/bign.json)',
                        'values by alphabets: d in {1,2,q-2,q-1,appendix,filler}, H in {0,1,q-1,q,q+1,2^2l-1,appendix,filler}, 6-7 OIDs, nonce in {appendix,filler,1,2,q-2,q-1}, '
                        '12 rejection-sampling tape shapes incl. [u in [q,p)], 64 rejections (accepted) and 65 rejections (ERR_BAD_RNG); shapes are enumerated as cross products',
                        'the generator tape hands out l/4 octets per attempt; after the tape a fixed filler stream continues (never reached by an admissible case)',
                        'verifier side: accept/reject is compared with the reference equations; WHICH error code a rejection carries is recorded as an observation only',
                        'bignSign2/bignIdSign2 derive the one-time key from (d, H), so boundary tuples cannot be engineered for them; their H >= q rows are also run under the assertion-enabled build']
    return chk.finish('C02', 'cross products curve x private key x hash x OID x tape shape / t / key length x header; engineered (d,k,H) boundary tuples; every single-bit flip and '
                      'boundary substitution of every input of the four verifying functions; states = distinct (function, class, level) shapes, transitions = executions judged')

def replay(rec):
    if rec.get('kind') != 'item':
        return None
    it = dec_item(rec['item'])
    if it['cfg'] != CFG:
        r = vf.pmap(check_item, [it], nproc=1)[0]      # a child observes the abort
        if isinstance(r, dict):
            return (r.get('crash') or 'harness error') + ' ' + (r.get('stderr') or r.get('harness_error') or '')[-400:]
        return r[0]
    return check_item(it)[0]
