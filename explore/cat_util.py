"""core-utility part of the catalogue: mem.h, str.h, blob.h, util.h (CRC32 / FNV32 / version), prng.h, the array and scalar helpers
of u16.h / u32.h / u64.h, err.h (errMsg), tm.h.

Every entry is a Composite (impl on the real object code, ref written from the doc comments of /repo/include/bee2/core/*.h).
Results contain only address- and configuration-independent data (octet strings, small integers), so that C07 (two-fill replay
under ASan with exact-size buffers) and C19 (digest differential over the build configurations, 32- and 64-bit words) can replay
the cases.  Many cases are *batches*: one case fixes a shape (a length, a base string, a tuple of counts) and the impl sweeps a
complete small dimension inside it (every position of the first difference, every offset pair of a region, every split point), each
operand in its own exact-size allocation.

self-check:  python3 explore/cat_util.py [quick|thorough]   (from /verif)"""
import os, sys
_here = os.path.dirname(os.path.abspath(__file__))
for _p in (os.path.dirname(_here), _here):
    if _p not in sys.path:
        sys.path.insert(0, _p)
import ctypes, re, time, datetime, zlib
import vf, cat
from cat import reg
from cat_belt import Composite

G = 'util'
SIZE_MAX = (1 << 64) - 1

def F(tag, n):
    return vf.filler('cat_util/%s' % tag, n)

def F1(tag, n):
    """filler octets in 1..0xFE (so that an octet both smaller and larger exists for every position)"""
    return bytes(1 + x % 254 for x in F(tag, n))

def i32(r):
    r &= 0xFFFFFFFF
    return r - (1 << 32) if r >> 31 else r

def sgn(x):
    return (x > 0) - (x < 0)

def editions(lib, name):
    """the base name plus the other edition of a two-edition function (safe.h: f and f_fast, or with SAFE_FAST f_safe and f)"""
    out = [name]
    for suf in ('_fast', '_safe'):
        if lib.has(name + suf):
            out.append(name + suf)
    if len(out) != 2:
        raise RuntimeError('editions of %s: %s' % (name, out))
    return out

def cstr(s):
    return s.encode('latin1') + b'\0'

# =============================================================================================== mem.h
XMODES = ('sep', 'd=1', 'd=2', 'd=1=2')
def _impl_memxor(lib, c, A, fill):
    a, b, n, m = c['a'], c['b'], len(c['a']), c['mode']
    if m == 'sep':
        d, s1, s2 = A.buf(n, fill), A.buf(a), A.buf(b)
    elif m == 'd=1':
        s1 = d = A.buf(a); s2 = A.buf(b)
    elif m == 'd=2':
        s2 = d = A.buf(b); s1 = A.buf(a)
    else:
        d = s1 = s2 = A.buf(a)
    lib.call('memXor', d, s1, s2, n)
    return {'ret': 0, 'dest': d.get(), 'src1': s1.get(), 'src2': s2.get()}
def _ref_memxor(c):
    a, b, m = c['a'], c['b'], c['mode']
    if m == 'd=1=2':
        z = bytes(len(a)); return {'ret': 0, 'dest': z, 'src1': z, 'src2': z}
    x = bytes(p ^ q for p, q in zip(a, b))
    return {'ret': 0, 'dest': x, 'src1': x if m == 'd=1' else a, 'src2': x if m == 'd=2' else b}
reg(Composite('util.memXor', _impl_memxor, _ref_memxor, group=G))

def _impl_memxor2(lib, c, A, fill):
    a, b, n = c['a'], c['b'], len(c['a'])
    if c['same']:
        d = s = A.buf(a)
    else:
        d, s = A.buf(a), A.buf(b)
    lib.call('memXor2', d, s, n)
    return {'ret': 0, 'dest': d.get(), 'src': s.get()}
def _ref_memxor2(c):
    if c['same']:
        z = bytes(len(c['a'])); return {'ret': 0, 'dest': z, 'src': z}
    return {'ret': 0, 'dest': bytes(p ^ q for p, q in zip(c['a'], c['b'])), 'src': c['b']}
reg(Composite('util.memXor2', _impl_memxor2, _ref_memxor2, group=G))

def _impl_memswap(lib, c, A, fill):
    x, y = A.buf(c['a']), A.buf(c['b'])
    lib.call('memSwap', x, y, len(c['a']))
    return {'ret': 0, 'buf1': x.get(), 'buf2': y.get()}
reg(Composite('util.memSwap', _impl_memswap, lambda c: {'ret': 0, 'buf1': c['b'], 'buf2': c['a']}, group=G))

def _impl_inplace(name):
    def impl(lib, c, A, fill):
        b = A.buf(c['a'])
        lib.call(name, b, len(c['a']))
        return {'ret': 0, 'buf': b.get()}
    return impl
reg(Composite('util.memRev', _impl_inplace('memRev'), lambda c: {'ret': 0, 'buf': c['a'][::-1]}, group=G))
reg(Composite('util.memNeg', _impl_inplace('memNeg'), lambda c: {'ret': 0, 'buf': bytes(x ^ 0xFF for x in c['a'])}, group=G))

def _impl_memset(lib, c, A, fill):
    b = A.buf(c['n'], fill)
    lib.call('memSet', b, c['c'], c['n'])
    return {'ret': 0, 'buf': b.get()}
reg(Composite('util.memSet', _impl_memset, lambda c: {'ret': 0, 'buf': bytes([c['c']]) * c['n']}, group=G))

def _impl_memcopy(lib, c, A, fill):
    n = len(c['a'])
    d, s = A.buf(n, fill), A.buf(c['a'])
    lib.call('memCopy', d, s, n)
    return {'ret': 0, 'dest': d.get(), 'src': s.get()}
reg(Composite('util.memCopy', _impl_memcopy, lambda c: {'ret': 0, 'dest': c['a'], 'src': c['a']}, group=G))

def _impl_memmove(lib, c, A, fill):
    """src at offset so, dest at offset do of ONE exact-size buffer (the buffers may intersect)"""
    n, so, do = c['n'], c['so'], c['do']
    b = A.buf(c['a'])
    lib.call('memMove', b.addr + do, b.addr + so, n)
    return {'ret': 0, 'buf': b.get()}
def _ref_memmove(c):
    a = bytearray(c['a']); a[c['do']:c['do'] + c['n']] = c['a'][c['so']:c['so'] + c['n']]
    return {'ret': 0, 'buf': bytes(a)}
reg(Composite('util.memMove', _impl_memmove, _ref_memmove, group=G))

def _impl_memjoin(lib, c, A, fill):
    a, b = c['a'], c['b']
    d = A.buf(len(a) + len(b), fill)
    lib.call('memJoin', d, A.buf(a), len(a), A.buf(b), len(b))
    return {'ret': 0, 'dest': d.get()}
reg(Composite('util.memJoin', _impl_memjoin, lambda c: {'ret': 0, 'dest': c['a'] + c['b']}, group=G))

# ---- comparisons: every position of the (first / last) difference
def cmp_operands(a, kind):
    """second operands derived from a (octets of a are in 1..0xFE): equal; a difference at position i only ('single'); a
    difference at i and every LATER octet differing the opposite way ('after': only the first difference may decide memCmp);
    a difference at i and every EARLIER octet differing the opposite way ('before': only the last one may decide memCmpRev)"""
    n = len(a); out = [bytes(a)]
    for i in range(n):
        for d in (0x01, 0x80):
            b = bytearray(a); b[i] ^= d
            opp = 0x00 if b[i] > a[i] else 0xFF
            if kind == 'after':
                for j in range(i + 1, n): b[j] = opp
            elif kind == 'before':
                for j in range(i): b[j] = opp
            out.append(bytes(b))
    return out
def _impl_memcmp(lib, c, A, fill):
    a = c['a']; n = len(a)
    res = {'ret': 0}
    fns = [(k, e) for k, f in (('eq', 'memEq'), ('cmp', 'memCmp'), ('cmprev', 'memCmpRev')) for e in editions(lib, f)]
    for k, e in fns:
        res[k + ('2' if e.endswith(('_fast', '_safe')) else '')] = []
    for b in cmp_operands(a, c['kind']):
        x, y = A.buf(a), A.buf(b)
        for k, e in fns:
            key = k + ('2' if e.endswith(('_fast', '_safe')) else '')
            r = lib.call(e, x, y, n)
            res[key].append(1 if (r & 0xFFFFFFFF) else 0) if k == 'eq' else res[key].append(sgn(i32(r)))
            r2 = lib.call(e, y, x, n)
            res[key].append(1 if (r2 & 0xFFFFFFFF) else 0) if k == 'eq' else res[key].append(sgn(i32(r2)))
    return res
def _ref_memcmp(c):
    a = c['a']; eq = []; cm = []; cr = []
    for b in cmp_operands(a, c['kind']):
        for x, y in ((a, b), (b, a)):
            eq.append(int(x == y)); cm.append((x > y) - (x < y)); cr.append((x[::-1] > y[::-1]) - (x[::-1] < y[::-1]))
    return {'ret': 0, 'eq': eq, 'eq2': eq, 'cmp': cm, 'cmp2': cm, 'cmprev': cr, 'cmprev2': cr}
reg(Composite('util.memEqCmpCmpRev', _impl_memcmp, _ref_memcmp, group=G))

def scan_operands(n, o):
    base = bytes([o]) * n; out = [base]
    for i in range(n):
        for d in (0x01, 0x80):
            b = bytearray(base); b[i] ^= d; out.append(bytes(b))
    return out
def _impl_memscan(lib, c, A, fill):
    n, o = c['n'], c['o']
    z = editions(lib, 'memIsZero'); r = editions(lib, 'memIsRep')
    res = {'ret': 0, 'zero': [], 'zero2': [], 'rep': [], 'rep2': [], 'rep_other': [], 'rep_other2': [], 'nzsize': []}
    for v in scan_operands(n, o):
        b = A.buf(v)
        res['zero'].append(lib.boolean(z[0], b, n)); res['zero2'].append(lib.boolean(z[1], b, n))
        res['rep'].append(lib.boolean(r[0], b, n, o)); res['rep2'].append(lib.boolean(r[1], b, n, o))
        if n:       # (the value repeated by an EMPTY buffer is stated for o == 0 only: memIsRep(empty, o != 0) is not asked)
            res['rep_other'].append(lib.boolean(r[0], b, n, o ^ 1)); res['rep_other2'].append(lib.boolean(r[1], b, n, o ^ 1))
        res['nzsize'].append(lib.sz('memNonZeroSize', b, n))
    return res
def _ref_memscan(c):
    n, o = c['n'], c['o']
    vs = scan_operands(n, o)
    zero = [int(not any(v)) for v in vs]
    rep = [int(all(x == o for x in v)) for v in vs]
    oth = [int(all(x == o ^ 1 for x in v)) for v in vs] if n else []
    nz = [max([i + 1 for i in range(n) if v[i]] or [0]) for v in vs]
    return {'ret': 0, 'zero': zero, 'zero2': zero, 'rep': rep, 'rep2': rep, 'rep_other': oth, 'rep_other2': oth, 'nzsize': nz}
reg(Composite('util.memIsZeroIsRepNonZeroSize', _impl_memscan, _ref_memscan, group=G))

# ---- intersection predicates: buffers placed at every offset of one exact-size region (results depend on offsets only)
def offsets(region, counts):
    """all offset tuples with every buffer [off, off + count) inside the region"""
    out = [()]
    for cnt in counts:
        out = [t + (o,) for t in out for o in range(region - cnt + 1)]
    return out
def _meets(o1, c1, o2, c2):
    return bool(c1 and c2 and o1 < o2 + c2 and o2 < o1 + c1)
def _impl_disjoint(lib, c, A, fill):
    R, cnt = c['region'], c['counts']
    b = A.buf(F('region', R)); p = b.addr
    out = []; same = []
    for t in offsets(R, cnt):
        args = []
        for o, n in zip(t, cnt):
            args += [p + o, n]
        if c.get('eqsize'):         # two buffers of the same size: memIsDisjoint / memIsSameOrDisjoint
            out.append(lib.boolean('memIsDisjoint', p + t[0], p + t[1], cnt[0]))
            same.append(lib.boolean('memIsSameOrDisjoint', p + t[0], p + t[1], cnt[0]))
        else:
            out.append(lib.boolean('memIsDisjoint%d' % len(cnt), *args))
    res = {'ret': 0, 'disjoint': out}
    if c.get('eqsize'):
        res['same_or_disjoint'] = same
    return res
def _ref_disjoint(c):
    R, cnt = c['region'], c['counts']
    out = []; same = []
    for t in offsets(R, cnt):
        d = not any(_meets(t[i], cnt[i], t[j], cnt[j]) for i in range(len(cnt)) for j in range(i))
        out.append(int(d))
        if c.get('eqsize'):
            same.append(int(d or t[0] == t[1]))
    res = {'ret': 0, 'disjoint': out}
    if c.get('eqsize'):
        res['same_or_disjoint'] = same
    return res
reg(Composite('util.memIsDisjoint', _impl_disjoint, _ref_disjoint, group=G))

def _impl_aligned(lib, c, A, fill):
    """memIsAligned depends on the address; independent of it: among `size` consecutive addresses exactly one is aligned, the
    answer has period `size`, and every address is aligned to 1"""
    s = c['size']
    b = A.buf(3 * s)
    r = [lib.boolean('memIsAligned', b.addr + i, s) for i in range(3 * s)]
    return {'ret': 0, 'one_per_window': int(all(sum(r[i:i + s]) == 1 for i in range(2 * s))),
            'periodic': int(all(r[i] == r[i + s] for i in range(2 * s))), 'size1': lib.boolean('memIsAligned', b.addr + c['off'], 1)}
reg(Composite('util.memIsAligned', _impl_aligned, lambda c: {'ret': 0, 'one_per_window': 1, 'periodic': 1, 'size1': 1}, group=G))

def _impl_memalloc(lib, c, A, fill):
    """memAlloc(n), fill, memRealloc(m), memFree: the block exists even for n == 0, the content is kept up to min(n, m),
    memRealloc(buf, 0) frees and returns 0"""
    n, m = c['n'], c['m']
    data = F('alloc%d' % n, n)
    p = lib.call('memAlloc', n)
    res = {'ret': 0, 'alloc_nonnull': int(p != 0)}
    if not p:
        return res
    if n:
        ctypes.memmove(p, data, n)
    if m is None:
        lib.call('memFree', p)
        return res
    q = lib.call('memRealloc', p, m)
    res['realloc_nonnull'] = int(q != 0)
    if q:
        k = min(n, m)
        res['kept'] = ctypes.string_at(q, k) if k else b''
        if m:
            ctypes.memset(q, 0x5C, m)            # the whole new block is writable
        lib.call('memFree', q)
    return res
def _ref_memalloc(c):
    n, m = c['n'], c['m']
    res = {'ret': 0, 'alloc_nonnull': 1}
    if m is not None:
        res['realloc_nonnull'] = int(m != 0)
        if m:
            res['kept'] = F('alloc%d' % n, n)[:min(n, m)]
    return res
reg(Composite('util.memAllocReallocFree', _impl_memalloc, _ref_memalloc, group=G))

def _impl_memwipe(lib, c, A, fill):
    b = A.buf(F('wipe', c['n']))
    lib.call('memWipe', b, c['n'])
    return {'ret': 0, 'n': b.n}         # the octets written are unspecified ("arbitrary octets"): only the call is judged
reg(Composite('util.memWipe', _impl_memwipe, lambda c: {'ret': 0, 'n': c['n']}, group=G))

# =============================================================================================== str.h
def _impl_strlen(lib, c, A, fill):
    s = c['s']; n = len(s)
    b = A.buf(cstr(s))
    wins = list(range(n + 3)) + [SIZE_MAX]
    return {'ret': 0, 'len': lib.sz('strLen', b), 'len2': [lib.sz('strLen2', b, w) for w in wins], 'valid': lib.boolean('strIsValid', b)}
reg(Composite('util.strLen', _impl_strlen,
              lambda c: {'ret': 0, 'len': len(c['s']), 'len2': [min(len(c['s']), w) for w in list(range(len(c['s']) + 3)) + [SIZE_MAX]], 'valid': 1}, group=G))

def _impl_strcopy(lib, c, A, fill):
    s = cstr(c['s'])
    d, b = A.buf(len(s), fill), A.buf(s)
    lib.call('strCopy', d, b)
    return {'ret': 0, 'dest': d.get(), 'src': b.get()}
reg(Composite('util.strCopy', _impl_strcopy, lambda c: {'ret': 0, 'dest': cstr(c['s']), 'src': cstr(c['s'])}, group=G))

def _impl_strset(lib, c, A, fill):
    b = A.buf(cstr(c['s']))
    lib.call('strSet', b, c['ch'])
    return {'ret': 0, 'str': b.get()}
reg(Composite('util.strSet', _impl_strset, lambda c: {'ret': 0, 'str': bytes([c['ch']]) * len(c['s']) + b'\0'}, group=G))

def _impl_strrev(lib, c, A, fill):
    b = A.buf(cstr(c['s']))
    lib.call('strRev', b)
    return {'ret': 0, 'str': b.get()}
reg(Composite('util.strRev', _impl_strrev, lambda c: {'ret': 0, 'str': cstr(c['s'][::-1])}, group=G))

def _impl_strcmp(lib, c, A, fill):
    """strCmp of s against every string of the set, both orders (strEq is the macro strCmp(..) == 0)"""
    out = []
    for t in c['set']:
        x, y = A.buf(cstr(c['s'])), A.buf(cstr(t))
        out.append(i32(lib.call('strCmp', x, y))); out.append(i32(lib.call('strCmp', y, x)))
    # only sign and equality are recorded: the library returns libc's strcmp() value, whose magnitude is unspecified (see _ref_strcmp)
    return {'ret': 0, 'sign': [sgn(v) for v in out], 'eq': [int(v == 0) for v in out]}
def _ref_strcmp(c):
    out = []
    s = c['s'].encode('latin1')
    for t in c['set']:
        t = t.encode('latin1')
        out.append((s > t) - (s < t)); out.append((t > s) - (t < s))      # characters are octets
    # str.h states the values 1 / -1 / 0; str.c returns strcmp()'s difference of octets (97, -128, ...).  No property of the list concerns the
    # magnitude and no caller in the library uses it: recorded in DESIGN.md as an observation, only sign and equality are compared
    return {'ret': 0, 'sign': out, 'eq': [int(v == 0) for v in out]}
reg(Composite('util.strCmp', _impl_strcmp, _ref_strcmp, group=G))

def _impl_strwith(lib, c, A, fill):
    st = []; en = []
    for t in c['set']:
        x, y = A.buf(cstr(c['s'])), A.buf(cstr(t))
        st.append(lib.boolean('strStartsWith', x, y)); en.append(lib.boolean('strEndsWith', x, y))
    return {'ret': 0, 'starts': st, 'ends': en}
reg(Composite('util.strStartsEndsWith', _impl_strwith,
              lambda c: {'ret': 0, 'starts': [int(c['s'].startswith(t)) for t in c['set']], 'ends': [int(c['s'].endswith(t)) for t in c['set']]}, group=G))

DIG = set(range(0x30, 0x3A))
ALNUM = DIG | set(range(0x41, 0x5B)) | set(range(0x61, 0x7B))
PRINTABLE = ALNUM | set(b" '()+,-./:=?")
def _edges(s):
    s = sorted(s); out = set()
    for x in s:
        if x - 1 not in s or x + 1 not in s:
            out |= {x - 1, x, x + 1}
    return out
ALPHA = {'all': list(range(1, 256)),
         'boundary': sorted((_edges(PRINTABLE) | _edges(ALNUM) | _edges(DIG) | {1, 0x7F, 0x80, 0xFF}) - {0})}
def class_operands(base, pos, alpha):
    """base itself and base with the character at pos replaced by every character of the alphabet"""
    b = base.encode('latin1'); out = [b]
    if pos is not None:
        for ch in ALPHA[alpha]:
            v = bytearray(b); v[pos] = ch; out.append(bytes(v))
    return out
def _impl_strclass(lib, c, A, fill):
    res = {'ret': 0, 'numeric': [], 'alnum': [], 'printable': []}
    for v in class_operands(c['base'], c['pos'], c['alpha']):
        b = A.buf(v + b'\0')
        res['numeric'].append(lib.boolean('strIsNumeric', b)); res['alnum'].append(lib.boolean('strIsAlphanumeric', b))
        res['printable'].append(lib.boolean('strIsPrintable', b))
    return res
def _ref_strclass(c):
    vs = class_operands(c['base'], c['pos'], c['alpha'])
    return {'ret': 0, 'numeric': [int(all(x in DIG for x in v)) for v in vs], 'alnum': [int(all(x in ALNUM for x in v)) for v in vs],
            'printable': [int(all(x in PRINTABLE for x in v)) for v in vs]}
reg(Composite('util.strIsNumericAlphanumericPrintable', _impl_strclass, _ref_strclass, group=G))

# =============================================================================================== blob.h
def _bget(p, n):
    return ctypes.string_at(p, n) if (p and n) else b''
def _bput(p, data):
    if p and data:
        ctypes.memmove(p, data, len(data))

def _impl_blobcreate(lib, c, A, fill):
    n = c['size']
    b = lib.call('blobCreate', n)
    res = {'ret': 0, 'null': int(b == 0), 'valid': lib.boolean('blobIsValid', b), 'valid_null': lib.boolean('blobIsValid', 0)}
    if b:
        res['size'] = lib.sz('blobSize', b)
        res['content'] = _bget(b, n)
        _bput(b, F('blob', n))
        lib.call('blobWipe', b)
        res['valid_after_wipe'] = lib.boolean('blobIsValid', b); res['size_after_wipe'] = lib.sz('blobSize', b)
        lib.call('blobClose', b)
    else:
        lib.call('blobWipe', 0); lib.call('blobClose', 0)         # the null descriptor is a valid blob
    return res
def _ref_blobcreate(c):
    n = c['size']
    if n == 0:
        return {'ret': 0, 'null': 1, 'valid': 1, 'valid_null': 1}
    return {'ret': 0, 'null': 0, 'valid': 1, 'valid_null': 1, 'size': n, 'content': bytes(n), 'valid_after_wipe': 1, 'size_after_wipe': n}
reg(Composite('util.blobCreateWipeClose', _impl_blobcreate, _ref_blobcreate, group=G))

def _impl_blobresize(lib, c, A, fill):
    """blobCreate(n) (n == 0: the null blob), content written, then blobResize to each size of the list in turn"""
    n = c['size']
    b = lib.call('blobCreate', n)
    cur = F('blobrs', n) if b else b''
    _bput(b, cur)
    res = {'ret': 0, 'created': int(b != 0), 'null': [], 'size': [], 'content': [], 'same': [], 'valid': []}
    for k, m in enumerate(c['to']):
        q = lib.call('blobResize', b, m)
        res['null'].append(int(q == 0))
        if q == 0 and m != 0:
            res['ret'] = 110; return res          # out of memory: the old blob stays (not reached)
        res['valid'].append(lib.boolean('blobIsValid', q))
        res['size'].append(lib.sz('blobSize', q) if q else 0)
        res['content'].append(_bget(q, m).hex())
        if m == len(cur):
            res['same'].append(int(q == b))
        b = q
        cur = F('blobrs%d' % k, m)               # fresh content before the next step
        _bput(b, cur)
    if b:
        lib.call('blobClose', b)
    return res
def _ref_blobresize(c):
    n = c['size']
    cur = F('blobrs', n)
    res = {'ret': 0, 'created': int(n != 0), 'null': [], 'size': [], 'content': [], 'same': [], 'valid': []}
    for k, m in enumerate(c['to']):
        res['null'].append(int(m == 0)); res['valid'].append(1); res['size'].append(m)
        res['content'].append((cur[:m] + bytes(max(0, m - len(cur)))).hex())
        if m == len(cur):
            res['same'].append(1)
        cur = F('blobrs%d' % k, m)
    return res
reg(Composite('util.blobResize', _impl_blobresize, _ref_blobresize, group=G))

def _impl_blobcopy(lib, c, A, fill):
    ds, ss = c['dsize'], c['ssize']
    src = lib.call('blobCreate', ss); _bput(src, F('blobsrc', ss))
    if c['same']:
        r = lib.call('blobCopy', src, src)
        res = {'ret': 0, 'null': int(r == 0), 'same': int(r == src), 'size': lib.sz('blobSize', r) if r else 0, 'content': _bget(r, ss),
               'src': _bget(src, ss)}
        if src:
            lib.call('blobClose', src)
        return res
    dest = lib.call('blobCreate', ds); _bput(dest, F('blobdst', ds))
    r = lib.call('blobCopy', dest, src)
    res = {'ret': 0, 'null': int(r == 0)}
    if r == 0 and ss != 0:
        res['ret'] = 110; return res
    res['valid'] = lib.boolean('blobIsValid', r)
    res['size'] = lib.sz('blobSize', r) if r else 0
    res['content'] = _bget(r, ss); res['src'] = _bget(src, ss)
    res['eq'] = lib.boolean('blobEq', r, src); res['cmp'] = sgn(i32(lib.call('blobCmp', r, src)))
    if ds == ss:
        res['same'] = int(r == dest)
    if r:
        lib.call('blobClose', r)          # (a null result with ss == 0: dest was resized to 0, i.e. closed, by the call)
    if src:
        lib.call('blobClose', src)
    return res
def _ref_blobcopy(c):
    ds, ss = c['dsize'], c['ssize']
    v = F('blobsrc', ss)
    if c['same']:
        return {'ret': 0, 'null': int(ss == 0), 'same': 1, 'size': ss, 'content': v, 'src': v}
    res = {'ret': 0, 'null': int(ss == 0), 'valid': 1, 'size': ss, 'content': v, 'src': v, 'eq': 1, 'cmp': 0}
    if ds == ss:
        res['same'] = 1
    return res
reg(Composite('util.blobCopy', _impl_blobcopy, _ref_blobcopy, group=G))

def _impl_blobcmp(lib, c, A, fill):
    """blobEq / blobCmp of the blob holding a against blobs holding every octet string of the set, both orders"""
    eq = []; cm = []
    for t in c['set']:
        t = bytes.fromhex(t)
        x = lib.call('blobCreate', len(c['a'])); _bput(x, c['a'])
        y = lib.call('blobCreate', len(t)); _bput(y, t)
        eq += [lib.boolean('blobEq', x, y), lib.boolean('blobEq', y, x)]
        cm += [sgn(i32(lib.call('blobCmp', x, y))), sgn(i32(lib.call('blobCmp', y, x)))]
        lib.call('blobClose', x); lib.call('blobClose', y)
    return {'ret': 0, 'eq': eq, 'cmp': cm}
def _ref_blobcmp(c):
    eq = []; cm = []
    a = c['a']
    for t in c['set']:
        t = bytes.fromhex(t)
        ka, kt = (len(a), a), (len(t), t)          # a < b: size(a) < size(b), or equal sizes and value(a) < value(b) lexicographically
        eq += [int(ka == kt)] * 2
        cm += [(ka > kt) - (ka < kt), (kt > ka) - (kt < ka)]
    return {'ret': 0, 'eq': eq, 'cmp': cm}
reg(Composite('util.blobEqCmp', _impl_blobcmp, _ref_blobcmp, group=G))

# =============================================================================================== util.h
def fnv32(data, state=0x811C9DC5):
    for x in data:
        state = ((state ^ x) * 16777619) & 0xFFFFFFFF
    return state
def _impl_sum(fname, init):
    def impl(lib, c, A, fill):
        d = c['data']; n = len(d)
        one = lib.call(fname, A.buf(d), n, init) & 0xFFFFFFFF
        inc = []
        for cut in c['cuts']:           # fragments as separate exact-size buffers; () = no call at all is not asked
            st = init; pos = 0
            for p in list(cut) + [n]:
                st = lib.call(fname, A.buf(d[pos:p]), p - pos, st) & 0xFFFFFFFF; pos = p
            inc.append(st)
        return {'ret': 0, 'sum': one, 'inc': inc}
    return impl
reg(Composite('util.CRC32', _impl_sum('utilCRC32', 0),
              lambda c: {'ret': 0, 'sum': zlib.crc32(c['data']) & 0xFFFFFFFF, 'inc': [zlib.crc32(c['data']) & 0xFFFFFFFF] * len(c['cuts'])}, group=G))
reg(Composite('util.FNV32', _impl_sum('utilFNV32', 0x811C9DC5),
              lambda c: {'ret': 0, 'sum': fnv32(c['data']), 'inc': [fnv32(c['data'])] * len(c['cuts'])}, group=G))

def _impl_version(lib, c, A, fill):
    p = lib.call('utilVersion')
    s = ctypes.string_at(p).decode('latin1') if p else None
    return {'ret': 0, 'version': s, 'format_ok': int(bool(s) and re.fullmatch(r'\d+\.\d+\.\d+', s) is not None)}
reg(Composite('util.Version', _impl_version, lambda c: {'ret': 0, 'format_ok': 1}, group=G))

def _impl_nonce(lib, c, A, fill):
    for _ in range(c['n']):
        lib.call('utilNonce32')
    return {'ret': 0}
reg(Composite('util.Nonce32', _impl_nonce, lambda c: {'ret': 0}, group=G)).nondet = True

# =============================================================================================== prng.h
def _steps(lib, step, st, frags, A, fill):
    out = b''
    for n in frags:
        b = A.buf(n, fill)
        lib.call(step, b, n, st)
        out += b.get()
    return out

def _impl_echo(lib, c, A, fill):
    seed = A.buf(c['seed'])                 # stays valid while the state is used (\expect)
    st = A.buf(lib.sz('prngEcho_keep'), fill)
    lib.call('prngEchoStart', st, seed, len(c['seed']))
    return {'ret': 0, 'out': _steps(lib, 'prngEchoStepR', st, c['frags'], A, fill), 'seed': seed.get()}
def _ref_echo(c):
    n = sum(c['frags']); s = c['seed']
    return {'ret': 0, 'out': (s * (n // len(s) + 1))[:n], 'seed': s}
reg(Composite('util.prngEcho', _impl_echo, _ref_echo, group=G))

def _impl_combo(lib, c, A, fill):
    n = sum(c['frags'])
    st = A.buf(lib.sz('prngCOMBO_keep'), fill)
    lib.call('prngCOMBOStart', st, c['seed'])
    out = _steps(lib, 'prngCOMBOStepR', st, c['frags'], A, fill)
    st2 = A.buf(lib.sz('prngCOMBO_keep'), fill)
    lib.call('prngCOMBOStart', st2, c['seed'])
    one = _steps(lib, 'prngCOMBOStepR', st2, [n], A, fill)
    return {'ret': 0, 'out': out, 'chunked_eq_oneshot': int(out == one), 'len': len(out)}
reg(Composite('util.prngCOMBO', _impl_combo, lambda c: {'ret': 0, 'chunked_eq_oneshot': 1, 'len': sum(c['frags'])}, group=G))

def _impl_stb(lib, c, A, fill):
    n = sum(c['frags'])
    z = c['z']
    def start():
        st = A.buf(lib.sz('prngSTB_keep'), fill)
        lib.call('prngSTBStart', st, None if z is None else A.buf(b''.join(x.to_bytes(2, 'little') for x in z)))
        return st
    out = _steps(lib, 'prngSTBStepR', start(), c['frags'], A, fill)
    one = _steps(lib, 'prngSTBStepR', start(), [n], A, fill)
    res = {'ret': 0, 'out': out, 'chunked_eq_oneshot': int(out == one), 'len': len(out)}
    if z is None:       # prng.h: with a null z the numbers z[i] = i + 1 are assumed
        st = A.buf(lib.sz('prngSTB_keep'), fill)
        lib.call('prngSTBStart', st, A.buf(b''.join(x.to_bytes(2, 'little') for x in range(1, 32))))
        res['null_eq_default'] = int(_steps(lib, 'prngSTBStepR', st, [n], A, fill) == one)
    return res
def _ref_stb(c):
    res = {'ret': 0, 'chunked_eq_oneshot': 1, 'len': sum(c['frags'])}
    if c['z'] is None:
        res['null_eq_default'] = 1
    return res
reg(Composite('util.prngSTB', _impl_stb, _ref_stb, group=G))

# =============================================================================================== u16.h / u32.h / u64.h
def _pad(src, k):
    return src + bytes(-len(src) % k)
def _mk_arrays(bits):
    k = bits // 8; U = 'u%d' % bits
    def impl_from(lib, c, A, fill):
        src = c['src']; n = len(src)
        d = A.buf(len(_pad(src, k)), fill)
        lib.call(U + 'From', d, A.buf(src), n)
        return {'ret': 0, 'dest': d.get()}
    # uNNFrom: [count]src -> [(count + k - 1) / k] words, LITTLE_ENDIAN conventions: the octets of the word array are src || zero pad
    reg(Composite('util.%sFrom' % U, impl_from, lambda c: {'ret': 0, 'dest': _pad(c['src'], k)}, group=G))
    def impl_to(lib, c, A, fill):
        n = c['count']
        d = A.buf(n, fill)
        lib.call(U + 'To', d, n, A.buf(c['words']))
        return {'ret': 0, 'dest': d.get()}
    reg(Composite('util.%sTo' % U, impl_to, lambda c: {'ret': 0, 'dest': c['words'][:c['count']]}, group=G))
    def impl_rev2(lib, c, A, fill):
        b = A.buf(c['words'])
        lib.call(U + 'Rev2', b, len(c['words']) // k)
        return {'ret': 0, 'buf': b.get()}
    reg(Composite('util.%sRev2' % U, impl_rev2,
                  lambda c: {'ret': 0, 'buf': b''.join(c['words'][i:i + k][::-1] for i in range(0, len(c['words']), k))}, group=G))
    M = (1 << bits) - 1
    def scal(lib, c, A, fill):
        res = {'ret': 0}
        ctz = editions(lib, U + 'CTZ'); clz = editions(lib, U + 'CLZ')
        for key, fn, mask in (('rev', U + 'Rev', M), ('bitrev', U + 'Bitrev', M), ('weight', U + 'Weight', SIZE_MAX), ('parity', U + 'Parity', 0xFFFFFFFF),
                              ('ctz', ctz[0], SIZE_MAX), ('ctz2', ctz[1], SIZE_MAX), ('clz', clz[0], SIZE_MAX), ('clz2', clz[1], SIZE_MAX),
                              ('shuffle', U + 'Shuffle', M), ('deshuffle', U + 'Deshuffle', M)):
            res[key] = [lib.call(fn, w) & mask for w in c['vals']]
        res['parity'] = [1 if x else 0 for x in res['parity']]
        res['neginv'] = [lib.call(U + 'NegInv', w) & M for w in c['vals'] if w & 1]
        return res
    def ref_scal(c):
        v = c['vals']; h = bits // 2
        def shuffle(w):     # bits of the low half -> even positions, bits of the high half -> odd positions
            return sum(((w >> i) & 1) << (2 * i) | ((w >> (h + i)) & 1) << (2 * i + 1) for i in range(h))
        def deshuffle(w):
            return sum(((w >> (2 * i)) & 1) << i | ((w >> (2 * i + 1)) & 1) << (h + i) for i in range(h))
        ctz = [bits if w == 0 else (w & -w).bit_length() - 1 for w in v]
        clz = [bits - w.bit_length() for w in v]
        wt = [bin(w).count('1') for w in v]
        return {'ret': 0, 'rev': [int.from_bytes(w.to_bytes(k, 'little'), 'big') for w in v],
                'bitrev': [int(format(w, '0%db' % bits)[::-1], 2) for w in v], 'weight': wt, 'parity': [x & 1 for x in wt],
                'ctz': ctz, 'ctz2': ctz, 'clz': clz, 'clz2': clz, 'shuffle': [shuffle(w) for w in v], 'deshuffle': [deshuffle(w) for w in v],
                'neginv': [(-pow(w, -1, 1 << bits)) & M for w in v if w & 1]}
    reg(Composite('util.%sScalars' % U, scal, ref_scal, group=G))
for _bits in (16, 32, 64):
    _mk_arrays(_bits)

# =============================================================================================== err.h
_ERRCODES = None
def err_codes():
    """the codes err.h (and defs.h: ERR_OK, ERR_MAX) define"""
    global _ERRCODES
    if _ERRCODES is None:
        txt = open(os.path.join(vf.vbuild.REPO, 'include', 'bee2', 'core', 'err.h'), errors='replace').read()
        _ERRCODES = {0} | {int(x) for x in re.findall(r'#define\s+ERR_\w+\s+_ERR_REG\((\d+)\)', txt)}
    return _ERRCODES
def _impl_errmsg(lib, c, A, fill):
    lens = []
    for code in c['codes']:
        p = lib.call('errMsg', code)
        lens.append(len(ctypes.string_at(p)) if p else -1)
    return {'ret': 0, 'lens': lens, 'recognized': [int(x > 0) for x in lens]}
# err.h: a string with the message, or 0 if the error is not recognised; read as: the codes the header defines are recognised
# (non-empty message), all other values are not
reg(Composite('util.errMsg', _impl_errmsg, lambda c: {'ret': 0, 'recognized': [int(x in err_codes()) for x in c['codes']]}, group=G))

# =============================================================================================== tm.h (non-deterministic)
def _today_ok(y, m, d, t0, t1):
    return int(any((y, m, d) == (t.year, t.month, t.day) for t in (t0, t1)))
def _impl_tmdate(lib, c, A, fill):
    ptr = {k: (A.buf(8, fill) if k in c['want'] else None) for k in 'ymd'}
    t0 = datetime.date.today()
    r = lib.boolean('tmDate', ptr['y'], ptr['m'], ptr['d'])
    t1 = datetime.date.today()
    res = {'ret': 0, 'ok': r}
    if r:
        v = {k: int.from_bytes(b.get(), 'little') for k, b in ptr.items() if b is not None}
        res['fields_ok'] = int(any(all(v[k] == getattr(t, a) for k, a in (('y', 'year'), ('m', 'month'), ('d', 'day')) if k in v) for t in (t0, t1)))
        if len(v) == 3:
            res['valid'] = lib.boolean('tmDateIsValid', v['y'], v['m'], v['d'])
    return res
def _ref_tmdate(c):
    res = {'ret': 0, 'ok': 1, 'fields_ok': 1}
    if len(c['want']) == 3:
        res['valid'] = 1
    return res
reg(Composite('util.tmDate', _impl_tmdate, _ref_tmdate, group=G)).nondet = True

def _impl_tmdate2(lib, c, A, fill):
    b = A.buf(6, fill)
    t0 = datetime.date.today()
    r = lib.boolean('tmDate2', b)
    t1 = datetime.date.today()
    res = {'ret': 0, 'ok': r}
    if r:
        d = b.get()
        res['digits'] = int(all(x <= 9 for x in d))
        res['today'] = _today_ok(2000 + d[0] * 10 + d[1], d[2] * 10 + d[3], d[4] * 10 + d[5], t0, t1)
        res['valid2'] = lib.boolean('tmDateIsValid2', b)
    return res
reg(Composite('util.tmDate2', _impl_tmdate2, lambda c: {'ret': 0, 'ok': 1, 'digits': 1, 'today': 1, 'valid2': 1}, group=G)).nondet = True

TIME_ERR = SIZE_MAX
def _impl_tmround(lib, c, A, fill):
    a = int(time.time())
    r = lib.call('tmTimeRound', c['t0'], c['ts'])
    b = int(time.time())
    res = {'ret': 0, 'is_err': int(r == TIME_ERR)}
    if r != TIME_ERR and c['ts']:
        res['in_window'] = int((a - c['t0']) // c['ts'] <= r <= (b - c['t0']) // c['ts'])
    return res
def _ref_tmround(c):
    # errors: ts == 0, tmTime() < t0; otherwise (tmTime() - t0) / ts
    if c['ts'] == 0 or c['t0'] > (1 << 40):
        return {'ret': 0, 'is_err': 1}
    return {'ret': 0, 'is_err': 0, 'in_window': 1}
reg(Composite('util.tmTimeRound', _impl_tmround, _ref_tmround, group=G)).nondet = True

def _impl_tmspeed(lib, c, A, fill):
    r = lib.sz('tmSpeed', c['reps'], c['ticks'])
    t = lib.call('tmTicks'); f = lib.call('tmFreq'); tt = lib.call('tmTime')
    return {'ret': 0, 'zero_reps_zero': int(r == 0) if (c['reps'] == 0 and c['ticks']) else 1, 'time_ok': int(tt != TIME_ERR)}
reg(Composite('util.tmSpeed', _impl_tmspeed, lambda c: {'ret': 0, 'zero_reps_zero': 1, 'time_ok': 1}, group=G)).nondet = True

# =============================================================================================== cases
def gen_cases(tier):
    q = tier == 'quick'
    out = []
    # lengths crossing the word-at-a-time loops of both word sizes: 0 .. 2 * 8 + 1, then around 3 and 4 words
    L1 = list(range(18)) + [23, 24, 25, 31, 32, 33] + ([] if q else list(range(34, 42)) + [63, 64, 65, 127, 128, 129])
    for n in L1:
        a, b = F('xa%d' % n, n), F('xb%d' % n, n)
        for m in XMODES:
            if q and m in ('d=2', 'd=1=2') and not (n <= 9 or n in (16, 17)):
                continue
            out.append(('util.memXor', dict(a=a, b=b, mode=m)))
        out.append(('util.memXor2', dict(a=a, b=b, same=0))); out.append(('util.memXor2', dict(a=a, b=b, same=1)))
        out.append(('util.memSwap', dict(a=a, b=b)))
        out.append(('util.memRev', dict(a=a))); out.append(('util.memNeg', dict(a=a)))
        out.append(('util.memCopy', dict(a=a)))
        for ch in (0x00, 0xA5, 0xFF):
            if q and ch != 0xA5 and n not in (0, 1, 8, 9, 17):
                continue
            out.append(('util.memSet', dict(n=n, c=ch)))
        out.append(('util.memWipe', dict(n=n)))
    for n in (L1 if not q else [x for x in L1 if x <= 17 or x in (24, 25, 33)]):
        for kind in ('single', 'after', 'before'):
            if n < 2 and kind != 'single':
                continue
            out.append(('util.memEqCmpCmpRev', dict(a=F1('cmp%d' % n, n), kind=kind)))
        for o in (0x00, 0xA5, 0xFF):
            if n == 0 and o:
                continue
            out.append(('util.memIsZeroIsRepNonZeroSize', dict(n=n, o=o)))
    # memMove inside one buffer: every (src offset, dest offset) of a region, counts up to 2 words + 1
    for n in ((0, 1, 8, 9, 17) if q else range(0, 20)):
        for so in (0, 1, 3):
            for do in ((0, 2, 5) if q else (0, 1, 2, 5)):
                size = max(so, do) + n
                out.append(('util.memMove', dict(a=F('mv%d' % size, size), n=n, so=so, do=do)))
    for la in ((0, 1, 8, 9) if q else (0, 1, 7, 8, 9, 16, 17)):
        for lb in ((0, 1, 8, 9) if q else (0, 1, 7, 8, 9, 16, 17)):
            out.append(('util.memJoin', dict(a=F('ja', la), b=F('jb', lb))))
    # intersection predicates
    for cnt in range(0, 6):
        out.append(('util.memIsDisjoint', dict(region=9 if q else 12, counts=[cnt, cnt], eqsize=1)))
    for c1 in range(0, 5):
        for c2 in range(0, 5):
            out.append(('util.memIsDisjoint', dict(region=8 if q else 10, counts=[c1, c2])))
    C3 = (0, 1, 2) if q else (0, 1, 2, 3)
    for c1 in C3:
        for c2 in C3:
            for c3 in C3:
                out.append(('util.memIsDisjoint', dict(region=6 if q else 8, counts=[c1, c2, c3])))
    C4 = (0, 1, 2)
    for c1 in C4:
        for c2 in C4:
            for c3 in C4:
                for c4 in C4:
                    if q and (c1 + c2 + c3 + c4) % 2:
                        continue
                    out.append(('util.memIsDisjoint', dict(region=4 if q else 6, counts=[c1, c2, c3, c4])))
    for s in (1, 2, 3, 4, 8, 16, 64):
        out.append(('util.memIsAligned', dict(size=s, off=s // 2)))
    SZ = (0, 1, 7, 8, 9, 16, 17, 1000, 5000)
    for n in SZ:
        out.append(('util.memAllocReallocFree', dict(n=n, m=None)))
        for m in SZ:
            if q and (SZ.index(n) + SZ.index(m)) % 2 and n not in (0, 1) and m not in (0, 1):
                continue
            out.append(('util.memAllocReallocFree', dict(n=n, m=m)))
    # ---- str.h
    chars = '/09:@AZ[`az{'
    def sample(n, k=0):
        return ''.join(chars[(i * 5 + k + n) % len(chars)] for i in range(n))
    for n in range(10):
        for k in ((0,) if q else (0, 1, 2)):
            s = sample(n, k)
            out.append(('util.strLen', dict(s=s)))
            out.append(('util.strCopy', dict(s=s)))
            out.append(('util.strRev', dict(s=s)))
            for ch in (0x20, 0x41, 0xFF):
                out.append(('util.strSet', dict(s=s, ch=ch)))
    for s in ('\x80\xff', 'a\x01b'):
        out.append(('util.strLen', dict(s=s))); out.append(('util.strCopy', dict(s=s))); out.append(('util.strRev', dict(s=s)))
    CS = ['', 'a', 'b', 'c', 'aa', 'ab', 'abc', 'abd', 'a\x7f', 'a\x80', 'a\xff', '\x01', '\x7f', '\x80', '\xff', 'abcdefgh', 'abcdefgi', 'abcdefghi',
          'abcdefgha', '0', '9', 'A']
    for s in CS:
        out.append(('util.strCmp', dict(s=s, set=CS)))
    WS = ['', 'a', 'b', 'c', 'ab', 'bc', 'ba', 'abc', 'cab', 'aab', 'abb', 'abcab', 'abcabc', 'xabc', 'abcx', 'abcabcabc', 'aaaaaaaaa', 'aaaa', 'aaaab', 'baaaa']
    for s in WS:
        out.append(('util.strStartsEndsWith', dict(s=s, set=WS)))
    bases = {'digits': '0918273645', 'alnum': '0Az9ZaM5m', 'printable': " '()+,-./:=?"[:9]}
    for kind, full in sorted(bases.items()):
        for n in ((0, 1, 2, 9) if q else range(10)):
            base = full[:n]
            if n == 0:
                out.append(('util.strIsNumericAlphanumericPrintable', dict(base=base, pos=None, alpha='boundary')))
            for pos in range(n):
                if q and n == 9 and pos not in (0, 4, 8):
                    continue
                out.append(('util.strIsNumericAlphanumericPrintable', dict(base=base, pos=pos, alpha='boundary' if q else 'all')))
    # ---- blob.h
    BS = (0, 1, 7, 8, 9, 1015, 1016, 1017, 1024, 1025, 2049)
    for n in BS:
        out.append(('util.blobCreateWipeClose', dict(size=n)))
    for n in BS:
        for m in BS:
            if q and (BS.index(n) * 3 + BS.index(m)) % 4 and n != m and 0 not in (n, m):
                continue
            out.append(('util.blobResize', dict(size=n, to=[m])))
    out.append(('util.blobResize', dict(size=0, to=list(BS[1:]) + list(BS[::-1]))))
    out.append(('util.blobResize', dict(size=2049, to=[1025, 1024, 1017, 1016, 1015, 9, 8, 7, 1, 1, 2049, 2049, 0, 5, 0])))
    for ss in BS:
        out.append(('util.blobCopy', dict(dsize=0, ssize=ss, same=1)))
        for ds in BS:
            if q and (BS.index(ds) * 3 + BS.index(ss)) % 4 and ds != ss and 0 not in (ds, ss):
                continue
            out.append(('util.blobCopy', dict(dsize=ds, ssize=ss, same=0)))
    big = F1('blobbig', 1017)
    BC = [b'', b'\x00', b'\x01', b'\x7f', b'\x80', b'\xff', b'\x00\x00', b'\x01\x00', b'\x00\x01', b'\xff\xff', b'\x00\x00\x00',
          F1('bc8', 8), F1('bc8', 7) + b'\x00', F1('bc8', 8) + b'\x00', F1('bc8', 9)[:8] + b'\xff', big, big[:1016] + bytes([big[1016] ^ 0x80]),
          bytes([big[0] ^ 1]) + big[1:], big[:1016], big + b'\x00']
    for a in BC:
        out.append(('util.blobEqCmp', dict(a=a, set=[t.hex() for t in BC])))
    # ---- util.h
    for n in list(range(18)) + [63, 64, 65, 255, 256, 1000] + ([] if q else [4096, 65537]):
        d = F('sum%d' % n, n)
        cuts = [[]] + [[i] for i in range(min(n, 17) + 1)] + [[0, 0, n // 2, n // 2, n], [n // 3, 2 * n // 3]]
        if n <= 17:
            cuts.append(list(range(1, n)))          # octet by octet
        for f in ('util.CRC32', 'util.FNV32'):
            out.append((f, dict(data=d, cuts=cuts)))
    for d in (b'123456789', b'a', b'foobar', b'\x00' * 32, b'\xff' * 32):        # the published check inputs
        for f in ('util.CRC32', 'util.FNV32'):
            out.append((f, dict(data=d, cuts=[[len(d) // 2]])))
    out.append(('util.Version', dict()))
    out.append(('util.Nonce32', dict(n=3)))
    # ---- prng.h
    FR = [[0], [1], [17], [1] * 11, [0, 3, 0, 5, 0], [7, 1, 9], [4, 4, 4], [3, 4, 5, 1, 2, 6], [2, 2, 3, 1], [1, 3, 8, 0, 1], [5, 33, 2], [64], [31, 31, 31, 31]]
    if q:
        FR = [FR[i] for i in (0, 1, 3, 4, 5, 7, 10)]
    for sl in ((1, 2, 3, 5, 17) if q else (1, 2, 3, 5, 16, 17)):
        for fr in FR:
            out.append(('util.prngEcho', dict(seed=F('echo%d' % sl, sl), frags=fr)))
    for seed in (0, 1, 0xE09480431 & 0xFFFFFFFF, (0 - 0x1F6B7FBD) & 0xFFFFFFFF, 0xFFFFFFFF, 0x80000000):
        for fr in FR:
            out.append(('util.prngCOMBO', dict(seed=seed, frags=fr)))
    zf = F('stbz', 62)
    ZS = [None, list(range(1, 32)), [1] * 31, [65256] * 31, [1 + int.from_bytes(zf[2 * i:2 * i + 2], 'little') % 65256 for i in range(31)],
          [65256 if i % 2 else 1 for i in range(31)]]
    for z in ZS:
        for fr in FR:
            out.append(('util.prngSTB', dict(z=z, frags=fr)))
    # ---- uNN
    for bits in (16, 32, 64):
        k = bits // 8; U = 'u%d' % bits
        for n in range(0, 4 * k + 2):
            if q and bits == 64 and n > 2 * k + 1 and n % k not in (0, 1, k - 1):
                continue
            out.append(('util.%sFrom' % U, dict(src=F(U + 'from%d' % n, n))))
            out.append(('util.%sTo' % U, dict(count=n, words=F1(U + 'to%d' % n, n + (-n % k)))))
        for cnt in range(0, 6):
            out.append(('util.%sRev2' % U, dict(words=F(U + 'rev%d' % cnt, cnt * k))))
        M = (1 << bits) - 1
        vals = [0, 1, M, M - 1, M >> 1, 1 << (bits - 1)]
        out.append(('util.%sScalars' % U, dict(vals=vals)))
        out.append(('util.%sScalars' % U, dict(vals=[1 << i for i in range(bits)])))
        out.append(('util.%sScalars' % U, dict(vals=[(1 << i) - 1 for i in range(1, bits + 1)])))
        out.append(('util.%sScalars' % U, dict(vals=[M ^ (1 << i) for i in range(bits)])))
        out.append(('util.%sScalars' % U, dict(vals=[(3 << i) & M for i in range(bits)] + [(M << i) & M for i in range(bits)])))
        for j in range(2 if q else 16):
            f = F(U + 'scal%d' % j, 32 * k)
            out.append(('util.%sScalars' % U, dict(vals=[int.from_bytes(f[i * k:i * k + k], 'little') for i in range(32)])))
    # ---- err.h: every code 0..700 and the ends of the err_t range
    for lo in range(0, 701, 50):
        out.append(('util.errMsg', dict(codes=list(range(lo, min(lo + 50, 701))))))
    out.append(('util.errMsg', dict(codes=[0xFFFFFFFF, 0xFFFFFFFE, 0x80000000, 0x7FFFFFFF, 1 << 16, 1000, 65536 + 101])))
    # ---- tm.h
    for want in ('ymd', 'ym', 'yd', 'md', 'y', 'm', 'd', ''):
        out.append(('util.tmDate', dict(want=want)))
    out.append(('util.tmDate2', dict()))
    for t0, ts in ((0, 1), (0, 30), (0, 1 << 40), (1000000000, 30), (0, 0), (5, 0), (1 << 62, 1), (1 << 62, 30)):
        out.append(('util.tmTimeRound', dict(t0=t0, ts=ts)))
    for reps, ticks in ((0, 0), (10, 0), (0, 1000), (1000, 1000000)):
        out.append(('util.tmSpeed', dict(reps=reps, ticks=ticks)))
    return out

# =============================================================================================== self-check
_SC_CFG = None
def _selfcheck_case(item):
    import common
    fname, case = item
    fn = cat.CAT[fname]
    L = common.lib(_SC_CFG)
    a = common.run_fn(L, fname, case, fill=0x00)
    b = common.run_fn(L, fname, case, fill=0xA5)
    exp = fn.ref(case) if fn.ref else None
    msg = cat.compare(a, exp) or cat.compare(b, exp)
    if msg is None and not getattr(fn, 'nondet', False) and a != b:
        msg = 'outputs depend on the fill of caller-owned memory: %s' % [k for k in a if a[k] != b.get(k)]
    if msg is None and not getattr(fn, 'nondet', False):
        # what C19 digests must be JSON-able and must survive the replay encoding
        cat.digest(a)
        import json
        assert cat.dec_case(json.loads(json.dumps(cat.enc_case(case)))) == case, 'case does not survive the replay encoding'
    return msg

def selfcheck(tier='quick', cfgs=('rel', 'w32')):
    global _SC_CFG
    cases = gen_cases(tier)
    per = {}
    for f, _ in cases:
        per[f] = per.get(f, 0) + 1
    bad = 0
    for cfg in cfgs:
        _SC_CFG = cfg
        import common
        common.lib(cfg)              # build / load once in the parent; the forked workers inherit it
        t0 = time.time()
        res = vf.pmap(_selfcheck_case, cases, case_timeout=120)
        n = 0; by = {}
        for (f, c), r in zip(cases, res):
            if r is None:
                continue
            n += 1; by[f] = by.get(f, 0) + 1
            if by[f] <= 2:          # two examples per entry
                if isinstance(r, dict):
                    r = ('HARNESS ... ' + r['harness_error'][-700:]) if r.get('harness_error') else ('%s %s' % (r.get('crash'), (r.get('stderr') or '')[-400:]))
                print('MISMATCH [%s] %s %s: %s' % (cfg, f, cat.short(c)[:100], str(r)[:800 if str(r).startswith('HARNESS') else 400]))
        if by:
            print('mismatching cases per entry [%s]: %s' % (cfg, ', '.join('%s=%d' % kv for kv in sorted(by.items()))))
        print('cfg %-4s tier %s: %d entries, %d cases, %d mismatches  (%.1f s)' % (cfg, tier, len(per), len(cases), n, time.time() - t0))
        bad += n
    print('entries: ' + ', '.join('%s=%d' % kv for kv in sorted(per.items())))
    print('total mismatches: %d' % bad)
    return 1 if bad else 0

if __name__ == '__main__':
    # the entries registered by this run live in module __main__; C07/C19 import the module as cat_util (same definitions)
    sys.exit(selfcheck(sys.argv[1] if len(sys.argv) > 1 else 'quick'))
