#!/usr/bin/env python3
"""writes MANIFEST.json from the table below (claimed checks = explorers that exist and are listed here)"""
import json, os, subprocess
V = os.path.dirname(os.path.abspath(__file__))

CHECKS = {
 'C05': dict(cat='model_checking', tech='bounded exhaustive enumeration (function x edition x operand lengths x aliasing x pattern cross product) of the real word/ww/zz/zm/gfp/pp/gf2 code against exact Python integer and GF(2)[x] formulas; complete 2^16 sweeps of the 16-bit helpers',
             text='100 catalogue entries (every public function of ww.h, zz.h, pp.h with both SAFE/FAST editions called directly) x operand lengths 0..9 (thorough 0..20; ppMul also 10..13 in quick) x documented aliasings x the cross product of the declared operand patterns '
                  '(zero, all-ones, single word / single bit at every position, B^n-1, B^n/2+-1, alternating, fillers; for modular functions 0,1,mod-1,(mod+-1)/2 and every k*mod, k*mod+-1 that fits; ~20 moduli per length: B^n-c, B^(n-1)+1, primes, even/odd, top bit set/clear): '
                  'value and returned carry/borrow/flag equal the formula, every modular result < mod; 3 400 (6 900) rings from all seven creators with the whole qr_o table over an element alphabet squared; all 65 536 inputs of every u16 helper and structured u32/u64/word sets; '
                  'scratch stacks exactly xxx_deep octets with a guard zone; 64- and 32-bit words.',
             note='trusted: ref/arith_catalogue.py (+arith_cat_*), Python int / ref/polys.py; cross product complete up to a stated tuple limit per cell, pairwise-full above', ref='4/C05'),
 'C06': dict(cat='model_checking', tech='complete enumeration of all ordered point pairs of complete small curves and closed subgroups, and of every scalar 0..2*ord+2 in every word layout, on the real ec/ecp/ec2 code against an affine group-law reference',
             text='ecpSWU on every standard prime curve (Crandall, Barrett, Montgomery fields) and group validators on all 22 standard curves (order at and beyond both exact Hasse boundaries; IsSafeGroup thresholds around the embedding degree of small prime orders). GF(p): complete curves over p in {11, 13, 251 (, 1021)} of every group class (prime/odd order, one or three points of order 2, A = -3, A = 0, B = 0): every ordered pair (P, Q) incl. O through add/sub/adda/suba and neg/dbl/tpl/toa/froma/dbla with projective inputs scaled by 4 factors, 4 representations of O, aliasings c=a, c=b, a=b; '
                  'ecpIsOnA on all raw (x, y) in [0, p+1]^2; ecpIsValid / ecpSeemsValidGroup / ecpIsSafeGroup on 42 (66) curves with known group order and embedding degree (thresholds around it, composite / anomalous orders, Hasse violations, base off the curve); every scalar k in 0..2*ord+2 in four word layouts and lengths selecting every NAF window width; ecHasOrderA, ecAddMulA with 1-3 terms; closed subgroups of order 72/210 over ten multi-word primes (Plain, Montgomery, Crandall rings, 2..8 words); '
                  'ec2: complete subfield curves E(GF(2^d)), d in {5, 7, 11}, inside GF(2^70..110); SWU on every admissible field element of 30 (48) curves; boundary points x scalars on 22 standard curves; exact xxx_deep stacks with guard zones; 64- and 32-bit words.',
             note='trusted: ref/ecp.py, ref/ec2.py (vector-gated); gf2Create refuses fields below one word, hence subfield curves for the binary case', ref='4/C06'),
 'C08': dict(cat='model_checking', tech='exhaustive enumeration of all octet / character strings up to a length bound through every decoder on exact-size buffers (ASan redzones and guard pages), structure-aware mutation classes of valid encodings, against a spec-level grammar model; encoder boundary alphabets decoded back',
             text='All octet strings of length 0..2 (thorough 0..3) plus 3-/4-octet families with long-tag and long-length introducers through a 16-decoder DER battery (TL, TLV, validity, SIZE, UINT, BIT, OCT, OID, PSTR, SEQ anchors), all strings of length 0..3 (0..4) over a 76-character alphabet through hex/base64/decimal, '
                  'all APDU strings of length 0..7 over 5 octets and every Lc/Le form product, every tag word / length / SIZE / OID / APDU boundary value through the encoders and back; 140 mutation classes over 38 valid encodings (bign parameters, CV certificates, bpki containers, SM-protected APDUs: truncation at every prefix, every tag and length form, INTEGER and OID malformations, inconsistent nesting): '
                  'no read outside the exact-size input, consumed <= input, accept iff the grammar accepts, accepted input re-encodes to itself, encoder output decodes to the value.',
             note='trusted: ref/codec.py, ref/codec_st.py (vector-gated), ASan runtime, guard pages; length SIZE_MAX is outside the implementation limit in both directions', ref='4/C08'),
 'C16': dict(cat='model_checking', tech='bounded exhaustive enumeration of boundary-class tuples (parameter set x private key x hash x generator tape x signature length) and of every single-bit / boundary alteration of signature, key and hash on the real code against spec-level references of the verification equations',
             text='bign96, g12s (8 sets), dstu (10 curves, base point generated per DSTU 6.8), pfok: private keys {1,2,q-2,q-1,filler} x hashes {0,1,all-ones,q,q+1,filler, DSTU truncation classes} x tape shapes (rejections, values >= q, 64/65 rejections) x admissible ld: generated pairs validate and equal the reference sampling, sign = reference where defined and verifies; '
                  'every signature bit, r,s in {0,q,q+r}, every public-key bit and hash alteration accepted iff the reference equation accepts (rows engineered to s = 0, r = 0, t = 0); dependent public keys (d in {1, order - 1}: Q = +-base point) x 48 (400) (hash, nonce) fillers per set with verify(sign) = OK; dstu compress/recover round trip incl. x = 0 and both trace classes; pfok DH / MTI symmetric and = pow(). The reference corpus is executed by the 64-bit and by the 32-bit word build.',
             note='trusted: ref/bign.py, ref/g12s.py, ref/dstu.py, ref/ec2.py, ref/pfok.py (vector-gated)', ref='4/C16'),
 'C12': dict(cat='model_checking', tech='complete enumeration of finite domains (date tuples over an octet alphabet, every integer below 2^16/2^24 and in boundary windows, every binary polynomial of degree <= 16) and of field x perturbation tables of every standard parameter set on the real validators against independent references',
             text='ecpIsValid on every coefficient pair over Z/p for p <= 49 (255) incl. composite and too small moduli, engineered singular curves over 16-bit primes; ec2IsValid over standard and reducible polynomials; xxxSeemsValidGroup / xxxIsSafeGroup on the 22 standard curves with the order moved across the exact Hasse boundary; tmDateIsValid2 on all 6-tuples over a 9- (thorough 15-) symbol octet alphabet, tmDateIsValid on every (y,m,d) of [1580,2105]x[0,13]x[0,32]; priIsPrimeW for EVERY n < 2^16 (2^24) and windows around 2^31, 2^32, 2^63, 2^64-1 and the Miller-Rabin base-set limits in both word sizes, Carmichael numbers < 10^10 (10^11), p(k(p-1)+1) families, strong pseudoprimes, products of standard primes/orders, multi-word Chernick numbers; '
                  'priNextPrimeW/priNextPrime from every start < 2^16 and the last 2^12 values below 2^l; priIsSieved/priIsSmooth likewise; ppIsIrred/belsValM on all polynomials of degree <= 16 and structured degree-128/192/256 families; '
                  '30 standard parameter sets (bign, bign96, g12s, stb99, dstu, pfok) validate and each field x 45-85 perturbations gets the reference verdict; generators as trace conformance: bignParamsGen with scripted on_seed / calc_q callbacks (seeds before the standard one, bad orders, callback errors, 2^64 seed wrap) and pfokParamsGen / stb99ParamsGen must show the callback trace and result of the reference run of alg. 6.1.3 / the prime chain; priIsSGPrime on every odd prime < 2^16 (2^20) and word-boundary windows; public keys / key pairs at every boundary (off-curve, twist, x,y = p, p + x0, (0,0), d in {0,1,q-1,q,q+1}).',
             note='trusted: ref/pri.py (sieve + deterministic Miller-Rabin), ref/polys.py, ref/dates.py, scheme references (vector-gated); priRMTest uses an internal generator: composites are asserted rejected only with >= 24 iterations', ref='4/C12'),
 'C13': dict(cat='model_checking', tech='complete enumeration of (length, key family, count, threshold, ordered subset) for counts 1..6 and a stated structured family for counts 7..16 on the real bels code against a spec-level GF(2)[x] reference',
             text='len {16,24,32} x key family {standard, belsGenMi from tapes, belsGenMid from identifiers} x count 1..6 (quick 1..5 + 6 with filler values) x threshold 1..count x secret {0,1,FF..,filler} x generator output {00..,FF..,filler} x EVERY ordered subset of every size: '
                  'each share = ((x^l + m0) k + s) mod mi from the reference with exactly (threshold-1) len tape octets consumed; recovery from >= threshold shares in any order = the secret; below threshold = the reference CRT value (and not the secret for filler values); '
                  'counts 7..16: cyclic windows, rotations and reversals (bounded, reported as such); key generation = reference, valid, distinct from m0, deterministic in the identifier; duplicated keys / numbers -> ERR_BAD_PUBKEY.',
             note='trusted: ref/bels.py, ref/polys.py (vector-gated)', ref='4/C13'),
 'C02': dict(cat='model_checking', tech='bounded exhaustive enumeration of boundary-class tuples (private key x hash x OID x generator tape x t x key length) on the real bign code against a spec-level reference; every single-bit flip and boundary substitution of every verifier input judged by the reference equations',
             text='3 standard curves x private keys {1,2,q-2,q-1,appendix,filler} x hashes {0,1,q-1,q,q+1,2^2l-1,...} x OIDs x 12 generator tape shapes (values in [q,p), 64/65 rejections) x deterministic-signature t classes: sign/sign2/idsign/idsign2 = reference value and verify; '
                  'engineered (d,k,H) with H >= q hitting every branch of the final subtraction; key generation = reference rejection sampling and passes validation; DH symmetric; key transport inverse for lengths 16..48; '
                  'bignVerify/bignKeyUnwrap/bignIdExtract/bignIdVerify accept an altered input (every single bit; s1 := q, s1+q; x,y := p, p+x; off-curve, twist, (0,0)) iff the reference equations accept.',
             note='trusted: ref/bign.py + ref/ecp.py (vector-gated); value dimension by boundary alphabets', ref='4/C02'),
 'C04': dict(cat='model_checking', tech='exhaustive enumeration of protocol histories with one adversary action (every octet of every message x masks, point substitutions, mismatches, validator errors, every channel-call fault of the Run drivers) on the real code; relational oracle + spec-level reference for honest runs',
             text='3 curves x {BMQV, BSTS, BPACE, BAUTH} x admissible (kca,kcb) x hello shapes x tapes (incl. multipliers engineered to 0): honest runs succeed with equal keys (= ref/bake.py), step by step and through RunA/RunB against a scripted channel; '
                  'ONE adversary action per run: flip of every octet of every message, 18 point substitutions on every point-carrying message, length changes, mismatched passwords/keys/certificates/hello, each validator call failing, '
                  'every read/write call index answering an error / short read / premature end: never all-OK with equal keys, error where confirmation exists, invalid points refused by the receiving step, drivers leave nothing allocated; '
                  'authenticated insider: BSTS M2 / M3 and BAUTH M3 re-sealed by the reference model (correct tag, correctly encrypted body) with the signature scalar in {q, q + 1, 2^2l - 1}, its aliases s + q of engineered small s, and foreign / off-curve / mis-sized certificates: the receiving step must refuse, the honest control must be accepted. '
                  'The -P substitution where the standards use x-coordinates only is listed as a known finding.',
             note='trusted: ref/bake.py, ref/ecp.py; certificate validator and channel are drv/vh_c04.c', ref='4/C04'),
 'C17': dict(cat='model_checking', tech='explicit-state search (BFS on raw state bytes of both secure-messaging endpoints) with tamper probes at every reached state; exhaustive chain/alteration enumeration for CV certificates and key containers against a spec-level reference',
             text='CVC: key lengths {24,32,48,64} x name lengths 7..13 squared x 16 date classes x access-word classes: Wrap = reference certificate, Unwrap/Check/Match agree; chains of depth 1..3 over {name match/mismatch/prefix} x 6 validity relations x {right, wrong, wrong-length signer}, accepted iff the btok.h rules hold; '
                  'every octet of 9 certificates altered (quick 1 mask, thorough 8): never accepted as the same content. Secure messaging: BFS to depth 6 over wrap/unwrap/CtrInc events for every Lc/Le form x data lengths (quick: 12 boundary lengths, thorough 0..300), dedup on the state bytes; in-step recovery exact, wrong parity refused with state unchanged, every tampered octet refused. '
                  'bpki containers: right password -> key; wrong password, altered octet, truncation/extension -> error, no key octets released. Certificates created / issued / validated while the process-wide RNG is active (entropy hook H3) for all 16 (issuer, holder) key-length pairs.',
             note='trusted: ref/tok.py (vector-gated: STB 34.101.79 example, bee2evp CSR), ref/belt.py, ref/bign.py', ref='4/C17'),
 'C14': dict(cat='model_checking', tech='control-flow trace enumeration of the shipped machine code under x86 single-step over a secret-value alphabet per public shape (set of traces must have size 1); exhaustive SAFE-vs-FAST differential over the same alphabet',
             text='For every SAFE/FAST pair the sources declare (33; a new pair without a descriptor is itself reported), every operand length 0..8 (thorough 0..16) words / octet counts 0..33 (0..69) and every modulus class: '
                  'both editions are called on every tuple of the secret alphabet (equal, first difference at every position in both directions, boundaries, multiples of the modulus) and must agree (reductions also with the exact formula), '
                  'and the regular edition is executed under the trap flag on every tuple: the set of distinct instruction-address traces (library and libc, allocator excluded) per (build, routine, shape) must be a singleton. '
                  'Same for beltMAC/DWP/CHE/Hash/HMAC StepV(2), bashHashStepV over keys x data x {right tag, tag wrong in each octet} (one trace including accept/reject), beltKWPUnwrap (one trace per outcome), '
                  'and the primitives beltBlockEncr/Decr, beltWBLStepE/D, beltCompr, bashF over keys x data; on the gcc -O2 and -O3 codegens (thorough: also clang -O2, gcc -O1).',
             note='trusted: x86 TF single-step delivery by the kernel, compilers; secret values by alphabets, lengths/moduli enumerated; data-access addresses not compared (safe.h excludes cache effects)', ref='4/C14'),
 'C19': dict(cat='model_checking', tech='exhaustive replay of the bounded shape corpora on 14 differently built copies of the real library; differential oracle against the primary configuration',
             text='The octet-string level corpora of the functional checks (every length / level / alphabet class within their bounds) are executed by each configuration of the build matrix '
                  '(64/32-bit words, SAFE/SAFE_FAST, NDEBUG on/off, -O0/-O1/-O2/-O3, gcc/clang, BASH_64/32/SSE2/AVX2/AVX512) and the digest of (err_t, outputs) must equal the primary configuration '
                  'for every case; word-level functions are compared with exact integers in both word sizes by C05/C06. Stateful layer: the explicit-state searches of the bash automaton (C03) and of every Start/Step/Get bundle (C10) are executed by 8 (thorough 13) other configurations, among them every bash-f platform variant.',
             note='trusted: the compilers; B_PER_W=32 on the LP64 ABI stands for the 32-bit configuration (no 32-bit libc here)', ref='4/C19'),
 'C15': dict(cat='fault_enumeration', tech='deallocator monitor (link-time --wrap) over every exit of every secret-taking call: success, authentication failure and each enumerated allocation-fault index',
             text='Every block handed back to the allocator during a secret-taking high-level call is snapshotted at the moment of release and scanned for 8-octet windows of the secret inputs, their '
                  'expanded forms (belt key schedule, HMAC ipad/opad, hashed long keys), module-specific derived secrets and -- on failing unwraps of authentic tokens -- the content the token protects, on the success exit, on authentication-failure exits (one representative of every (function, altered field) class at least) and on every '
                  'allocation-fault exit (fail exactly the i-th allocation, for all i; fail every allocation from the i-th on, for all i); the success exit of overlap-tolerant functions also under the buffer placements of C11.',
             note='trusted: link-time --wrap of free/realloc; needle derivation from the reference models; constant keys skipped (indistinguishable from wiped memory)', ref='4/C15'),
 'C09': dict(cat='fault_enumeration', tech='exhaustive fault-point enumeration (fail exactly the i-th allocation for every i; fail every allocation from the i-th on for every i) plus exhaustive argument-boundary sweeps, a NULL-pointer sweep over every pointer argument, and single-bit authentication corruptions on the real code under ASan',
             text='For every high-level call of the corpora the number N of allocation points is measured and the call is re-run N times with exactly the i-th allocation failing (malloc and realloc, realloc always moving): '
                  'it must return an error, leave nothing allocated and not crash; the same with memory staying exhausted from the i-th point on; each length/scalar argument is swept across and beyond its documented domain and must give the documented error class with all writes '
                  'inside exact-size buffers; NULL-pointer sweep: each pointer argument of 133 err_t functions in turn passed as NULL (77 at catalogue level, 56 more at the call inside protocol / token composites through an '
                  'interceptor), skipped exactly where the header text allows a null pointer: an error of a documented class, never a crash or assertion; every single-bit corruption of tag/header/ciphertext and every '
                  'authentic-token-with-other-header case makes unwrap fail without releasing any 8-octet window of the plaintext.',
             note='trusted: link-time --wrap of the allocator, ASan runtime, error classes transcribed from the headers', ref='4/C09'),
 'C10': dict(cat='model_checking', tech='explicit-state search (BFS) over (position, raw bytes of the real state blob) with every admissible fragment length, Get/Verify and relocation as transitions',
             text='For each Start/Step/Get bundle the reachable set of (position, state bytes) nodes is closed under Step(f) for every admissible fragment length, Get/Get2/Verify (continuing from the state after Get '
                  'where the header allows it) with every transition executed on a relocated copy of the state while the vacated locations stay poisoned, and with every buffer that was handed to Start poisoned and released as soon as Start returns (unless the header obliges the caller to keep it); since the code is a deterministic function of (state bytes, '
                  'fragment) this covers every partition of the message into any number of fragments with Get/Verify and moves interleaved anywhere; invariant: equality with the one-shot function.',
             note='trusted: gcc -O2 build; one-shot functions tied to the standards by C01/C03; bash states restored in place (relocation not documented for bash)', ref='4/C10'),
 'C07': dict(cat='model_checking', tech='exhaustive replay of the bounded shape corpora on sanitizer-instrumented real code with exact-size allocations; two-fill non-interference',
             text='The complete corpora of the functional properties (every length / level / alphabet / count in the stated bounds) are executed on the real code built with AddressSanitizer + bounds, '
                  'ASSERT active and exact-size blobs (page size 1), each caller buffer / state / stack in its own allocation of exactly the documented size, in the 64-bit and 32-bit word configurations; '
                  'each case runs twice with all caller-owned memory pre-filled with 0x00 and 0xA5 and the results must coincide. Failing exits included: the authentication-failure classes of C09 on the same exact-size buffers.',
             note='trusted: ASan/-fsanitize=bounds runtime of clang 14, the library ASSERTs; alignment/signed-overflow UBSan kinds deliberately not deciding (see DESIGN sec. 2)', ref='4/C07'),
 'C11': dict(cat='model_checking', tech='exhaustive enumeration of buffer placements (every dest-src offset x auxiliary-input positions) on the real code; relational oracle = disjoint-buffer run',
             text='For every function whose header says its buffers may overlap: every relative offset of dest against src in [-(len+16), len+16] x each auxiliary input (key, IV, header, MAC, associated data) '
                  'outside / at three positions inside the output region, excluding the combinations the header forbids; memMove and memJoin completely on a 20-octet arena; key-inside-state for every *Start and '
                  'result-inside-state for every StepG the headers list; outputs and err_t must equal the run on pairwise disjoint copies.',
             note='trusted: gcc -O2 build; the list of overlap-tolerant functions was extracted from the headers', ref='4/C11'),
 'C03': dict(cat='model_checking', tech='bounded exhaustive shape enumeration against spec-level reference models; explicit-state search of the bash automaton over byte snapshots of the real state',
             text='bash-f on all single-bit states, bash hash on every level x every length 0..2r+1, brng CTR/HMAC on IV classes whose counter carries out of every word and wraps all 256 bits with every '
                  'chunking class, HOTP/TOTP/OCRA over the suite grammar with verify accept/reject, all compared with independent spec-level models; the programmable automaton is searched to depth 2-4 from 54 '
                  'initial states with data lengths {0,1,r-1,r,r+1,2r}, every transition compared with the model and Decr checked to invert Encr from the same predecessor state. bash-f and the hash cases also in the BASH_32 / SSE2 / AVX2 / AVX512 builds.',
             note='trusted: ref/bash.py, ref/brng.py, ref/botp.py (vector-gated), gcc -O2 build', ref='4/C03'),
 'C01': dict(cat='model_checking', tech='bounded exhaustive shape enumeration of the real belt code against a spec-level reference model; complete finite domain for the FMT block count',
             text='Every belt mechanism on the full cross product of key length/value classes x IV classes (incl. counters that carry out of every word and wrap 2^128) x data classes x EVERY length in the range '
                  'crossing all internal block/threshold boundaries, compared octet-for-octet with an independent specification-level model (gated by the appendix vectors) and inverted; unwrap '
                  'rejects all single-bit alterations; the FMT block count is checked on its complete domain (2..65536 x 1..300).',
             note='trusted: ref/belt.py (vector-gated), gcc -O2 build; operand values by alphabets, shapes exhaustive within bounds', ref='4/C01'),
 'C18': dict(cat='model_checking', tech='stateless preemption-bounded schedule enumeration (DFS, forked executions) of the real mt.c/rng.c under a serialising scheduler with vector-clock race detection; linearisation replay; free-running ThreadSanitizer pass',
             text='All schedules with <= 2 (thorough: 3) preemptions of 2-3 thread programs over {rngCreate, rngStepR, rngStepR2, rngRekey, rngIsValid, rngClose, utilOnExit}, '
                  'mtCallOnce and the atomic counter primitives, choice points at every mutex/CAS/atomic operation of the real code; on each schedule a '
                  'happens-before race detector over all instrumented accesses, deadlock/livelock detection, run-once / visibility / balance oracles and a '
                  'sequential replay of the observed lock order; requests of mixed lengths (shorter than / equal to / longer than the reserve of a partly used block) with the oracle that no 8 octets of generator output reach two requests; plus the same bodies free-running with up to 16 threads under ThreadSanitizer.',
             note='trusted: clang TSan instrumentation (as access hooks), own scheduler/vector clocks (drv/c18/vsched.c), sequential consistency at sync-op granularity', ref='4/C18'),
 'C20': dict(cat='model_checking', tech='explicit-state search of the extracted 64x9 transition graph x history monitors; Spin re-check; exhaustive depth-bounded trace conformance on the live object',
             text='Complete: the transition function is extracted from the real btokPwdTransition on all 64 states x 9 events; the product with the '
                  'history monitors (consecutive wrong PINs, CAN since second wrong PIN) is searched exhaustively from the 16 persistent states with '
                  'no authentication; Spin checks the same graph independently; all 9^depth event sequences are replayed on one live C object.',
             note='trusted: gcc build of the working tree, state-name semantics from btok.h, Spin 6.5 as second checker', ref='4/C20'),
}
PENDING = {}
for i in range(1, 21):
    pid = 'C%02d' % i
    if pid not in CHECKS:
        PENDING[pid] = 'check not built yet in this tree state (construction in progress, see DESIGN.md sec. 8); not claimed'

def main():
    hooks = subprocess.run(['git', '-C', '/repo', 'log', '--format=%H %s'], stdout=subprocess.PIPE, text=True).stdout.splitlines()
    hook_commits = [l.split()[0] for l in hooks if 'verif hook' in l]
    m = {
        'version': 1,
        'setup_cmd': 'python3 build.py --setup',
        'hooks': {
            'guard': 'BEE2_VERIF',
            'enable': 'build.py compiles /repo/src/**/*.c itself with -DBEE2_VERIF (entropy seam H3), -DBEE2_VERIF_BLOB_PAGE_SIZE=1 (exact-size blobs, '
                      'sanitizer/assert configurations) and -DBEE2_VERIF_W32 (32-bit words on LP64) per build configuration',
            'baseline_off_cmd': './baseline_off.sh',
            'source_commits': hook_commits[::-1],
            'add_only': True,
        },
        'engines': [
            {'name': 'vf', 'path': 'vf.py', 'serves_properties': sorted(CHECKS), 'kind_free_text': 'ctypes on the real object code, exact-size buffers, crash-resilient fork pool, evidence/replay/known-findings'},
            {'name': 'build', 'path': 'build.py', 'serves_properties': sorted(CHECKS), 'kind_free_text': 'content-hashed builds of the working tree in the configuration matrix'},
        ],
        'checks': [],
        'not_applicable': [{'property_id': k, 'reason': v} for k, v in sorted(PENDING.items())],
        'notes': 'See DESIGN.md. Every check rebuilds from /repo\'s working tree (content-hash cache under /verif/build).',
    }
    for pid in sorted(CHECKS):
        c = CHECKS[pid]
        m['checks'].append({
            'property_id': pid,
            'quick_cmd': './vcheck %s --tier quick' % pid,
            'thorough_cmd': './vcheck %s --tier thorough' % pid,
            'evidence_file': 'evidence/%s.json' % pid,
            'replay_cmd_template': './vcheck --replay {path}',
            'engine': 'vf',
            'level_claimed': {'category': c['cat'], 'text': c['text'], 'design_ref': c['ref']},
            'level_note': c['note'],
            'technique': c['tech'],
        })
    json.dump(m, open(os.path.join(V, 'MANIFEST.json'), 'w'), indent=1)
    print('MANIFEST.json: %d checks, %d not claimed' % (len(m['checks']), len(m['not_applicable'])))

if __name__ == '__main__':
    main()
