#!/usr/bin/env python3
"""Reference model for bee2 core/tm.h dates (tmDateIsValid, tmDateIsValid2).

tm.h: a date is (year y, month m, day d); months 1..12, days 1..28/29/30/31; dates with
y < 1583 are invalid (Gregorian calendar introduced in 1582). YYMMDD form: 6 octets, EACH
OCTET IS ONE DECIMAL DIGIT (0..9) of the date; the two year digits are a year of the current
(21st) century, i.e. 2000..2099.

API
---
date_is_valid(y, m, d)   -> bool   (via datetime.date; Gregorian 400-year periodicity for y > 9999)
date6_is_valid(octets)   -> bool   (6 octets, every octet in 0..9, year 2000 + YY)
date6_encode(y, m, d)    -> bytes  (2000 <= y <= 2099)
date6_decode(octets)     -> (y, m, d) or None
"""
import datetime
import json
import os
import sys


def date_is_valid(y, m, d):
    if not (isinstance(y, int) and isinstance(m, int) and isinstance(d, int)):
        return False
    if y < 1583 or m < 1 or d < 1 or m > 12 or d > 31:
        return False
    if y > 9999:
        # Gregorian calendar has period 400 years
        y = 2000 + y % 400
    try:
        datetime.date(y, m, d)
    except ValueError:
        return False
    return True


def date6_decode(date):
    date = bytes(date)
    if len(date) != 6 or any(c > 9 for c in date):
        return None
    return 2000 + 10 * date[0] + date[1], 10 * date[2] + date[3], 10 * date[4] + date[5]


def date6_is_valid(date):
    t = date6_decode(date)
    return t is not None and date_is_valid(*t)


def date6_encode(y, m, d):
    if not (2000 <= y <= 2099 and date_is_valid(y, m, d)):
        raise ValueError
    yy = y - 2000
    return bytes([yy // 10, yy % 10, m // 10, m % 10, d // 10, d % 10])


def selftest(path=None):
    path = path or os.path.join(os.path.dirname(os.path.abspath(__file__)), 'vectors', 'dates.json')
    with open(path) as f:
        V = json.load(f)
    n = 0
    for t in V['ymd']:
        assert date_is_valid(t['y'], t['m'], t['d']) == t['valid'], t
        n += 1
    for t in V['date6']:
        b = bytes.fromhex(t['date'])
        assert date6_is_valid(b) == t['valid'], t
        if t['valid']:
            assert date6_encode(*date6_decode(b)) == b
        n += 1
    # exhaustive consistency with an independent leap-year rule for 1583..2500
    for y in list(range(1583, 2501)) + [10000, 12000, 12100, 2**32, 2**64 - 1]:
        leap = y % 4 == 0 and (y % 100 != 0 or y % 400 == 0)
        days = [31, 29 if leap else 28, 31, 30, 31, 30, 31, 31, 30, 31, 30, 31]
        for m in range(0, 14):
            for d in range(0, 33):
                assert date_is_valid(y, m, d) == (1 <= m <= 12 and 1 <= d <= days[m - 1])
    n += 1
    print('OK %d vectors' % n)
    return 0


if __name__ == '__main__':
    if '--selftest' in sys.argv:
        sys.exit(selftest())
    print(__doc__)
