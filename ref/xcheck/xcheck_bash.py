#!/usr/bin/env python3
"""Development aid: cross-check ref/bash.py against a bee2 shared library.
usage: xcheck_bash.py [libbee2.so] [seed] [n_scripts]
Prints the number of comparisons and every disagreement (with exact inputs)."""
import ctypes as ct, os, random, sys
sys.path.insert(0, os.path.dirname(os.path.abspath(__file__)))
import bash

lib = ct.CDLL(sys.argv[1] if len(sys.argv) > 1 else "/repo/_build/src/libbee2.so")
seed = int(sys.argv[2]) if len(sys.argv) > 2 else 1
nscripts = int(sys.argv[3]) if len(sys.argv) > 3 else 400
rnd = random.Random(seed)
for f in ("bashF_deep", "bashHash_keep", "bashPrg_keep"):
    getattr(lib, f).restype = ct.c_size_t
SZ, VP = ct.c_size_t, ct.c_void_p
ncmp, bad = 0, []

def cmp(what, got, want, inp):
    global ncmp
    ncmp += 1
    if got != want:
        bad.append((what, inp, got, want))
        print("DISAGREE %s\n  input: %s\n  C:     %s\n  model: %s" % (what, inp,
              got.hex() if isinstance(got, bytes) else got,
              want.hex() if isinstance(want, bytes) else want))

def cbuf(b): return ct.create_string_buffer(bytes(b), max(len(b), 1))

# ---- 1. bash-f
stack = ct.create_string_buffer(max(lib.bashF_deep(), 1) + 64)
def c_f(s):
    b = cbuf(s); lib.bashF(b, stack); return b.raw[:192]
states = [bytes(192), b"\xff" * 192, bytes(range(192))]
states += [bytes((1 << (i % 8)) if j == i // 8 else 0 for j in range(192)) for i in range(0, 1536, 13)]
states += [rnd.randbytes(192) for _ in range(400)]
for s in states:
    cmp("bashF", c_f(s), bash.bash_f(s), s.hex())
s = c = bytes(192)
for _ in range(100):                                  # iterated chain
    s, c = bash.bash_f(s), c_f(c)
cmp("bashF^100(0)", c, s, "0^1536")

# ---- 2. bash-hash: every level, every length 0..2r+1; one-shot + fragmented
hkeep = lib.bashHash_keep()
for l in range(16, 257, 16):
    r = 192 - l // 2
    data = rnd.randbytes(2 * r + 1)
    for n in range(2 * r + 2):
        want = bash.bash_hash(l, data[:n])
        out = ct.create_string_buffer(64)
        rc = lib.bashHash(out, SZ(l), cbuf(data[:n]), SZ(n))
        cmp("bashHash(l=%d,n=%d) rc=%d" % (l, n, rc), out.raw[:l // 4], want, data[:n].hex())
        # incremental: random cuts, StepG in the middle must not disturb
        st = ct.create_string_buffer(hkeep)
        lib.bashHashStart(st, SZ(l))
        cuts = sorted(rnd.randrange(n + 1) for _ in range(rnd.randrange(4))) + [n]
        p, desc = 0, []
        for q in cuts:
            lib.bashHashStepH(cbuf(data[p:q]), SZ(q - p), st); p = q; desc.append(q)
            if rnd.random() < 0.3:
                k = rnd.randrange(l // 4 + 1)
                lib.bashHashStepG(out, SZ(k), st)
                cmp("bashHashStepG mid l=%d cuts=%s k=%d" % (l, desc, k), out.raw[:k],
                    bash.bash_hash(l, data[:q])[:k], data[:q].hex())
        lib.bashHashStepG(out, SZ(l // 4), st)
        cmp("bashHashStepH/G l=%d cuts=%s" % (l, desc), out.raw[:l // 4], want, data[:n].hex())
        cmp("bashHashStepV ok l=%d n=%d" % (l, n), lib.bashHashStepV(cbuf(want), SZ(l // 4), st), 1, data[:n].hex())
        w2 = bytearray(want); w2[rnd.randrange(len(w2))] ^= 1 << rnd.randrange(8)
        cmp("bashHashStepV bad l=%d n=%d" % (l, n), lib.bashHashStepV(cbuf(w2), SZ(l // 4), st), 0, data[:n].hex())

# ---- 3. bash-prg: random command scripts with fragmentation
pkeep = lib.bashPrg_keep()
class S(ct.Structure):
    _fields_ = [("l", SZ), ("d", SZ), ("s", ct.c_ubyte * 192), ("buf_len", SZ), ("pos", SZ)]
def cstate(st):
    v = S.from_buffer(st); return bytes(v.s), v.pos, v.buf_len
def rlen(r):
    return rnd.choice([0, 1, rnd.randrange(8), r - 1, r, r + 1, 2 * r, 2 * r + 1,
                       rnd.randrange(3 * r), rnd.randrange(r + 1)])
def frag(n):
    k = rnd.choice([1, 1, 2, 3, 5])
    cuts = sorted(rnd.choice([0, n, rnd.randrange(n + 1)]) for _ in range(k - 1))
    return [b - a for a, b in zip([0] + cuts, cuts + [n])]

for it in range(nscripts):
    l, d = rnd.choice([128, 192, 256]), rnd.choice([1, 2])
    def annkey(force_key=None):
        a = rnd.randrange(0, 16) * 4
        k = rnd.choice([0, rnd.randrange(l // 32, 16) * 4]) if force_key is None else force_key
        return rnd.randbytes(a), rnd.randbytes(k)
    ann, key = annkey()
    st = ct.create_string_buffer(pkeep)
    lib.bashPrgStart(st, SZ(l), SZ(d), cbuf(ann), SZ(len(ann)), cbuf(key), SZ(len(key)))
    m = bash.Prg(l, d, ann, key)
    log = [("start", l, d, ann.hex(), key.hex())]
    cmp("prg state", cstate(st), m.state(), log)
    for _ in range(rnd.randrange(1, 12)):
        ops = ["absorb", "squeeze", "ratchet", "restart"] + (["encr", "decr"] if m.keyed else [])
        op = rnd.choice(ops)
        if op == "ratchet":
            lib.bashPrgRatchet(st); m.ratchet(); log.append((op,))
        elif op == "restart":
            a, k = annkey(); lib.bashPrgRestart(cbuf(a), SZ(len(a)), cbuf(k), SZ(len(k)), st)
            m.restart(a, k); log.append((op, a.hex(), k.hex()))
        else:
            C = op.capitalize()
            n = rlen(m.r)
            data = rnd.randbytes(n)
            if rnd.random() < 0.4:                    # whole-command function
                b = cbuf(data)
                getattr(lib, "bashPrg" + C)(b, SZ(n), st)
                want = getattr(m, op)(n if op == "squeeze" else data)
                log.append((op, n if op == "squeeze" else data.hex()))
                if op != "absorb":
                    cmp("prg %s out" % op, b.raw[:n], want, list(log))
            else:
                getattr(lib, "bashPrg%sStart" % C)(st); getattr(m, op + "_start")()
                log.append((op + "_start",))
                cmp("prg state", cstate(st), m.state(), list(log))
                p = 0
                for q in frag(n):
                    b = cbuf(data[p:p + q])
                    getattr(lib, "bashPrg%sStep" % C)(b, SZ(q), st)
                    want = getattr(m, op + "_step")(q if op == "squeeze" else data[p:p + q])
                    log.append((op + "_step", q if op == "squeeze" else data[p:p + q].hex()))
                    if op != "absorb":
                        cmp("prg %s_step out" % op, b.raw[:q], want, list(log))
                    cmp("prg state", cstate(st), m.state(), list(log))
                    p += q
        cmp("prg state", cstate(st), m.state(), list(log))
        if bad and bad[-1][1] is not None and len(bad) > 20:
            break

print("%d comparisons, %d disagreements" % (ncmp, len(bad)))
sys.exit(1 if bad else 0)
