import json, sys
sys.path.insert(0, '/verif/ref/xcheck')
import ctables
T = ctables.tables('/repo/src/crypto/g12s.c')
H = ctables.hexes('/repo/test/crypto/g12s_test.c')
titles = {'a1': 'test example A.1', 'cryptoproA': 'CryptoPro A', 'cryptoproB': 'CryptoPro B', 'cryptoproC': 'CryptoPro C', 'cryptocom': 'CryptoCom',
          'a2': 'test example A.2', 'paramsetA512': 'tc26 paramsetA 512', 'paramsetB512': 'tc26 paramsetB 512'}
params = {}
for key, title in titles.items():
    le = lambda f: '%x' % int.from_bytes(T['_%s_%s' % (key, f)], 'little')
    params[T['_%s_name' % key]] = {'title': title, 'l': T['_%s_l' % key], 'p': le('p'), 'a': le('a'), 'b': le('b'), 'q': le('q'), 'n': T['_%s_n' % key], 'xP': le('xP'), 'yP': le('yP')}
rev = lambda h: bytes.fromhex(h)[::-1].hex()
hx = [h[2] for h in H]
V = {'source': 'g12s.c parameter tables; g12s_test.c (GOST R 34.10-2012 appendix A.1, A.2). All octet strings as the library sees them (Rev resolved).',
     'params': params, 'keypair': [], 'sign': [], 'params_invalid': []}
for base, name in ((0, '1.2.643.2.2.35.0'), (6, '1.2.643.7.1.2.1.2.0')):
    tape_d, priv, pub, hsh, tape_k, sig = hx[base:base + 6]
    V['keypair'].append({'params': name, 'tape': rev(tape_d), 'privkey': rev(priv), 'pubkey': rev(pub)})
    V['sign'].append({'params': name, 'hash': hsh.lower(), 'privkey': rev(priv), 'tape': rev(tape_k), 'sig': sig.lower(), 'pubkey': rev(pub)})
for name in ('1.2.643.2.2.35.0', '1.2.643.7.1.2.1.2.1'):
    P = params[name]; p = int(P['p'], 16); q = int(P['q'], 16)
    V['params_invalid'] += [
        {'params': name, 'field': 'l', 'value': 384}, {'params': name, 'field': 'p', 'value': '%x' % (p + 2)},
        {'params': name, 'field': 'q', 'value': '%x' % (q + 2)}, {'params': name, 'field': 'a', 'value': '0'},
        {'params': name, 'field': 'b', 'value': '0'}, {'params': name, 'field': 'b', 'value': '%x' % (int(P['b'], 16) + 1)},
        {'params': name, 'field': 'a', 'value': '%x' % p}, {'params': name, 'field': 'xP', 'value': '%x' % (int(P['xP'], 16) + 1)},
        {'params': name, 'field': 'yP', 'value': '%x' % (p - int(P['yP'], 16) + 1)}, {'params': name, 'field': 'n', 'value': 0},
        {'params': name, 'field': 'n', 'value': P['n'] + 1}, {'params': name, 'field': 'l', 'value': 768 - P['l']}]
json.dump(V, open('/verif/ref/vectors/g12s.json', 'w'), indent=1)
