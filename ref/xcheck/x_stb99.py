from common import *
import stb99, pfok, pri, random, time
R = random.Random(99)
vp = ctypes.c_void_p; cp = ctypes.c_char_p
class PARAMS(ctypes.Structure):
    _fields_ = [('l', c_size), ('r', c_size), ('p', ctypes.c_ubyte * 308), ('q', ctypes.c_ubyte * 33), ('a', ctypes.c_ubyte * 308), ('d', ctypes.c_ubyte * 308)]
class SEED(ctypes.Structure):
    _fields_ = [('l', c_size), ('zi', ctypes.c_uint16 * 31), ('di', c_size * 18), ('ri', c_size * 10)]
assert ctypes.sizeof(PARAMS) == 976 and ctypes.sizeof(SEED) == 296, (ctypes.sizeof(PARAMS), ctypes.sizeof(SEED))
PP = ctypes.POINTER(PARAMS); SP = ctypes.POINTER(SEED)
ParamsStd = fn('stb99ParamsStd', ctypes.c_int, PP, SP, cp)
ParamsVal = fn('stb99ParamsVal', ctypes.c_int, PP)
ParamsGen = fn('stb99ParamsGen', ctypes.c_int, PP, SP)
SeedVal = fn('stb99SeedVal', ctypes.c_int, SP); SeedAdj = fn('stb99SeedAdj', ctypes.c_int, SP)
SZ = dict(p=308, q=33, a=308, d=308)
def to_c(P):
    s = PARAMS(); s.l, s.r = P['l'] % 2**64, P['r'] % 2**64
    for f, sz in SZ.items():
        if P[f] < 0 or P[f] >> (8 * sz): return None
        ctypes.memmove(getattr(s, f), P[f].to_bytes(sz, 'little'), sz)
    return s
def from_c(s): return dict(l=s.l, r=s.r, **{f: int.from_bytes(bytes(getattr(s, f)), 'little') for f in SZ})
def seed_c(S):
    s = SEED(); s.l = S['l']
    for i in range(31): s.zi[i] = S['zi'][i]
    for i in range(18): s.di[i] = S['di'][i] % 2**64
    for i in range(10): s.ri[i] = S['ri'][i] % 2**64
    return s
def seed_py(s): return {'l': s.l, 'zi': list(s.zi), 'di': list(s.di), 'ri': list(s.ri)}
dis = []; cnt = {}
def tick(k): cnt[k] = cnt.get(k, 0) + 1
def D(*a): dis.append(a); print('DISAGREE', a)
STD = {}
for name in stb99.STD_NAMES:
    s = PARAMS(); sd = SEED(); assert ParamsStd(ctypes.byref(s), ctypes.byref(sd), name.encode()) == 0; tick('std')
    P = stb99.params_std(name); STD[name] = P
    if from_c(s) != P: D('std', name)
    if seed_py(sd) != stb99.seed_std(name): D('seedstd', name)
def val_cmp(P, tag):
    s = to_c(P)
    if s is None: return
    tick('paramsval'); g = ParamsVal(ctypes.byref(s)) == 0; e = stb99.params_val(P)
    if g != e: D('paramsval', tag, {k: (hex(v) if k in 'pqad' else v) for k, v in P.items()}, 'lib', g, 'model', e)
for name, P0 in STD.items():
    val_cmp(P0, (name, 'std'))
    p, q = P0['p'], P0['q']; e = stb99.mont_R(P0) % p; small = name == 'test'
    for d in [0, 1, 2, 3, 4, 5, 6, 7, p - 1, p, e, P0['a']] + [R.randrange(1, p) for _ in range(10 if small else 2)]:
        P = dict(P0); P['d'] = d; val_cmp(P, (name, 'd only', hex(d)[:18]))
        if d < p:
            P = dict(P0); P['d'] = d; P['a'] = stb99.mont_pow(P0, d, (p - 1) // q); val_cmp(P, (name, 'd with matching a', hex(d)[:18]))
    # d of order dividing (p-1)/q: a = e
    dd = stb99.mont_pow(P0, 7, q); P = dict(P0); P['d'] = dd; P['a'] = e; val_cmp(P, (name, 'a = e'))
    for a in (0, 1, e, P0['a'] + 1, P0['a'] + p, p - P0['a'], stb99.mont_pow(P0, P0['a'], 2)):
        P = dict(P0); P['a'] = a; val_cmp(P, (name, 'a', hex(a)[:18]))
    for f, v in (('l', P0['l'] + 1), ('r', P0['r'] + 1), ('r', P0['r'] - 1), ('l', stb99.LS[(stb99.LS.index(P0['l']) + 1) % 10]), ('p', p + 2), ('p', p - 2), ('p', p | (1 << P0['l'])), ('p', 0),
                 ('q', q + 2), ('q', q - 2), ('q', 0), ('q', 1), ('q', q | (1 << P0['r'])), ('q', pri.next_prime_ge(q + 2, P0['r'] + 1) or q + 6), ('p', 2 * q * (p // (2 * q) + 1) + 1)):
        P = dict(P0); P[f] = v; val_cmp(P, (name, f))
obs = {}
def seed_cmp(S, tag):
    tick('seed')
    c = seed_c(S); g = SeedVal(ctypes.byref(c)) == 0; e = stb99.seed_val(S)
    if g != e: obs.setdefault(('seedval lib=%s model=%s' % (g, e), tag[1] if len(tag) > 1 else tag[0]), []).append((tag, {k: v for k, v in S.items() if k != 'zi'}))
    c = seed_c(S); rc = SeedAdj(ctypes.byref(c)); e = stb99.seed_adj(S)
    if (rc == 0) != (e is not None) or (rc == 0 and seed_py(c) != e): obs.setdefault(('seedadj lib_rc=%s model=%s' % (rc, 'ok' if e else None), tag[1] if len(tag) > 1 else tag[0]), []).append((tag, {k: v for k, v in S.items() if k != 'zi'}))
M = 2**64 - 1
for name in stb99.STD_NAMES:
    S0 = stb99.seed_std(name); seed_cmp(S0, (name, 'std'))
    cp_ = lambda: {'l': S0['l'], 'zi': list(S0['zi']), 'di': list(S0['di']), 'ri': list(S0['ri'])}
    for arr, size in (('di', 18), ('ri', 10)):
        for i in range(size):
            for v in (0, 16, 17, 32, 33, S0[arr][i] + 1, max(S0[arr][i] - 1, 0), M, M // 5, M // 5 - 1, M // 8, M // 8 - 1, 2**63):
                S = cp_(); S[arr][i] = v; seed_cmp(S, (name, arr, i, v))
    for i in (0, 30):
        for v in (0, 1, 65256, 65257, 65535):
            S = cp_(); S['zi'][i] = v; seed_cmp(S, (name, 'zi', i, v))
    for z in (['zi'], ['di'], ['ri'], ['di', 'ri'], ['zi', 'di', 'ri']):
        S = cp_()
        for k in z: S[k] = [0] * len(S[k])
        seed_cmp(S, (name, 'zero ' + '+'.join(z)))
for l, r in zip(stb99.LS, stb99.RS):
    seed_cmp({'l': l, 'zi': [0] * 31, 'di': [0] * 18, 'ri': [0] * 10}, ('adj', 'adj', l))
    def chain(first, size, step):
        c = [first]
        while c[-1] > 32 and len(c) < size: c.append(step(c[-1]))
        return (c + [0] * size)[:size]
    lo, hi_doc, hi_code = (l + 1) // 2, (7 * l - 8 * r) // 8, (7 * l - r) // 8
    for d0 in (lo - 1, lo, lo + 1, hi_doc - 1, hi_doc, hi_doc + 1, (hi_doc + hi_code) // 2, hi_code, hi_code + 1):
        seed_cmp({'l': l, 'zi': list(range(1, 32)), 'di': chain(d0, 18, lambda x: x // 2 + 1), 'ri': chain(r, 10, lambda x: x // 2 + 1)}, ('d0', 'di[0] bound', l, d0, 'doc max %d code max %d' % (hi_doc, hi_code)))
    # ri chains at the documented limit 5 r'/4 < r  (next = (4x-1)/5) and at the code's limit (next = (4x-17)/5)
    seed_cmp({'l': l, 'zi': list(range(1, 32)), 'di': chain(lo + 1, 18, lambda x: x // 2 + 1), 'ri': chain(r, 10, lambda x: (4 * x - 1) // 5)}, ('ri', 'ri densest chain by header', l))
    seed_cmp({'l': l, 'zi': list(range(1, 32)), 'di': chain(lo + 1, 18, lambda x: x // 2 + 1), 'ri': chain(r, 10, lambda x: (4 * x - 17) // 5)}, ('ri', 'ri chain (4x-17)/5', l))
    seed_cmp({'l': l, 'zi': list(range(1, 32)), 'di': chain(lo + 1, 18, lambda x: (4 * x - 17) // 5), 'ri': chain(r, 10, lambda x: x // 2 + 1)}, ('di', 'di densest chain', l))
    seed_cmp({'l': l, 'zi': list(range(1, 32)), 'di': chain(lo + 1, 18, lambda x: (4 * x - 16) // 5), 'ri': chain(r, 10, lambda x: x // 2 + 1)}, ('di', 'di chain (4x-16)/5', l))
    for _ in range(5):
        seed_cmp({'l': l, 'zi': list(range(1, 32)), 'di': chain(R.randint(lo, hi_doc), 18, lambda x: R.randint((x + 1) // 2, max((x + 1) // 2, (4 * x - 17) // 5))),
                  'ri': chain(r, 10, lambda x: R.randint((x + 1) // 2, max((x + 1) // 2, (4 * x - 17) // 5)))}, ('rand', 'random chains', l))
# generation
def gen_cmp(S, tag):
    t0 = time.time(); c = seed_c(S); out = PARAMS(); rc = ParamsGen(ctypes.byref(out), ctypes.byref(c)); t1 = time.time(); tick('gen')
    try: e = stb99.params_gen(S)
    except ValueError: e = None
    t2 = time.time()
    g = from_c(out) if rc == 0 else None
    if (g is None) != (e is None) or (g and any(g[k] != e[k] for k in g)): D('paramsgen', tag, S, rc, g and hex(g['p'])[:20], e and hex(e['p'])[:20])
    print('  gen', tag, 'lib %.1fs model %.1fs' % (t1 - t0, t2 - t1), 'ok' if not dis else '')
gen_cmp(stb99.seed_std('test'), 'test')
for i in range(3):
    S = stb99.seed_std('test'); S['zi'] = [R.randint(1, 65256) for _ in range(31)]; gen_cmp(S, ('638 random zi', i))
S = stb99.seed_adj({'l': 766, 'zi': [0] * 31, 'di': [0] * 18, 'ri': [0] * 10}); gen_cmp(S, '766 default')
S = {'l': 638, 'zi': list(range(1, 32)), 'di': [400, 300, 200, 120, 70, 40, 25] + [0] * 11, 'ri': [143, 100, 70, 45, 30] + [0] * 5}; gen_cmp(S, '638 custom chains')
# pfok generation
class PF(ctypes.Structure):
    _fields_ = [('l', c_size), ('r', c_size), ('n', c_size), ('p', ctypes.c_ubyte * 368), ('g', ctypes.c_ubyte * 368)]
class PS(ctypes.Structure):
    _fields_ = [('l', c_size), ('zi', ctypes.c_uint16 * 31), ('li', c_size * 20)]
pfokGen = fn('pfokParamsGen', ctypes.c_int, ctypes.POINTER(PF), ctypes.POINTER(PS), vp)
def pf_cmp(S, tag):
    c = PS(); c.l = S['l']
    for i in range(31): c.zi[i] = S['zi'][i]
    for i in range(20): c.li[i] = S['li'][i]
    t0 = time.time(); out = PF(); rc = pfokGen(ctypes.byref(out), ctypes.byref(c), None); t1 = time.time(); tick('pfokgen')
    e = pfok.params_gen(S); t2 = time.time()
    g = dict(l=out.l, r=out.r, n=out.n, p=int.from_bytes(bytes(out.p), 'little'), g=int.from_bytes(bytes(out.g), 'little'))
    if rc != 0 or any(g[k] != e[k] for k in g): D('pfokgen', tag, rc, hex(g['p'])[:20], hex(e['p'])[:20], g['g'], e['g'])
    print('  pfokgen', tag, 'candidates', e['_candidates'], 'g', e['g'], 'lib %.1fs model %.1fs' % (t1 - t0, t2 - t1))
pf_cmp(pfok.seed_std('test'), 'test')
S = pfok.seed_adj({'l': 638, 'zi': [0] * 31, 'li': [0] * 20}); pf_cmp(S, '638 default zi')
print('counts', cnt); print('disagreements', len(dis))
print('seed contract differences (library vs header-derived model), grouped:')
for k, v in sorted(obs.items(), key=lambda kv: str(kv[0])): print(' ', k, len(v), 'e.g.', v[0])
