import json, sys
sys.path.insert(0, '/verif/ref/xcheck')
import ctables
T = ctables.tables('/repo/src/crypto/pfok.c')
H = [h[2] for h in ctables.hexes('/repo/test/crypto/pfok_test.c')]
le = lambda b: '%x' % int.from_bytes(b, 'little')
params = {}
for key, zi, nn in (('_test_params', '_test_params', '_test_params'), ('_bdh_params3', '_bdh_params', '_bdh_params'), ('_bdh_params6', '_bdh_params', '_bdh_params'), ('_bdh_params10', '_bdh_params', '_bdh_params')):
    li = T[key + '_li']
    params[T[key + '_name']] = {'l': T[key + '_l'], 'r': T[key + '_r'], 'n': T[nn + '_n'], 'p': le(T[key + '_p']), 'g': le(T[key + '_g']),
                                'zi': T[zi + '_zi'], 'li': li + [0] * (20 - len(li))}
rev = lambda h: bytes.fromhex(h)[::-1].hex()
V = {'source': 'pfok.c tables (STB 34.101.50 table B.3 + NII PPMI test set), pfok_test.c vectors PFOK.ANON.1-2, PFOK.AUTH.1-2, PFOK.GENG.1-4 (Rev resolved)',
     'params': params,
     'dh': [{'params': 'test', 'privkey': rev(H[0]), 'pubkey': rev(H[1]), 'key': rev(H[2])}, {'params': 'test', 'privkey': rev(H[3]), 'pubkey': rev(H[4]), 'key': rev(H[5])}],
     'mti': [{'params': 'test', 'privkey': rev(H[6]), 'pubkey': rev(H[7]), 'privkey1': rev(H[8]), 'pubkey1': rev(H[9]), 'key': rev(H[10])},
             {'params': 'test', 'privkey': rev(H[11]), 'pubkey': rev(H[12]), 'privkey1': rev(H[13]), 'pubkey1': rev(H[14]), 'key': rev(H[15])}],
     'params_invalid': [], 'seed': []}
for name, d in (('test', 2), ('1.2.112.0.2.0.1176.2.3.3.2', 3), ('1.2.112.0.2.0.1176.2.3.6.2', 1), ('1.2.112.0.2.0.1176.2.3.10.2', 1)):
    V['params_invalid'].append({'params': name, 'field': 'g', 'value': '%x' % (int(params[name]['g'], 16) + d), 'note': 'PFOK.GENG'})
P = params['test']
V['params_invalid'] += [{'params': 'test', 'field': 'r', 'value': 131}, {'params': 'test', 'field': 'l', 'value': 639}, {'params': 'test', 'field': 'n', 'value': 638},
                        {'params': 'test', 'field': 'g', 'value': '0'}, {'params': 'test', 'field': 'g', 'value': P['p']}, {'params': 'test', 'field': 'p', 'value': '%x' % (int(P['p'], 16) + 4)}]
V['seed'] = [{'params': 'test', 'valid': True}, {'params': 'test', 'set': {'li': {'5': 0}}, 'valid': False}, {'params': 'test', 'set': {'li': {'5': (2**64 - 1) // 5 - 1}}, 'valid': False},
             {'params': 'test', 'zero_li': True, 'valid': False, 'adj_equals_std': True}, {'params': 'test', 'set': {'l': 639}, 'valid': False},
             {'params': 'test', 'set': {'zi': {'3': 0}}, 'valid': False}, {'params': 'test', 'set': {'zi': {'30': 65257}}, 'valid': False}, {'params': 'test', 'set': {'zi': {'30': 65256}}, 'valid': True},
             {'params': '1.2.112.0.2.0.1176.2.3.10.2', 'zero_li': True, 'adj_equals_std': True}]
V['gen'] = [{'params': 'test', 'candidates': 6, 'note': 'PFOK.GENP.1; candidate count from the table in pfok.c'}]
json.dump(V, open('/verif/ref/vectors/pfok.json', 'w'), indent=1)
