from common import *
import polys, random
R = random.Random(7)
vp = ctypes.c_void_p
ppMul = fn('ppMul', None, vp, vp, c_size, vp, c_size, vp)
ppMod = fn('ppMod', None, vp, vp, c_size, vp, c_size, vp)
ppGCD = fn('ppGCD', None, vp, vp, c_size, vp, c_size, vp)
ppIsIrred = fn('ppIsIrred', ctypes.c_int, vp, c_size, vp)
ppInvMod = fn('ppInvMod', None, vp, vp, vp, c_size, vp)
ppMulMod = fn('ppMulMod', None, vp, vp, vp, vp, c_size, vp)
stack = buf(1 << 20)
dis = []; cnt = {}
def tick(k): cnt[k] = cnt.get(k, 0) + 1
def D(*a): dis.append(a); print('DISAGREE', a)
def nw(a): return max(1, (a.bit_length() + 63) // 64)
for _ in range(2000):
    a = R.getrandbits(R.randint(1, 600)); b = R.getrandbits(R.randint(1, 600))
    n, m = nw(a) + R.randint(0, 1), nw(b) + R.randint(0, 1)
    c = words(0, n + m); ppMul(c, words(a, n), n, words(b, m), m, stack); tick('mul')
    if from_words(c) != polys.mul(a, b): D('ppMul', a, b)
    if b > 1:  # b == 1 (single word) crashes ppMod in the library: reported separately
        m = nw(b); n = max(nw(a), 1)
        r = words(0, m); ppMod(r, words(a, n), n, words(b, m), m, stack); tick('mod')
        if from_words(r) != polys.mod(a, b): D('ppMod', a, b)
    if a and b:
        n, m = nw(a), nw(b)
        if R.random() < .5:
            g = R.getrandbits(R.randint(1, 100)) | 1; a2, b2 = polys.mul(a, g), polys.mul(b, g)
        else: a2, b2 = a, b
        n, m = nw(a2), nw(b2)
        d = words(0, min(n, m)); ppGCD(d, words(a2, n), n, words(b2, m), m, stack); tick('gcd')
        if from_words(d) != polys.gcd(a2, b2): D('ppGCD', a2, b2)
# irreducibility: exhaustive to degree 13, random above, non-normalised n too
for f in range(0, 1 << 14):
    for n in (1, 2):
        tick('irred')
        if bool(ppIsIrred(words(f, n), n, stack)) != polys.is_irreducible(f): D('ppIsIrred', hex(f), n)
for _ in range(3000):
    d = R.randint(14, 300)
    f = R.getrandbits(d) | (1 << d) | R.randint(0, 1)
    if R.random() < .3:  # product of two irreducibles-ish of equal degree (hard case for partial tests)
        h = d // 2
        while True:
            g1 = R.getrandbits(h) | (1 << h) | 1
            if polys.is_irreducible_benor(g1): break
        while True:
            g2 = R.getrandbits(h) | (1 << h) | 1
            if polys.is_irreducible_benor(g2): break
        f = polys.mul(g1, g2)
    n = nw(f) + R.randint(0, 1)
    tick('irred')
    if bool(ppIsIrred(words(f, n), n, stack)) != polys.is_irreducible(f): D('ppIsIrred', hex(f), n)
# find irreducibles of given degree and check both agree
for d in (64, 63, 65, 127, 128, 129, 191, 192, 193, 255, 256, 257):
    found = 0
    while found < 3:
        f = R.getrandbits(d) | (1 << d) | 1
        e = polys.is_irreducible(f); tick('irred')
        n = nw(f)
        if bool(ppIsIrred(words(f, n), n, stack)) != e: D('ppIsIrred', hex(f), n)
        found += e
print('counts', cnt); print('disagreements', len(dis))
