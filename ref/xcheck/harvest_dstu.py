import json, sys
sys.path.insert(0, '/verif/ref/xcheck')
import ctables
T = ctables.tables('/repo/src/crypto/dstu.c')
H = [h[2] for h in ctables.hexes('/repo/test/crypto/dstu_test.c')]
params = {}
for key in ('163', '167', '173', '179', '191', '233', '257', '307', '367', '431'):
    k = '_curve%spb_' % key
    p = (T[k + 'p'] + [0, 0, 0])[:4]
    no = (p[0] + 7) // 8
    le = lambda b: '%x' % int.from_bytes(b, 'little')
    e = {'p': p, 'A': T[k + 'A'], 'B': le(T[k + 'B']), 'n': le(T[k + 'n']), 'c': T[k + 'c'], 'P': None}
    if k + 'P' in T:
        P = T[k + 'P']; assert len(P) == 2 * no
        e['P'] = [le(P[:no]), le(P[no:])]
    params[T[k + 'name']] = e
rev = lambda h: bytes.fromhex(h)[::-1].hex()
name = '1.2.804.2.1.1.1.1.3.1.1.1.2.0'
tape_d, priv, pubx, puby, hsh, tape_e, sig = H
V = {'source': 'dstu.c tables (DSTU 4145-2002 appendix G curves; base point only for the 163-bit curve), dstu_test.c example B.1 (Rev resolved)',
     'params': params,
     'keypair': [{'params': name, 'tape': rev(tape_d), 'privkey': rev(priv), 'pubkey': rev(pubx) + rev(puby)}],
     'sign': [{'params': name, 'ld': 512, 'hash': rev(hsh), 'privkey': rev(priv), 'pubkey': rev(pubx) + rev(puby), 'tape': rev(tape_e), 'sig': rev(sig)}],
     'params_invalid': []}
P = params[name]
V['params_invalid'] = [
    {'params': name, 'field': 'A', 'value': 2}, {'params': name, 'field': 'A', 'value': 0},
    {'params': name, 'field': 'B', 'value': '0'}, {'params': name, 'field': 'B', 'value': '%x' % (int(P['B'], 16) ^ 1)},
    {'params': name, 'field': 'n', 'value': '%x' % (int(P['n'], 16) + 2)}, {'params': name, 'field': 'n', 'value': '%x' % (int(P['n'], 16) * 3)},
    {'params': name, 'field': 'c', 'value': 3}, {'params': name, 'field': 'c', 'value': 1}, {'params': name, 'field': 'c', 'value': 0}, {'params': name, 'field': 'c', 'value': 4},
    {'params': name, 'field': 'p', 'value': [163, 7, 6, 2]}, {'params': name, 'field': 'p', 'value': [163, 8, 0, 0]}, {'params': name, 'field': 'p', 'value': [159, 7, 6, 3]},
    {'params': name, 'field': 'p', 'value': [163, 7, 0, 3]},
    {'params': name, 'field': 'P', 'value': [P['P'][0], '%x' % (int(P['P'][1], 16) ^ 1)]}, {'params': name, 'field': 'P', 'value': ['0', '0']},
    {'params': name, 'field': 'P', 'value': [P['P'][1], P['P'][0]]},
]
json.dump(V, open('/verif/ref/vectors/dstu.json', 'w'), indent=1)
