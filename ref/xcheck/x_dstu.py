from common import *
import dstu, random
R = random.Random(4145)
vp = ctypes.c_void_p; cp = ctypes.c_char_p
GEN = ctypes.CFUNCTYPE(None, vp, c_size, vp)
class TapeGen:
    def __init__(self, data): self.data = bytes(data); self.pos = 0; self.cb = GEN(self.call); self.over = False
    def call(self, bufp, count, state):
        chunk = self.data[self.pos:self.pos + count]
        if len(chunk) < count: self.over = True; chunk = chunk + b'\x01' * (count - len(chunk))
        ctypes.memmove(bufp, chunk, count); self.pos += count
class PARAMS(ctypes.Structure):
    _fields_ = [('p', ctypes.c_uint16 * 4), ('A', ctypes.c_ubyte), ('B', ctypes.c_ubyte * 64), ('n', ctypes.c_ubyte * 64), ('c', ctypes.c_uint32), ('P', ctypes.c_ubyte * 128)]
assert ctypes.sizeof(PARAMS) == 272, ctypes.sizeof(PARAMS)
PP = ctypes.POINTER(PARAMS)
ParamsStd = fn('dstuParamsStd', ctypes.c_int, PP, cp)
ParamsVal = fn('dstuParamsVal', ctypes.c_int, PP)
PointGen = fn('dstuPointGen', ctypes.c_int, cp, PP, GEN, vp)
PointVal = fn('dstuPointVal', ctypes.c_int, PP, cp)
PointCompress = fn('dstuPointCompress', ctypes.c_int, cp, PP, cp)
PointRecover = fn('dstuPointRecover', ctypes.c_int, cp, PP, cp)
KeypairGen = fn('dstuKeypairGen', ctypes.c_int, cp, cp, PP, GEN, vp)
Sign = fn('dstuSign', ctypes.c_int, cp, PP, c_size, cp, c_size, cp, GEN, vp)
Verify = fn('dstuVerify', ctypes.c_int, PP, c_size, cp, c_size, cp, cp)
def to_c(P):
    s = PARAMS()
    for i in range(4): s.p[i] = P['p'][i]
    s.A = P['A'] & 0xFF; s.c = P['c'] & 0xFFFFFFFF
    no = (P['p'][0] + 7) // 8
    if P['B'] >> 512 or P['n'] >> 512: return None
    ctypes.memmove(s.B, P['B'].to_bytes(64, 'little'), 64); ctypes.memmove(s.n, P['n'].to_bytes(64, 'little'), 64)
    if P.get('P'):
        if P['P'][0] >> (8 * no) or P['P'][1] >> (8 * no): return None
        pt = P['P'][0].to_bytes(no, 'little') + P['P'][1].to_bytes(no, 'little'); ctypes.memmove(s.P, pt, len(pt))
    return s
dis = []; obs = []; cnt = {}
def tick(k): cnt[k] = cnt.get(k, 0) + 1
def D(*a): dis.append(a); print('DISAGREE', a)
def hx(P): return {k: (hex(v) if isinstance(v, int) and k in ('B', 'n') else (tuple(map(hex, v)) if k == 'P' and v else v)) for k, v in P.items()}
STD = {}
for name in dstu.STD_NAMES:
    s = PARAMS(); assert ParamsStd(ctypes.byref(s), name.encode()) == 0; tick('std')
    P = dstu.params_std(name); no = (P['p'][0] + 7) // 8
    got = dict(p=tuple(s.p), A=s.A, B=int.from_bytes(bytes(s.B), 'little'), n=int.from_bytes(bytes(s.n), 'little'), c=s.c)
    if got != {k: P[k] for k in got}: D('std', name)
    # base point generation from a tape
    tape = R.randbytes(no * 200); tg = TapeGen(tape); pt = buf(2 * no)
    rc = PointGen(pt, ctypes.byref(s), tg.cb, None); tick('pointgen')
    e = dstu.point_gen(P, tape)
    if rc != 0 or tg.over or pt.raw != dstu.encode_point(P, e): D('pointgen', name, tape[:4 * no].hex())
    if P['P'] is None: P['P'] = e
    STD[name] = P
# extra pointgen runs incl. x = 0 and tiny x candidates first
for name in dstu.STD_NAMES[:5]:
    P = STD[name]; no = (P['p'][0] + 7) // 8; s = to_c(P)
    for _ in range(6):
        tape = bytes(no) + (1).to_bytes(no, 'little') + b'\xff' * no + R.randbytes(no * 200); tg = TapeGen(tape); pt = buf(2 * no)
        rc = PointGen(pt, ctypes.byref(s), tg.cb, None); tick('pointgen')
        e = dstu.point_gen(P, tape)
        if rc != 0 or tg.over or pt.raw != dstu.encode_point(P, e): D('pointgen', name, tape[:4 * no].hex())
def val_cmp(P, tag):
    s = to_c(P)
    if s is None: return
    tick('paramsval')
    g = ParamsVal(ctypes.byref(s)) == 0; e = dstu.params_val(P)
    if g != e: D('paramsval', tag, hx(P), 'lib', g, 'model', e)
for name, P0 in STD.items():
    val_cmp(P0, (name, 'std+P'))
    m = P0['p'][0]
    for f in ('B', 'n'):
        for delta in (1, -1, 2):
            P = dict(P0); P[f] = P0[f] + delta; val_cmp(P, (name, f, delta))
        for bit in R.sample(range(m - 1), 2):
            P = dict(P0); P[f] = P0[f] ^ (1 << bit); val_cmp(P, (name, f, 'bit', bit))
        P = dict(P0); P[f] = 0; val_cmp(P, (name, f, 0))
    P = dict(P0); P['B'] = P0['B'] | (1 << m); val_cmp(P, (name, 'B deg m'))
    for c in (0, 1, 2, 3, 4, 5, 8, 2**32 - 1):
        P = dict(P0); P['c'] = c; val_cmp(P, (name, 'c', c))
    for A in (0, 1, 2, 255):
        P = dict(P0); P['A'] = A; val_cmp(P, (name, 'A', A))
    x, y = P0['P']
    for tag, pt in (('y^1', (x, y ^ 1)), ('x^1', (x ^ 1, y)), ('(0,0)', (0, 0)), ('-P', (x, x ^ y)), ('2P', dstu.ec_mul(P0, 2, P0['P'])), ('swap', (y, x)), ('x deg m', (x | 1 << m, y)) if m % 8 else ('y^2', (x, y ^ 2)),
                    ('order2', (0, dstu.F(P0).sqrt(P0['B'])))):
        P = dict(P0); P['P'] = pt; val_cmp(P, (name, 'P', tag))
    mm, k1, k2, k3 = P0['p']
    for p in ((mm, k1, k2, 0) if k3 else (mm, k1 + 1, 0, 0), (mm, k1, 0, k3), (mm - 1, k1, k2, k3), (mm, k2, k1, k3) if k2 else (mm, 0, k1, 0), (mm, 0, 0, 0), (mm, k1, k2, k3 + 1) if k3 else (mm, k1, 1, 0), (159, 7, 6, 3), (510, 7, 6, 3), (mm, mm, k2, k3), (mm, mm + 1, 0, 0)):
        P = dict(P0); P['p'] = p; val_cmp(P, (name, 'p', p))
def run(name, P, iters):
    s = to_c(P); n = P['n']; m = P['p'][0]; no = (m + 7) // 8; ono = (n.bit_length() + 7) // 8; onb = n.bit_length()
    fl = dstu.F(P)
    def pcmp(pt_bytes, tag):
        tick('pointval')
        g = PointVal(ctypes.byref(s), pt_bytes) == 0; e = dstu.point_val(P, dstu.decode_point(P, pt_bytes))
        if g != e: D('pointval', name, tag, pt_bytes.hex(), g, e)
    for it in range(iters):
        rej = [bytes(ono)]
        tape = b''.join(R.sample(rej, R.randint(0, 1))) + R.choice([R.randbytes(ono), (1).to_bytes(ono, 'little'), b'\xff' * ono, (n - 1).to_bytes(ono, 'little'), (1 << (onb - 1)).to_bytes(ono, 'little') + R.randbytes(ono)])
        tg = TapeGen(tape); priv = buf(ono); pub = buf(2 * no)
        rc = KeypairGen(priv, pub, ctypes.byref(s), tg.cb, None); tick('keypair')
        epriv, epub = dstu.keypair_tape(P, tape)
        if rc != 0 or tg.over or priv.raw != epriv or pub.raw != epub: D('keypair', name, tape.hex()); continue
        Q = dstu.decode_point(P, epub); d = int.from_bytes(epriv, 'little')
        pcmp(epub, 'Q')
        # compress / recover
        for pt in (Q, dstu.ec_neg(Q), P['P']):
            xb = buf(no); rc = PointCompress(xb, ctypes.byref(s), dstu.encode_point(P, pt)); tick('compress')
            ex = dstu.compress(P, pt).to_bytes(no, 'little')
            if rc != 0 or xb.raw != ex: D('compress', name, dstu.encode_point(P, pt).hex())
            pb = buf(2 * no); rc = PointRecover(pb, ctypes.byref(s), ex); tick('recover')
            if rc != 0 or pb.raw != dstu.encode_point(P, pt): D('recover', name, ex.hex())
        # recover of arbitrary x (may be off the curve / in the other coset)
        for _ in range(3):
            xc = R.getrandbits(m); pb = buf(2 * no); rc = PointRecover(pb, ctypes.byref(s), xc.to_bytes(no, 'little')); tick('recover-rand')
            try: e = dstu.encode_point(P, dstu.recover(P, xc))
            except ValueError: e = None
            if (rc == 0) != (e is not None) or (e is not None and pb.raw != e): D('recover-rand', name, hex(xc), rc, e and e.hex(), pb.raw.hex())
        for hl, h in ((0, b''), (1, b'\x00'), (no - 1, R.randbytes(no - 1)), (no, b'\xff' * no), (no, bytes(no)), (32, R.randbytes(32)), (64, R.randbytes(64)), (no, (1 << m).to_bytes(no, 'little') if m % 8 else R.randbytes(no))):
            ld = R.choice([16 * ono, 16 * ono + 16, 512, 1024])
            if ld < 16 * ono: ld = 16 * ono
            etape = R.choice([R.randbytes(ono), (1).to_bytes(ono, 'little'), (n - 1).to_bytes(ono, 'little')]) + R.randbytes(ono * 3)
            tg = TapeGen(etape); sig = buf(ld // 8)
            rc = Sign(sig, ctypes.byref(s), ld, h, len(h), epriv, tg.cb, None); tick('sign')
            esig = dstu.sign_tape(P, ld, h, epriv, etape)
            if rc != 0 or sig.raw != esig: D('sign', name, dict(ld=ld, hash=h.hex(), priv=epriv.hex(), tape=etape.hex(), rc=rc, lib=sig.raw.hex(), model=esig.hex())); continue
            def vcmp(ld_, h_, sig_, pub_, tag):
                tick('verify')
                rc = Verify(ctypes.byref(s), ld_, h_, len(h_), sig_, pub_)
                try: e = dstu.verify(P, ld_, h_, sig_, pub_)
                except ValueError: e = None
                if (rc == 0) != bool(e) or (e is None) != (rc == 109): D('verify', name, tag, dict(ld=ld_, hash=h_.hex(), sig=sig_.hex(), pubkey=pub_.hex(), lib=rc, model=e))
                return rc
            if vcmp(ld, h, esig, epub, 'valid') != 0: D('valid sig rejected', name)
            half = ld // 16
            r = int.from_bytes(esig[:half], 'little'); sv = int.from_bytes(esig[half:], 'little')
            enc = lambda r_, s_: (r_ % (1 << 8 * half)).to_bytes(half, 'little') + (s_ % (1 << 8 * half)).to_bytes(half, 'little')
            for tag, sg in (('r=0', enc(0, sv)), ('s=0', enc(r, 0)), ('r=n', enc(n, sv)), ('s=n', enc(r, n)), ('r+n', enc(r + n, sv)), ('s+n', enc(r, sv + n)), ('swap', enc(sv, r)), ('n-s', enc(r, n - sv)),
                            ('r hi bit', enc(r | 1 << (onb - 1), sv)), ('pad r', esig[:half - 1] + b'\x01' + esig[half:]) if half > ono else ('r^1', enc(r ^ 1, sv)),
                            ('pad s', esig[:-1] + b'\x80') if half > ono else ('s^1', enc(r, sv ^ 1)),
                            ('bit', bytes(b ^ (1 << R.randrange(8)) if i == j else b for j in [R.randrange(ld // 8)] for i, b in enumerate(esig)))):
                vcmp(ld, h, sg, epub, tag)
            # same signature, other ld encodings
            for ld2 in (16 * ono, ld + 16, ld - 16):
                if ld2 >= 16 * ono:
                    h2 = ld2 // 16; vcmp(ld2, h, r.to_bytes(h2, 'little') + sv.to_bytes(h2, 'little'), epub, 'ld2')
            for ld2 in (ld + 8, 16 * ono - 16, 0, 8):
                vcmp(ld2, h, esig + bytes(64), epub, 'bad ld')
            if len(h): vcmp(ld, bytes([h[0] ^ 1]) + h[1:], esig, epub, 'hash^1')
            x, y = Q
            encp = lambda x_, y_: (x_ % (1 << 8 * no)).to_bytes(no, 'little') + (y_ % (1 << 8 * no)).to_bytes(no, 'little')
            for tag, pk in (('-Q', encp(x, x ^ y)), ('x deg m', encp(x | 1 << m, y)) if m % 8 else ('y^2', encp(x, y ^ 2)), ('y deg m', encp(x, y | 1 << m)) if m % 8 else ('y^4', encp(x, y ^ 4)),
                            ('y^1', encp(x, y ^ 1)), ('x^1', encp(x ^ 1, y)), ('(0,0)', encp(0, 0)), ('order2', encp(0, fl.sqrt(P['B']))), ('2Q', encp(*dstu.ec_mul(P, 2, Q))), ('ff', b'\xff' * (2 * no)), ('(0,1)', encp(0, 1)), ('(x,0)', encp(x, 0))):
                vcmp(ld, h, esig, pk, 'pub ' + tag)
                pcmp(pk, tag)
        # bad ld for Sign
        for ld in (16 * ono - 16, 16 * ono + 8, 0):
            tg = TapeGen(R.randbytes(ono * 4)); sig = buf(200); tick('sign-badld')
            rc = Sign(sig, ctypes.byref(s), ld, b'abc', 3, epriv, tg.cb, None)
            if rc != 109: D('sign bad ld', name, ld, rc)
    # private key contract: 0, n, n+1, all-ones
    for d in (0, n, n + 1, (1 << 8 * ono) - 1):
        if d >> (8 * ono): continue
        tg = TapeGen(R.randbytes(ono * 4)); sig = buf(128); tick('sign-badpriv')
        rc = Sign(sig, ctypes.byref(s), 1024, b'abc', 3, d.to_bytes(ono, 'little'), tg.cb, None)
        if rc != 504: obs.append(('dstuSign accepts invalid privkey', name, hex(d), 'rc', rc))
    # compress with x = 0 into a separate (pre-filled) buffer; recover of x = 0
    y2 = fl.sqrt(P['B'])
    xb = ctypes.create_string_buffer(b'\xAA' * no, no); rc = PointCompress(xb, ctypes.byref(s), dstu.encode_point(P, (0, y2))); tick('compress0')
    if rc != 0 or xb.raw != bytes(no): obs.append(('dstuPointCompress x=0: xpoint not written', name, 'rc', rc, 'xpoint', xb.raw.hex()[:16] + '..', 'expected zeros'))
    pb = ctypes.create_string_buffer(b'\xAA' * (2 * no), 2 * no); rc = PointRecover(pb, ctypes.byref(s), bytes(no)); tick('recover0')
    if rc != 0 or pb.raw != dstu.encode_point(P, (0, y2)): obs.append(('dstuPointRecover x=0 wrong output', name, 'rc', rc, 'point', pb.raw.hex(), 'expected', dstu.encode_point(P, (0, y2)).hex()))
for name in dstu.STD_NAMES:
    run(name, STD[name], 3 if STD[name]['p'][0] < 240 else 1)
print('counts', cnt); print('disagreements', len(dis))
for o in obs: print('OBS', o)
