"""Tiny C-table harvester: static const octet NAME[] = {..}; static const u32 NAME = v; static const char NAME[] = "..." """
import re
def tables(path):
    src = open(path, encoding='utf-8', errors='replace').read()
    src = re.sub(r'/\*.*?\*/', '', src, flags=re.S)
    src = re.sub(r'//[^\n]*', '', src)
    out = {}
    for m in re.finditer(r'static\s+(?:const\s+)?octet\s+(\w+)\s*\[\s*\w*\s*\]\s*=\s*\{(.*?)\}\s*;', src, re.S):
        out[m.group(1)] = bytes(int(x, 16) for x in re.findall(r'0x([0-9A-Fa-f]{1,2})\b', m.group(2)))
    for m in re.finditer(r'static\s+(?:const\s+)?(?:u32|octet|size_t|u16)\s+(\w+)\s*(?:\[\s*\d*\s*\])?\s*=\s*\{?\s*([0-9xXA-Fa-f, \n\t]+?)\s*\}?\s*;', src):
        if m.group(1) in out: continue
        vals = [int(v, 0) for v in re.findall(r'0[xX][0-9A-Fa-f]+|\d+', m.group(2))]
        out[m.group(1)] = vals[0] if len(vals) == 1 else vals
    for m in re.finditer(r'static\s+const\s+char\s+(\w+)\s*\[\s*\]\s*=\s*"([^"]*)"\s*;', src):
        out[m.group(1)] = m.group(2)
    return out
def hexes(path, fn=r'hexEq(?:Rev)?|hexTo(?:Rev)?'):
    """list of (function, first-arg, hexstring) in file order"""
    src = open(path, encoding='utf-8', errors='replace').read()
    res = []
    for m in re.finditer(r'\b(' + fn + r')\(\s*([^,()]+(?:\([^()]*\))?[^,()]*)\s*,((?:\s*"[0-9A-Fa-f]*")+)\s*\)', src):
        res.append((m.group(1), m.group(2).strip(), ''.join(re.findall(r'"([0-9A-Fa-f]*)"', m.group(3)))))
    return res
