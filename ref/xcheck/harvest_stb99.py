import json, sys
sys.path.insert(0, '/verif/ref/xcheck')
import ctables
T = ctables.tables('/repo/src/crypto/stb99.c')
le = lambda b: '%x' % int.from_bytes(b, 'little')
params = {}
for key, common in (('_test_params', '_test_params'), ('_bds_params3', '_bds_params'), ('_bds_params6', '_bds_params'), ('_bds_params10', '_bds_params')):
    di, ri = T[key + '_di'], T[key + '_ri']
    params[T[key + '_name']] = {'l': T[key + '_l'], 'r': T[key + '_r'], 'p': le(T[key + '_p']), 'q': le(T[key + '_q']), 'a': le(T[key + '_a']), 'd': le(T[common + '_d']),
                                'zi': T[common + '_zi'], 'di': di + [0] * (18 - len(di)), 'ri': ri + [0] * (10 - len(ri))}
V = {'source': 'stb99.c tables (STB 34.101.50 table B.2 + NII PPMI test set), stb99_test.c (GPQA.L01, seed checks)', 'params': params, 'params_invalid': [], 'seed': [], 'gen': []}
P = params['test']; p = int(P['p'], 16); q = int(P['q'], 16)
V['params_invalid'] = [{'params': 'test', 'field': 'd', 'value': '%x' % (int(P['d'], 16) + 2), 'note': 'stb99_test: d[0] += 2'},
    {'params': 'test', 'field': 'a', 'value': '%x' % (int(P['a'], 16) + 1)}, {'params': 'test', 'field': 'a', 'value': '0'}, {'params': 'test', 'field': 'd', 'value': '0'},
    {'params': 'test', 'field': 'p', 'value': '%x' % (p + 2)}, {'params': 'test', 'field': 'q', 'value': '%x' % (q + 2)}, {'params': 'test', 'field': 'r', 'value': 144},
    {'params': 'test', 'field': 'l', 'value': 639}, {'params': 'test', 'field': 'd', 'value': '%x' % p}, {'params': 'test', 'field': 'a', 'value': '%x' % (int(P['a'], 16) + p)}]
M = 2**64 - 1
V['seed'] = [{'params': 'test', 'valid': True}, {'params': 'test', 'set': {'di': {'4': 0}}, 'valid': False}, {'params': 'test', 'set': {'di': {'4': M // 5 - 1}}, 'valid': False},
    {'params': 'test', 'set': {'ri': {'3': 0}}, 'valid': False}, {'params': 'test', 'set': {'ri': {'3': M // 5 - 1}}, 'valid': False},
    {'params': 'test', 'zero': ['di'], 'valid': False, 'adj_equals_std': True}, {'params': 'test', 'zero': ['ri'], 'valid': False, 'adj_equals_std': True},
    {'params': 'test', 'zero': ['zi', 'di', 'ri'], 'valid': False, 'adj_equals_std': True},
    {'params': 'test', 'set': {'di': {'0': 318}}, 'valid': False, 'note': 'di[0] < l/2'}, {'params': 'test', 'set': {'di': {'0': 319}}, 'valid': True, 'note': 'di[0] = l/2'},
    {'params': 'test', 'set': {'ri': {'0': 144}}, 'valid': False}, {'params': 'test', 'set': {'zi': {'0': 0}}, 'valid': False}, {'params': 'test', 'set': {'zi': {'0': 65257}}, 'valid': False},
    {'params': 'test', 'set': {'l': 640}, 'valid': False}]
V['gen'] = [{'params': 'test', 'note': 'GPQA.L01: p, q, a, d regenerate from the seed'}]
json.dump(V, open('/verif/ref/vectors/stb99.json', 'w'), indent=1)
