#!/usr/bin/env python3
"""Development cross-check: ref/bign.py (+ecp.py, belt.py) against the baseline libbee2.

usage: x_bign.py [seed] [n_random_per_level]
Prints per-function comparison counts and every disagreement with the exact reproducing
input.  Exit code 0 always (disagreements are findings to be reported, not harness errors).
"""
import os
import random
import sys

HERE = os.path.dirname(os.path.abspath(__file__))
sys.path.insert(0, os.path.dirname(HERE))
sys.path.insert(0, HERE)
import bign      # noqa: E402
import ecp       # noqa: E402
import ec_lib as C   # noqa: E402

seed = int(sys.argv[1]) if len(sys.argv) > 1 else 1
NR = int(sys.argv[2]) if len(sys.argv) > 2 else 100
rnd = random.Random(seed)
counts, bad = {}, []
OID = bign.oid_to_der("1.2.112.0.2.0.34.101.31.81")


def cmp(what, c_val, m_val, **inp):
    counts[what] = counts.get(what, 0) + 1
    if c_val != m_val:
        def f(x):
            if isinstance(x, (bytes, bytearray)):
                return x.hex()
            if isinstance(x, tuple):
                return "(" + ", ".join(f(y) for y in x) + ")"
            return repr(x)
        bad.append(what)
        print("DISAGREE %s" % what)
        for k, v in inp.items():
            print("    %s = %s" % (k, f(v)))
        print("    C     : %s" % f(c_val))
        print("    model : %s" % f(m_val))


def m_call(fn, *a):
    """Run a model function; map BignError to ('<code>',)."""
    try:
        return ("OK", fn(*a))
    except bign.BignError as e:
        return (e.code, None)


def le(l, x):
    return int(x).to_bytes(l // 4, "little")


def chunks(l, *vals):
    return b"".join(le(l, v) for v in vals)


def main():
    for l in (128, 192, 256, 96):
        ps = bign.params(l)
        p, q, no = ps["p"], ps["q"], l // 4
        E, G = ecp.Curve(p, ps["a"], ps["b"]), (0, ps["yG"])
        top = 2 ** (2 * l)
        assert C.params_val(l) == "OK"
        assert q < p
        rq = lambda: rnd.randrange(1, q)           # noqa: E731
        rh = lambda: rnd.randbytes(no)             # noqa: E731

        # ---------------- keypair_gen ----------------
        first = [1, 2, q - 2, q - 1] + [rq() for _ in range(NR)]
        rejected = [0, q, q + 1, (q + p) // 2, p - 1, p, p + 1, top - 1, rnd.randrange(q, p)]
        tapes = [chunks(l, v) for v in first]
        tapes += [chunks(l, r, rq()) for r in rejected]
        tapes += [chunks(l, 0, top - 1, p, rq()), chunks(l, 0), b"", chunks(l, q, q)]
        for tape in tapes:
            rc, priv, pub, req = C.keypair_gen(l, tape)
            m = m_call(bign.keypair_gen, l, tape)
            c_val = (rc, priv, pub, req) if rc == "OK" else (rc,)
            if m[0] == "OK":
                d, Q, used = m[1]
                m_val = ("OK", le(l, d), bign.enc_point(l, Q), used)
            else:
                m_val = (m[0],)
                # the library keeps asking for 65 attempts; only compare the verdict
            cmp("keypair_gen[l=%d]" % l, c_val, m_val, l=l, tape=tape)
            if rc == "OK":
                # self-consistency of the library: its own validator on its own output
                cmp("keypair_gen->keypair_val[l=%d]" % l, C.keypair_val(l, priv, pub), "OK",
                    l=l, tape=tape, privkey=priv)

        # ---------------- pubkey_calc / keypair_val / pubkey_val ----------------
        for d in [0, 1, 2, q - 1, q, q + 1, p, top - 1] + [rq() for _ in range(10)]:
            rc, pub = C.pubkey_calc(l, le(l, d))
            m = m_call(bign.pubkey_calc, l, d)
            cmp("pubkey_calc[l=%d]" % l, (rc, pub if rc == "OK" else None),
                (m[0], bign.enc_point(l, m[1]) if m[0] == "OK" else None), l=l, d=le(l, d))
        Qs = []
        for _ in range(10):
            d = rq()
            Q = E.mul(d, G)
            Qs.append((d, Q))
            for (dd, QQ) in ((d, Q), (d, E.neg(Q)), ((d + 1) % q or 1, Q), (0, Q), (q, Q)):
                cmp("keypair_val[l=%d]" % l, C.keypair_val(l, le(l, dd), bign.enc_point(l, QQ)),
                    bign.keypair_val(l, dd, QQ), l=l, d=le(l, dd), Q=bign.enc_point(l, QQ))
        pubs = [bign.enc_point(l, Q) for _, Q in Qs]
        pubs += [le(l, Q[0]) + le(l, (Q[1] + 1) % p) for _, Q in Qs[:3]]            # off curve
        pubs += [le(l, p) + le(l, Qs[0][1][1]), le(l, Qs[0][1][0]) + le(l, p), le(l, top - 1) * 2,
                 le(l, 0) + le(l, ps["yG"]), le(l, 0) + le(l, p - ps["yG"]), le(l, 0) * 2]
        if l != 96:
            pass
        for pub in pubs:
            cmp("pubkey_val[l=%d]" % l, C.pubkey_val(l, pub) == "OK", bign.pubkey_is_valid(l, pub) and
                bign.dec_point(l, pub) is not None, l=l, pubkey=pub)

        # ---------------- sign / verify ----------------
        ds = [1, 2, q - 2, q - 1]
        hs = [0, 1, q - 1, q, q + 1, top - 1]
        ks = [1, 2, q - 1]
        cases = [(d, le(l, h), chunks(l, k)) for d in ds for h in hs for k in ks]
        cases += [(rq(), rh(), chunks(l, rq())) for _ in range(NR)]
        cases += [(rq(), le(l, rnd.randrange(q, top)), chunks(l, rq())) for _ in range(NR // 4)]
        cases += [(rq(), rh(), chunks(l, r, rq())) for r in (0, q, q + 1, p - 1, p, top - 1)]
        cases += [(0, rh(), chunks(l, rq())), (q, rh(), chunks(l, rq())), (top - 1, rh(), chunks(l, rq())),
                  (rq(), rh(), b""), (rq(), rh(), chunks(l, 0, q))]
        # constructed: a = (k - (S0 + 2^l) d) mod q tiny and H >= q  (second subtraction wraps)
        for a_small, hv in ((0, top - 1), (1, top - 1), (0, q + 1), (top - q - 2, top - 1), (5, q + 7)):
            k = rq()
            H = le(l, hv)
            R = E.mul(k, G)
            s0n = 10 if l == 96 else l // 8
            S0 = bign.belt.hash(OID + le(l, R[0]) + H)[:s0n]
            mult = int.from_bytes(S0, "little") + (bign.BIGN96_TOP if l == 96 else 2 ** l)
            d = (k - a_small) * pow(mult, -1, q) % q
            if 0 < d < q:
                cases.append((d, H, chunks(l, k)))
        model_sign = (lambda o, h, d, t: bign.bign96_sign(o, h, d, t)) if l == 96 else \
                     (lambda o, h, d, t: bign.sign(l, o, h, d, t))
        model_verify = (lambda o, h, s, Q: bign.bign96_verify_ex(o, h, s, Q)) if l == 96 else \
                       (lambda o, h, s, Q: bign.verify_ex(l, o, h, s, Q))
        good = []
        for d, H, tape in cases:
            rc, sig, req = C.sign(l, OID, H, le(l, d), tape)
            m = m_call(model_sign, OID, H, d, tape)
            c_val = (rc, sig, req) if rc == "OK" else (rc,)
            m_val = ("OK", m[1], bign.last_consumed) if m[0] == "OK" else (m[0],)
            cmp("sign[l=%d]" % l, c_val, m_val, l=l, oid_der=OID, hash=H, d=le(l, d), tape=tape)
            if m[0] == "OK":
                Q = bign.enc_point(l, E.mul(d, G))
                good.append((d, H, m[1], Q))
                cmp("verify(model sig)[l=%d]" % l, C.verify(l, OID, H, m[1], Q), "OK",
                    l=l, hash=H, sig=m[1], pubkey=Q)
                assert model_verify(OID, H, m[1], Q) == "OK"
            if rc == "OK" and (m[0] != "OK" or sig != m[1]):
                Q = bign.enc_point(l, E.mul(d % q, G)) if d % q else None
                if Q:
                    print("    (library's own verify of its signature: %s; model verify: %s)" % (
                        C.verify(l, OID, H, sig, Q), model_verify(OID, H, sig, Q)))

        # ---------------- verify on mutated inputs ----------------
        s0n = 10 if l == 96 else l // 8
        mult_top = bign.BIGN96_TOP if l == 96 else 2 ** l
        for d, H, sig, Q in good[-40:]:
            Qp = bign.dec_point(l, Q)
            s1 = int.from_bytes(sig[s0n:], "little")
            muts = []
            if s1 + q < top:
                muts.append(("s1+q", sig[:s0n] + le(l, s1 + q), H, Q))
            muts.append(("s1=q", sig[:s0n] + le(l, q), H, Q))
            muts.append(("s1=max", sig[:s0n] + le(l, top - 1), H, Q))
            b = bytearray(sig)
            b[rnd.randrange(len(b))] ^= 1 << rnd.randrange(8)
            muts.append(("bitflip sig", bytes(b), H, Q))
            b = bytearray(H)
            b[rnd.randrange(len(b))] ^= 1 << rnd.randrange(8)
            muts.append(("bitflip hash", sig, bytes(b), Q))
            hv = int.from_bytes(H, "little")
            if hv + q < top:
                muts.append(("H+q", sig, le(l, hv + q), Q))
            if hv >= q:
                muts.append(("H-q", sig, le(l, hv - q), Q))
            muts.append(("-Q", sig, H, bign.enc_point(l, E.neg(Qp))))
            muts.append(("Q off curve", sig, H, le(l, Qp[0]) + le(l, (Qp[1] + 1) % p)))
            muts.append(("xQ+p", sig, H, le(l, Qp[0] + p) + le(l, Qp[1])) if Qp[0] + p < top else
                        ("xQ=p", sig, H, le(l, p) + le(l, Qp[1])))
            muts.append(("yQ=p", sig, H, le(l, Qp[0]) + le(l, p)))
            muts.append(("bad oid", sig, H, Q))
            # R = O: s1 = -(S0 + 2^l) d - H
            S0 = rnd.randbytes(s0n)
            s1o = (-(int.from_bytes(S0, "little") + mult_top) * d - hv) % q
            muts.append(("R=O", S0 + le(l, s1o), H, Q))
            for name, sg, hh, QQ in muts:
                oid = OID[:-1] + b"\x80" if name == "bad oid" else OID
                c = C.verify(l, oid, hh, sg, QQ)
                m = model_verify(oid, hh, sg, QQ)
                cmp("verify[l=%d] accept/reject" % l, c == "OK", m == "OK", l=l, mutation=name, oid_der=oid,
                    hash=hh, sig=sg, pubkey=QQ, c_code=c, model_code=m)
                cmp("verify[l=%d] error code" % l, c, m, l=l, mutation=name, oid_der=oid, hash=hh, sig=sg,
                    pubkey=QQ)

        # ---------------- sign2 ----------------
        cases = [(d, le(l, h), None) for d in ds for h in hs]
        cases += [(rq(), rh(), rnd.choice([None, b"", rnd.randbytes(rnd.randrange(1, 70))])) for _ in range(NR)]
        cases += [(0, rh(), None), (q, rh(), None)]
        model_sign2 = (lambda o, h, d, t: bign.bign96_sign2(o, h, d, t)) if l == 96 else \
                      (lambda o, h, d, t: bign.sign2(l, o, h, d, t))
        for d, H, t in cases:
            rc, sig = C.sign2(l, OID, H, le(l, d), t)
            m = m_call(model_sign2, OID, H, d, t)
            cmp("sign2[l=%d]" % l, (rc, sig if rc == "OK" else None), m, l=l, oid_der=OID, hash=H,
                d=le(l, d), t=t)
            if rc == "OK" and m[0] == "OK" and sig != m[1]:
                Q = bign.enc_point(l, E.mul(d, G))
                print("    (library's own verify of its signature: %s; model verify: %s)" % (
                    C.verify(l, OID, H, sig, Q), model_verify(OID, H, sig, Q)))

        if l == 96:
            continue

        # ---------------- dh ----------------
        for _ in range(NR // 4):
            d, (d2, Q) = rq(), rnd.choice(Qs)
            for n in (0, 1, no - 1, no, no + 1, 2 * no, 2 * no + 1):
                rc, key = C.dh(l, le(l, d), bign.enc_point(l, Q), n)
                m = m_call(bign.dh, l, d, Q, n)
                cmp("dh[l=%d]" % l, (rc, key if rc == "OK" else None), m, l=l, d=le(l, d),
                    Q=bign.enc_point(l, Q), n=n)
        d, Q = Qs[0]
        for dd, pub in ((0, bign.enc_point(l, Q)), (q, bign.enc_point(l, Q)),
                        (d, le(l, Q[0]) + le(l, (Q[1] + 1) % p)), (d, le(l, p) + le(l, Q[1]))):
            rc, key = C.dh(l, le(l, dd), pub, no)
            m = m_call(bign.dh, l, dd, pub, no)
            cmp("dh[l=%d]" % l, (rc, key if rc == "OK" else None), m, l=l, d=le(l, dd), Q=pub, n=no)

        # ---------------- key transport ----------------
        toks = []
        kcases = [(rnd.randbytes(n), hdr, chunks(l, k)) for n in (16, 17, 18, 31, 32, 33, 48)
                  for hdr in (None, rnd.randbytes(16)) for k in (1, q - 1, rq())]
        kcases += [(rnd.randbytes(rnd.randrange(16, 80)), rnd.choice([None, rnd.randbytes(16)]),
                    chunks(l, rq())) for _ in range(NR // 2)]
        kcases += [(rnd.randbytes(32), None, chunks(l, r, rq())) for r in (0, q, p, top - 1)]
        kcases += [(rnd.randbytes(15), None, chunks(l, rq())), (rnd.randbytes(32), None, b"")]
        for key, hdr, tape in kcases:
            d, Q = rnd.choice(Qs)
            pub = bign.enc_point(l, Q)
            rc, tok, req = C.key_wrap(l, key, hdr, pub, tape)
            m = m_call(bign.key_wrap, l, key, hdr, pub, tape)
            c_val = (rc, tok, req) if rc == "OK" else (rc,)
            m_val = ("OK", m[1], bign.last_consumed) if m[0] == "OK" else (m[0],)
            cmp("key_wrap[l=%d]" % l, c_val, m_val, l=l, key=key, header=hdr, pubkey=pub, tape=tape)
            if m[0] == "OK":
                toks.append((d, hdr, key, m[1]))
        # key_wrap with invalid public keys
        d, Q = Qs[0]
        for pub in (le(l, Q[0]) + le(l, (Q[1] + 1) % p), le(l, p) + le(l, Q[1]), le(l, Q[0]) + le(l, p)):
            rc, tok, req = C.key_wrap(l, bytes(32), None, pub, chunks(l, rq()))
            m = m_call(bign.key_wrap, l, bytes(32), None, pub, chunks(l, 5))
            cmp("key_wrap[l=%d] bad pubkey verdict" % l, rc, m[0], l=l, pubkey=pub)
        for d, hdr, key, tok in toks:
            muts = [("valid", tok, hdr)]
            b = bytearray(tok)
            b[rnd.randrange(no, len(b))] ^= 1 << rnd.randrange(8)
            muts.append(("bitflip body", bytes(b), hdr))
            b = bytearray(tok)
            b[rnd.randrange(no)] ^= 1 << rnd.randrange(8)
            muts.append(("bitflip x", bytes(b), hdr))
            muts.append(("other header", tok, rnd.randbytes(16)))
            muts.append(("x=p", le(l, p) + tok[no:], hdr))
            muts.append(("x=max", le(l, top - 1) + tok[no:], hdr))
            muts.append(("short", tok[:no + 31], hdr))
            muts.append(("min", tok[:no + 32], hdr))
            for name, tk, hh in muts:
                rc, k2 = C.key_unwrap(l, tk, hh, le(l, d))
                m = m_call(bign.key_unwrap, l, tk, hh, d)
                if m[0] == "OK":
                    m_val = ("OK", m[1]) if m[1] is not None else ("BAD_KEYTOKEN", None)
                else:
                    m_val = (m[0], None)
                cmp("key_unwrap[l=%d]" % l, (rc, k2 if rc == "OK" else None), m_val, l=l, mutation=name,
                    token=tk, header=hh, d=le(l, d))
        for dd in (0, q):
            d, hdr, key, tok = toks[0]
            rc, k2 = C.key_unwrap(l, tok, hdr, le(l, dd))
            m = m_call(bign.key_unwrap, l, tok, hdr, dd)
            cmp("key_unwrap[l=%d]" % l, rc, m[0], l=l, token=tok, d=le(l, dd))

        # ---------------- identity-based signature ----------------
        for i in range(NR // 4):
            d, Q = rnd.choice(Qs)
            pub = bign.enc_point(l, Q)
            H0, H = rh(), rh()
            if i % 5 == 0:
                H0 = le(l, rnd.randrange(q, top))
            if i % 7 == 0:
                H = le(l, rnd.randrange(q, top))
            sig = bign.sign(l, OID, H0, d, chunks(l, rq()))
            rc, e, R = C.id_extract(l, OID, H0, sig, pub)
            m = bign.id_extract(l, OID, H0, sig, pub)
            cmp("id_extract[l=%d]" % l, (rc, e, R), ("OK", le(l, m[0]), bign.enc_point(l, m[1])), l=l,
                id_hash=H0, sig=sig, pubkey=pub)
            b = bytearray(sig)
            b[rnd.randrange(len(b))] ^= 1
            rc2, _, _ = C.id_extract(l, OID, H0, bytes(b), pub)
            cmp("id_extract[l=%d] bad sig" % l, rc2 == "OK", bign.id_extract(l, OID, H0, bytes(b), pub) is not None,
                l=l, id_hash=H0, sig=bytes(b), pubkey=pub)
            e_int, Rm = m
            tape = chunks(l, rq())
            rc, isig, req = C.id_sign(l, OID, H0, H, le(l, e_int), tape)
            ms = m_call(bign.id_sign, l, OID, H0, H, e_int, tape)
            cmp("id_sign[l=%d]" % l, (rc, isig, req), (ms[0], ms[1], bign.last_consumed), l=l, id_hash=H0,
                hash=H, e=le(l, e_int), tape=tape)
            t = rnd.choice([None, rnd.randbytes(9)])
            rc, isig2 = C.id_sign2(l, OID, H0, H, le(l, e_int), t)
            ms2 = m_call(bign.id_sign2, l, OID, H0, H, e_int, t)
            cmp("id_sign2[l=%d]" % l, (rc, isig2), ms2, l=l, id_hash=H0, hash=H, e=le(l, e_int), t=t)
            Rb = bign.enc_point(l, Rm)
            for name, sg, RR, QQ, hh in (
                    ("valid", ms[1], Rb, pub, H), ("valid2", ms2[1], Rb, pub, H),
                    ("bitflip", bytes([ms[1][0] ^ 1]) + ms[1][1:], Rb, pub, H),
                    ("s1=q", ms[1][:l // 8] + le(l, q), Rb, pub, H),
                    ("R off curve", ms[1], le(l, Rm[0]) + le(l, (Rm[1] + 1) % p), pub, H),
                    ("Q off curve", ms[1], Rb, le(l, Q[0]) + le(l, (Q[1] + 1) % p), H),
                    ("-R", ms[1], bign.enc_point(l, E.neg(Rm)), pub, H),
                    ("other hash", ms[1], Rb, pub, rh())):
                c = C.id_verify(l, OID, H0, hh, sg, RR, QQ)
                mv = bign.id_verify_ex(l, OID, H0, hh, sg, RR, QQ)
                cmp("id_verify[l=%d] accept/reject" % l, c == "OK", mv == "OK", l=l, mutation=name,
                    id_hash=H0, hash=hh, id_sig=sg, id_pubkey=RR, pubkey=QQ, c_code=c, model_code=mv)
                cmp("id_verify[l=%d] error code" % l, c, mv, l=l, mutation=name, id_hash=H0, hash=hh,
                    id_sig=sg, id_pubkey=RR, pubkey=QQ)
        # constructed twin of the H >= q case for id_sign: (k - (S0 + 2^l) e) mod q = 0, H = 2^{2l} - 1
        k, H0, H = rq(), rh(), b"\xff" * no
        V = E.mul(k, G)
        S0 = bign.belt.hash(OID + le(l, V[0]) + H0 + H)[:l // 8]
        e_int = k * pow(int.from_bytes(S0, "little") + 2 ** l, -1, q) % q
        rc, isig, req = C.id_sign(l, OID, H0, H, le(l, e_int), chunks(l, k))
        ms = m_call(bign.id_sign, l, OID, H0, H, e_int, chunks(l, k))
        cmp("id_sign[l=%d] constructed H>=q" % l, (rc, isig), ms, l=l, id_hash=H0, hash=H, e=le(l, e_int),
            tape=chunks(l, k))
        # e = 0 is allowed for id_sign; e = q is not
        for e_int in (0, q):
            rc, isig, req = C.id_sign(l, OID, rh(), rh(), le(l, e_int), chunks(l, 7))
            ms = m_call(bign.id_sign, l, OID, rh(), rh(), e_int, chunks(l, 7))
            cmp("id_sign[l=%d] e boundary verdict" % l, rc, ms[0], l=l, e=le(l, e_int))

    # ---------------- OID ----------------
    for oid in ("1.2.112.0.2.0.34.101.31.81", "0.0", "2.999.3", "1.39", "2.4294967295", "1.2.4294967295",
                "1.2.840.113549.1.1.11"):
        rc, der = C.oid_to_der(oid)
        m = m_call(bign.oid_to_der, oid)
        cmp("oid_to_der", (rc, der if rc == "OK" else None), m, oid=oid)

    print()
    for k in sorted(counts):
        print("%-40s %6d comparisons, %d disagreements" % (k, counts[k], bad.count(k)))
    print("TOTAL %d comparisons, %d disagreements" % (sum(counts.values()), len(bad)))


if __name__ == "__main__":
    main()
