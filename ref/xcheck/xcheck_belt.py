#!/usr/bin/env python3
"""Development aid: compare the reference models with a built libbee2 through ctypes.

    python3 xcheck_belt.py [path/to/libbee2.so] [--full-fmt]

Not part of the oracle gate (the gate is --selftest against vectors/*.json).  A mismatch is
printed with its exact reproducing input; the model is never adjusted to the library.
"""
import ctypes as C
import random
import sys

try:
    from . import belt, brng, botp
except ImportError:
    import belt
    import brng
    import botp

LIB = next((a for a in sys.argv[1:] if not a.startswith('--')), '/repo/_build/src/libbee2.so')
L = C.CDLL(LIB)
for f in ('beltWBL_keep', 'beltFMT_keep', 'brngCTR_keep', 'brngHMAC_keep', 'botpHOTP_keep', 'beltCompr_deep'):
    getattr(L, f).restype = C.c_size_t
L.beltFMT_keep.argtypes = [C.c_uint32, C.c_size_t]
SZ = C.c_size_t
rnd = random.Random(20260926)
stats, diffs = {}, []


def rb(n):
    return bytes(rnd.getrandbits(8) for _ in range(n))


def buf(b):
    return C.create_string_buffer(bytes(b), max(len(b), 1))


def report(mech, got, exp, **inp):
    stats[mech] = stats.get(mech, 0) + 1
    if got != exp:
        h = {k: (v.hex() if isinstance(v, (bytes, bytearray)) else v) for k, v in inp.items()}
        diffs.append((mech, h, got.hex() if isinstance(got, bytes) else got,
                      exp.hex() if isinstance(exp, bytes) else exp))


def call(fn, *args):
    a = [SZ(x) if isinstance(x, int) else x for x in args]
    return getattr(L, fn)(*a)


def keys():
    return [rb(16), rb(24), rb(32)]


def out_in(fn, x, *tail, outlen=None):
    d = C.create_string_buffer(max(outlen if outlen is not None else len(x), 1))
    rc = call(fn, d, buf(x), len(x), *tail)
    return rc, d.raw[:outlen if outlen is not None else len(x)]


def x_block():
    for k in keys() * 40:
        x = rb(16)
        ks = C.create_string_buffer(32)
        call('beltKeyExpand2', ks, buf(k), len(k))
        b = buf(x)
        L.beltBlockEncr(b, ks)
        report('block_encr', b.raw[:16], belt.block_encr(k, x), key=k, x=x)
        b = buf(x)
        L.beltBlockDecr(b, ks)
        report('block_decr', b.raw[:16], belt.block_decr(k, x), key=k, x=x)
        ke = C.create_string_buffer(32)
        call('beltKeyExpand', ke, buf(k), len(k))
        report('key_expand', ke.raw, belt.key_expand(k), key=k)


def x_wbl():
    st = C.create_string_buffer(L.beltWBL_keep())
    for n in range(32, 161):
        for k in keys():
            x = rb(n)
            call('beltWBLStart', st, buf(k), len(k))
            b = buf(x)
            call('beltWBLStepE', b, n, st)
            report('wbl_encr', b.raw[:n], belt.wbl_encr(k, x), key=k, x=x)
            b = buf(x)
            call('beltWBLStepD', b, n, st)
            report('wbl_decr', b.raw[:n], belt.wbl_decr(k, x), key=k, x=x)
            b1, b2 = buf(x[:-16]), buf(x[-16:])
            call('beltWBLStepD2', b1, b2, n, st)
            report('wbl_decr(D2)', b1.raw[:n - 16] + b2.raw[:16], belt.wbl_decr(k, x), key=k, x=x)
    # StepR: continued round counter 2n+1..4n
    for n in (32, 33, 48, 64, 65, 80):
        k, x = rb(32), rb(n)
        call('beltWBLStart', st, buf(k), 32)
        b = buf(x)
        call('beltWBLStepR', b, n, st)
        call('beltWBLStepR', b, n, st)
        nb = (n + 15) // 16
        report('wbl_encr(R)', b.raw[:n], belt.wbl_encr(k, belt.wbl_encr(k, x), 2 * nb + 1), key=k, x=x)


def x_compr():
    stack = C.create_string_buffer(L.beltCompr_deep())
    for _ in range(200):
        x = rb(64)
        s, h = buf(bytes(16)), buf(x[32:])
        L.beltCompr2(s, h, buf(x[:32]), stack)
        s1, y = belt.compr(x)
        report('compr', s.raw[:16] + h.raw[:32], s1 + y, x=x)


def x_modes():
    for n in range(0, 131):
        for k in keys():
            x, iv = rb(n), rb(16)
            if n >= 16:
                for fn, f in (('beltECBEncr', belt.ecb_encr), ('beltECBDecr', belt.ecb_decr)):
                    rc, y = out_in(fn, x, buf(k), len(k))
                    report(f.__name__, y, f(k, x), key=k, x=x)
                for fn, f in (('beltCBCEncr', belt.cbc_encr), ('beltCBCDecr', belt.cbc_decr)):
                    rc, y = out_in(fn, x, buf(k), len(k), buf(iv))
                    report(f.__name__, y, f(k, iv, x), key=k, iv=iv, x=x)
            for fn, f in (('beltCFBEncr', belt.cfb_encr), ('beltCFBDecr', belt.cfb_decr), ('beltCTR', belt.ctr)):
                rc, y = out_in(fn, x, buf(k), len(k), buf(iv))
                report(f.__name__, y, f(k, iv, x), key=k, iv=iv, x=x)
            m = C.create_string_buffer(8)
            call('beltMAC', m, buf(x), n, buf(k), len(k))
            report('mac', m.raw, belt.mac(k, x), key=k, x=x)
            if n >= 16 and n % 16 == 0:
                for fn, f in (('beltBDEEncr', belt.bde_encr), ('beltBDEDecr', belt.bde_decr)):
                    rc, y = out_in(fn, x, buf(k), len(k), buf(iv))
                    report(f.__name__, y, f(k, iv, x), key=k, iv=iv, x=x)
            if n >= 32 and n % 16 == 0:
                for fn, f in (('beltSDEEncr', belt.sde_encr), ('beltSDEDecr', belt.sde_decr)):
                    rc, y = out_in(fn, x, buf(k), len(k), buf(iv))
                    report(f.__name__, y, f(k, iv, x), key=k, iv=iv, x=x)
            if n >= 16:
                for hd in (None, rb(16)):
                    d = C.create_string_buffer(n + 16)
                    call('beltKWPWrap', d, buf(x), n, buf(hd) if hd else None, buf(k), len(k))
                    report('kwp_wrap', d.raw, belt.kwp_wrap(k, x, hd), key=k, x=x, header=hd)
                    d2 = C.create_string_buffer(n)
                    rc = call('beltKWPUnwrap', d2, d, n + 16, buf(hd) if hd else None, buf(k), len(k))
                    report('kwp_unwrap', d2.raw if rc == 0 else None, belt.kwp_unwrap(k, d.raw, hd),
                           key=k, y=d.raw, header=hd)
                    bad = bytearray(d.raw)
                    bad[rnd.randrange(n + 16)] ^= 1 << rnd.randrange(8)
                    rc = call('beltKWPUnwrap', d2, buf(bad), n + 16, buf(hd) if hd else None, buf(k), len(k))
                    report('kwp_unwrap', d2.raw if rc == 0 else None, belt.kwp_unwrap(k, bytes(bad), hd),
                           key=k, y=bytes(bad), header=hd)
    # CTR counter carries: iv = D_K(c) so that s = c before the first increment
    for c in (2 ** 32 - 2, 2 ** 64 - 2, 2 ** 96 - 2, 2 ** 128 - 2, 2 ** 128 - 1):
        k = rb(32)
        iv, x = belt.block_decr(k, c.to_bytes(16, 'little')), rb(50)
        rc, y = out_in('beltCTR', x, buf(k), 32, buf(iv))
        report('ctr(carry)', y, belt.ctr(k, iv, x), key=k, iv=iv, x=x)


def x_aead():
    for name, wrap, unwrap in (('DWP', belt.dwp_wrap, belt.dwp_unwrap), ('CHE', belt.che_wrap, belt.che_unwrap)):
        for n1 in list(range(0, 36)) + [47, 48, 49, 64, 65]:
            for n2 in (0, 1, 15, 16, 17, 31, 32, 33, 50):
                k, iv, x, i = rnd.choice(keys()), rb(16), rb(n1), rb(n2)
                d, m = C.create_string_buffer(max(n1, 1)), C.create_string_buffer(8)
                call('belt%sWrap' % name, d, m, buf(x), n1, buf(i), n2, buf(k), len(k), buf(iv))
                y, t = wrap(k, iv, x, i)
                report(name.lower() + '_wrap', d.raw[:n1] + m.raw, y + t, key=k, iv=iv, x=x, i=i)
                for tag in (t, bytes([t[0] ^ 1]) + t[1:]):
                    d2 = C.create_string_buffer(max(n1, 1))
                    rc = call('belt%sUnwrap' % name, d2, buf(y), n1, buf(i), n2, buf(tag), buf(k), len(k), buf(iv))
                    report(name.lower() + '_unwrap', d2.raw[:n1] if rc == 0 else None,
                           unwrap(k, iv, y, i, tag), key=k, iv=iv, y=y, i=i, tag=tag)


def x_hash():
    for n in range(0, 200):
        x = rb(n)
        h = C.create_string_buffer(32)
        call('beltHash', h, buf(x), n)
        report('hash', h.raw, belt.hash(x), x=x)
    for kl in list(range(0, 72)) + [96, 97, 127, 128]:
        for n in (0, 1, 31, 32, 33, 64, 65, 100):
            k, x = rb(kl), rb(n)
            h = C.create_string_buffer(32)
            call('beltHMAC', h, buf(x), n, buf(k), kl)
            report('hmac', h.raw, belt.hmac(k, x), key=k, x=x)
    for it in (1, 2, 3, 17):
        for pl in (0, 1, 31, 32, 33, 65):
            for sl in (0, 1, 8, 32, 33):
                p, s = rb(pl), rb(sl)
                h = C.create_string_buffer(32)
                call('beltPBKDF2', h, buf(p), pl, it, buf(s), sl)
                report('pbkdf2', h.raw, belt.pbkdf2(p, it, s), pwd=p, iter=it, salt=s)
    for n in (16, 24, 32):
        for m in (16, 24, 32):
            if m > n:
                continue
            for _ in range(40):
                k, lv, hd = rb(n), rb(12), rb(16)
                d = C.create_string_buffer(m)
                call('beltKRP', d, m, buf(k), n, buf(lv), buf(hd))
                report('krp', d.raw, belt.krp(k, lv, hd, m), key=k, level=lv, header=hd, m=m)


def c_calc_b(mod, count):
    """beltFMTCalcB(mod, count) as observed through beltFMT_keep(mod, 2 count)."""
    base = L.beltFMT_keep(2, 2) - 16            # CalcB(2, 1) = 1
    return (L.beltFMT_keep(mod, 2 * count) - base) // 8 - 1


def x_fmt(full):
    mods = range(2, 65537) if full else [2, 3, 10, 58, 255, 256, 257, 4095, 4096, 9999, 49667, 65535, 65536]
    for mod in mods:                            # --full-fmt: the complete domain, 19.66 M pairs
        v = 1
        for c in range(1, 301):
            v *= mod
            exact = max(1, -(-(v - 1).bit_length() // 64))
            if c in (1, 150, 300):
                assert exact == belt.fmt_calc_b(mod, c)
            report('fmt_calc_b', c_calc_b(mod, c), exact if full else belt.fmt_calc_b(mod, c), mod=mod, count=c)
    # encryption / decryption
    shapes = [(m, c) for m in (2, 3, 10, 58, 255, 256, 257, 9999, 49667, 65535, 65536)
              for c in list(range(2, 14)) + [19, 20, 21, 38, 39, 40, 63, 64, 65]]
    shapes += [(10, 319), (10, 320), (65536, 599), (65536, 600), (2, 600), (49667, 319), (49667, 320), (49667, 321)]
    for mod, cnt in shapes:
        k, iv = rnd.choice(keys()), rnd.choice([None, rb(16)])
        src = [rnd.randrange(mod) for _ in range(cnt)]
        a = (C.c_uint16 * cnt)(*src)
        d = (C.c_uint16 * cnt)()
        call('beltFMTEncr', d, C.c_uint32(mod), a, cnt, buf(k), len(k), buf(iv) if iv else None)
        enc = belt.fmt_encr(k, mod, cnt, iv, src)
        report('fmt_encr', list(d), enc, key=k, iv=iv, mod=mod, count=cnt, src=src)
        a = (C.c_uint16 * cnt)(*enc)
        call('beltFMTDecr', d, C.c_uint32(mod), a, cnt, buf(k), len(k), buf(iv) if iv else None)
        report('fmt_decr', list(d), belt.fmt_decr(k, mod, cnt, iv, enc), key=k, iv=iv, mod=mod, count=cnt, src=enc)
        assert belt.fmt_decr(k, mod, cnt, iv, enc) == src


def x_brng():
    ivs = [0, 1, 2 ** 64 - 1, 2 ** 128 - 1, 2 ** 192 - 1, 2 ** 256 - 2, 2 ** 256 - 1] + [rnd.getrandbits(256) for _ in range(4)]
    for ivn in ivs:
        for n in (0, 1, 31, 32, 33, 64, 65, 96, 97):
            for zero in (True, False):
                k, iv = rb(32), ivn.to_bytes(32, 'little')
                prior = bytes(n) if zero else rb(n)
                b, i = buf(prior), buf(iv)
                call('brngCTRRand', b, n, buf(k), i)
                out, iv2 = brng.ctr_rand(k, iv, n, prior)
                report('brng_ctr', b.raw[:n] + i.raw[:32], out + iv2, key=k, iv=iv, n=n, prior=prior)
    st = C.create_string_buffer(L.brngCTR_keep())
    for _ in range(60):                          # chunked calls, buffered tail
        k, iv = rb(32), rb(32)
        steps = [rnd.choice([0, 1, 5, 16, 31, 32, 33, 47, 64, 70]) for _ in range(5)]
        L.brngCTRStart(st, buf(k), buf(iv))
        g, got, exp = brng.CTR(k, iv), b'', b''
        for s in steps:
            prior = rb(s)
            b = buf(prior)
            call('brngCTRStepR', b, s, st)
            got += b.raw[:s]
            exp += g.step(s, prior)
        i = C.create_string_buffer(32)
        L.brngCTRStepG(i, st)
        report('brng_ctr(steps)', got + i.raw, exp + g.get_iv(), key=k, iv=iv, steps=steps)
    for kl in (0, 1, 32, 33, 64, 65, 127):
        for il in (0, 1, 31, 32, 63, 64, 65, 128):
            for n in (1, 32, 33, 97):
                k, iv = rb(kl), rb(il)
                b = C.create_string_buffer(n)
                call('brngHMACRand', b, n, buf(k), kl, buf(iv), il)
                report('brng_hmac', b.raw[:n], brng.hmac_rand(k, iv, n), key=k, iv=iv, n=n)
    st = C.create_string_buffer(L.brngHMAC_keep())
    for _ in range(40):
        k, iv = rb(rnd.choice([1, 32, 40])), rb(rnd.choice([0, 7, 32, 64]))
        steps = [rnd.choice([0, 1, 5, 16, 31, 32, 33, 47, 64, 70]) for _ in range(5)]
        call('brngHMACStart', st, buf(k), len(k), buf(iv), len(iv))
        g, got, exp = brng.HMAC(k, iv), b'', b''
        for s in steps:
            b = C.create_string_buffer(max(s, 1))
            call('brngHMACStepR', b, s, st)
            got += b.raw[:s]
            exp += g.step(s)
        report('brng_hmac(steps)', got, exp, key=k, iv=iv, steps=steps)


def x_botp():
    L.botpTOTPRand.argtypes = [C.c_char_p, SZ, C.c_char_p, SZ, C.c_int64]
    L.botpOCRARand.argtypes = [C.c_char_p, C.c_char_p, C.c_char_p, SZ, C.c_char_p, SZ, C.c_char_p, C.c_char_p,
                               C.c_char_p, C.c_int64]
    for digit in range(4, 10):
        for off in range(16):
            for _ in range(3):
                m = bytearray(rb(32))
                m[-1] = (m[-1] & 0xF0) | off
                if rnd.random() < 0.3:
                    m[off:off + 4] = b'\xff\xff\xff\xff'
                o = C.create_string_buffer(16)
                call('botpDT', o, digit, buf(m), 32)
                report('dt', o.value.decode(), botp.otp_str(digit, bytes(m)), digit=digit, mac=bytes(m))
    st = C.create_string_buffer(L.botpHOTP_keep())
    ctrs = [0, 1, 255, 256, 2 ** 32 - 1, 2 ** 56 - 1, 2 ** 64 - 2, 2 ** 64 - 1] + [rnd.getrandbits(64) for _ in range(20)]
    for cv in ctrs:
        for digit in (6, 7, 8):
            k, c = rb(rnd.choice([0, 1, 16, 32, 33, 65])), cv.to_bytes(8, 'big')
            o, c2 = C.create_string_buffer(16), C.create_string_buffer(8)
            call('botpHOTPStart', st, digit, buf(k), len(k))
            L.botpHOTPStepS(st, buf(c))
            L.botpHOTPStepR(o, st)
            L.botpHOTPStepG(c2, st)
            e, n = botp.hotp(k, c, digit)
            report('hotp', (o.value.decode(), c2.raw), (e, n), key=k, ctr=c, digit=digit)
            o = C.create_string_buffer(16)
            L.botpTOTPRand(o, digit, k, len(k), cv % 2 ** 63)
            report('totp', o.value.decode(), botp.totp(k, cv % 2 ** 63, digit), key=k, t=cv % 2 ** 63, digit=digit)
    n = 0
    for d in '456789':
        for c in ('', 'C-'):
            for q in ('QA04', 'QN08', 'QH64', 'QN10'):
                for p in ('', '-PHBELT', '-PSHA1', '-PSHA256', '-PSHA512'):
                    for s in ('', '-S000', '-S064', '-S512'):
                        for t in ('', '-T1S', '-T59M', '-T48H'):
                            n += 1
                            if n % 7:
                                continue
                            suite = 'OCRA-1:HOTP-HBELT-%s:%s%s%s%s%s' % (d, c, q, p, s, t)
                            f = botp.ocra_parse(suite)
                            k, qq = rb(32), rb(rnd.randrange(4, 2 * f['q_max'] + 1))
                            qq = bytes(x | 1 for x in qq)
                            cc, pp, ss, tt = rb(8), rb(64), rb(512), rnd.getrandbits(40)
                            o = C.create_string_buffer(16)
                            rc = L.botpOCRARand(o, suite.encode(), k, 32, qq, len(qq), cc, pp, ss, tt)
                            report('ocra', (rc, o.value.decode()), (0, botp.ocra(suite, k, qq, cc, pp, ss, tt)[0]),
                                   suite=suite, key=k, q=qq, ctr=cc, p=pp, s=ss, t=tt)
    bad = ['OCRA-1:HOTP-HBELT-3:QN08', 'OCRA-1:HOTP-HBELT-8:QN03', 'OCRA-1:HOTP-HBELT-8:QN65', 'OCRA-1:HOTP-HBELT-8:QN08-S513',
           'OCRA-1:HOTP-HBELT-8:QN08-T0S', 'OCRA-1:HOTP-HBELT-8:QN08-T60M', 'OCRA-1:HOTP-HBELT-8:QN08-T49H',
           'OCRA-1:HOTP-HBELT-8:QN08-T48H', 'OCRA-1:HOTP-HBELT-8:QN08-T05S', 'OCRA-1:HOTP-HBELT-8:QX08',
           'OCRA-1:HOTP-HBELT-8:QN08-PSHA256-S01', 'OCRA-1:HOTP-HBELT-8:QN08x', 'OCRA-1:HOTP-SHA1-8:QN08',
           'OCRA-1:HOTP-HBELT-8:C-QN08-T1M-S064', 'OCRA-1:HOTP-HBELT-8:QN08-T1M', 'OCRA-1:HOTP-HBELT-10:QN08']
    st = C.create_string_buffer(4096)
    for suite in bad:
        rc = L.botpOCRAStart(st, suite.encode(), bytes(32), SZ(32))
        report('ocra_parse', bool(rc), botp.ocra_parse(suite) is not None, suite=suite)


if __name__ == '__main__':
    full = '--full-fmt' in sys.argv
    for f in (x_block, x_wbl, x_compr, x_modes, x_aead, x_hash, lambda: x_fmt(full), x_brng, x_botp):
        f()
    tot = sum(stats.values())
    for k in sorted(stats):
        print('%-18s %6d comparisons' % (k, stats[k]))
    print('total %d comparisons, %d disagreements' % (tot, len(diffs)))
    seen = {}
    for d in diffs:
        seen.setdefault(d[0], []).append(d)
    for mech, ds in seen.items():
        print('DISAGREE %s: %d case(s); first:' % (mech, len(ds)))
        for d in ds[:3]:
            print('   input  ', d[1])
            print('   library', d[2])
            print('   model  ', d[3])
    sys.exit(1 if diffs else 0)
