from common import *
import g12s, random, copy
R = random.Random(12)
vp = ctypes.c_void_p; cp = ctypes.c_char_p
GEN = ctypes.CFUNCTYPE(None, vp, c_size, vp)
class TapeGen:
    def __init__(self, data): self.data = bytes(data); self.pos = 0; self.cb = GEN(self.call); self.over = False
    def call(self, bufp, count, state):
        chunk = self.data[self.pos:self.pos + count]
        if len(chunk) < count: self.over = True; chunk = chunk + b'\x01' * (count - len(chunk))
        ctypes.memmove(bufp, chunk, count); self.pos += count
class PARAMS(ctypes.Structure):
    _fields_ = [('l', ctypes.c_uint32), ('p', ctypes.c_ubyte * 68), ('a', ctypes.c_ubyte * 68), ('b', ctypes.c_ubyte * 68), ('q', ctypes.c_ubyte * 64),
                ('n', ctypes.c_uint32), ('xP', ctypes.c_ubyte * 68), ('yP', ctypes.c_ubyte * 68)]
assert ctypes.sizeof(PARAMS) == 412
PP = ctypes.POINTER(PARAMS)
ParamsStd = fn('g12sParamsStd', ctypes.c_int, PP, cp)
ParamsVal = fn('g12sParamsVal', ctypes.c_int, PP)
KeypairGen = fn('g12sKeypairGen', ctypes.c_int, cp, cp, PP, GEN, vp)
Sign = fn('g12sSign', ctypes.c_int, cp, PP, cp, cp, GEN, vp)
Verify = fn('g12sVerify', ctypes.c_int, PP, cp, cp, cp)
def to_c(P):
    s = PARAMS(); s.l = P['l']; s.n = P['n'] & 0xFFFFFFFF
    for f, sz in (('p', 68), ('a', 68), ('b', 68), ('q', 64), ('xP', 68), ('yP', 68)):
        v = P[f]
        if v >= 1 << (8 * sz): return None
        ctypes.memmove(getattr(s, f), v.to_bytes(sz, 'little'), sz)
    return s
def from_c(s):
    return dict(l=s.l, n=s.n, **{f: int.from_bytes(bytes(getattr(s, f)), 'little') for f in ('p', 'a', 'b', 'q', 'xP', 'yP')})
dis = []; obs = []; cnt = {}
def tick(k): cnt[k] = cnt.get(k, 0) + 1
def D(*a): dis.append(a); print('DISAGREE', a)
STD = {}
for name in g12s.STD_NAMES:
    s = PARAMS(); assert ParamsStd(ctypes.byref(s), name.encode()) == 0; tick('std')
    P = g12s.params_std(name); STD[name] = P
    if from_c(s) != P: D('std', name)
    if ParamsVal(ctypes.byref(s)) != 0: D('stdval', name)
assert ParamsStd(ctypes.byref(PARAMS()), b'1.2.3') != 0
# ---- ParamsVal perturbations
def val_cmp(P, tag):
    s = to_c(P)
    if s is None: return
    tick('paramsval')
    # library ignores octets of a,b,xP,yP beyond no and of p,q beyond l/8: emulate "unused octets may be arbitrary" by not setting them
    g = ParamsVal(ctypes.byref(s)) == 0; e = g12s.params_val(P)
    if g != e: D('paramsval', tag, {k: (hex(v) if k not in ('l', 'n') else v) for k, v in P.items()}, 'lib', g, 'model', e)
for name, P0 in STD.items():
    fields = ('p', 'a', 'b', 'q', 'xP', 'yP')
    for f in fields:
        for delta in (1, -1, 2):
            P = dict(P0); P[f] = P0[f] + delta
            if P[f] >= 0: val_cmp(P, (name, f, delta))
        for bit in R.sample(range(P0['l']), 3):
            P = dict(P0); P[f] = P0[f] ^ (1 << bit); val_cmp(P, (name, f, 'bit', bit))
        P = dict(P0); P[f] = 0; val_cmp(P, (name, f, 'zero'))
    for f, v in (('a', P0['p']), ('b', P0['p']), ('xP', P0['p']), ('yP', P0['p'] - P0['yP']), ('yP', P0['p'] + P0['yP']), ('a', P0['a'] + P0['p']),
                 ('n', 0), ('n', P0['n'] + 1), ('n', 2**32 - 1), ('l', 768 - P0['l']), ('l', 0), ('l', 384), ('l', 257)):
        P = dict(P0); P[f] = v; val_cmp(P, (name, f, v))
    # other generator of the same group (valid), generator of order dividing cofactor, point at 2P
    G2 = g12s.ec_mul(R.randrange(2, P0['q']), (P0['xP'], P0['yP']), P0['a'], P0['p'])
    P = dict(P0); P['xP'], P['yP'] = G2; val_cmp(P, (name, 'other generator'))
# ---- keypair / sign / verify
def run(name, P, n_iter):
    s = to_c(P); q = P['q']; mo = P['l'] // 8; no = (P['p'].bit_length() + 7) // 8
    G = (P['xP'], P['yP'])
    ds = [1, 2, q - 1, q - 2] + [R.randrange(1, q) for _ in range(n_iter)]
    for d in ds:
        # keypair with a tape that first yields rejected candidates (0, q, all-ones when > q)
        rej = [0, q] + ([(1 << q.bit_length()) - 1] if (1 << q.bit_length()) - 1 >= q else [])
        tape = b''.join(x.to_bytes(mo, 'little') for x in R.sample(rej, R.randint(0, len(rej)))) + d.to_bytes(mo, 'little')
        tg = TapeGen(tape); priv = buf(mo); pub = buf(2 * no)
        rc = KeypairGen(priv, pub, ctypes.byref(s), tg.cb, None); tick('keypair')
        epriv, epub = g12s.keypair(P, g12s.rand_nz_mod(q, g12s._Tape(tape)))
        if rc != 0 or priv.raw != epriv or pub.raw != epub or tg.over: D('keypair', name, tape.hex())
        assert int.from_bytes(epriv, 'little') == d
        Q = g12s.pubkey_decode(P, epub)
        for h in [bytes(mo), b'\xff' * mo, q.to_bytes(mo, 'big'), ((q + 1) % (1 << 8 * mo)).to_bytes(mo, 'big'), (q - 1).to_bytes(mo, 'big'), R.randbytes(mo), R.randbytes(mo)]:
            k = R.choice([1, q - 1, R.randrange(1, q)])
            ktape = k.to_bytes(mo, 'little') + R.randrange(1, q).to_bytes(mo, 'little')
            tg = TapeGen(ktape); sig = buf(2 * mo)
            rc = Sign(sig, ctypes.byref(s), h, epriv, tg.cb, None); tick('sign')
            esig = g12s.sign_tape(P, h, epriv, ktape)
            if rc != 0 or sig.raw != esig:
                if int.from_bytes(sig.raw[mo:], 'big') == 0:
                    obs.append(('g12sSign emits s=0', dict(params=name, hash=h.hex(), privkey=epriv.hex(), rng_tape=ktape.hex(), lib_sig=sig.raw.hex(), model_sig=esig.hex(), lib_verify=Verify(ctypes.byref(s), h, sig.raw, epub))))
                else: D('sign', name, h.hex(), epriv.hex(), ktape.hex(), rc)
            def vcmp(h_, sig_, pub_, tag):
                tick('verify')
                rc = Verify(ctypes.byref(s), h_, sig_, pub_); e = g12s.verify(P, h_, sig_, pub_)
                if (rc == 0) != e: D('verify', name, tag, dict(hash=h_.hex(), sig=sig_.hex(), pubkey=pub_.hex(), lib=rc, model=e))
                return rc
            if vcmp(h, esig, epub, 'valid') != 0: D('valid signature rejected', name)
            r = int.from_bytes(esig[:mo], 'big'); sv = int.from_bytes(esig[mo:], 'big')
            enc = lambda r_, s_: (r_ % (1 << 8 * mo)).to_bytes(mo, 'big') + (s_ % (1 << 8 * mo)).to_bytes(mo, 'big')
            for tag, sg in (('r=0', enc(0, sv)), ('s=0', enc(r, 0)), ('r=q', enc(q, sv)), ('s=q', enc(r, q)), ('r+q', enc(r + q, sv)) if r + q < 1 << 8 * mo else ('r^1', enc(r ^ 1, sv)),
                            ('s+q', enc(r, sv + q)) if sv + q < 1 << 8 * mo else ('s^1', enc(r, sv ^ 1)), ('swap', enc(sv, r)), ('q-s', enc(r, q - sv)), ('q-r', enc(q - r, sv)),
                            ('bit', bytes(b ^ (1 << R.randrange(8)) if i == j else b for j, b in [(R.randrange(2 * mo), None)] for i, b in enumerate(esig)))):
                vcmp(h, sg, epub, tag)
            # hash: h and h+q (as numbers) are equivalent when both fit
            hv = int.from_bytes(h, 'big')
            if hv + q < 1 << 8 * mo: vcmp((hv + q).to_bytes(mo, 'big'), esig, epub, 'hash+q')
            vcmp(bytes(b ^ 1 if i == mo - 1 else b for i, b in enumerate(h)), esig, epub, 'hash^1')
            # public key variants
            x, y = Q; p = P['p']
            encp = lambda x_, y_: (x_ % (1 << 8 * no)).to_bytes(no, 'little') + (y_ % (1 << 8 * no)).to_bytes(no, 'little')
            for tag, pk in (('-Q', encp(x, p - y)), ('x+p', encp(x + p, y)) if x + p < 1 << 8 * no else ('x=p', encp(p, y)), ('y+p', encp(x, y + p)) if y + p < 1 << 8 * no else ('y=p', encp(x, p)),
                            ('offcurve y+1', encp(x, (y + 1) % p)), ('offcurve x+1', encp((x + 1) % p, y)), ('(0,0)', encp(0, 0)), ('2Q', encp(*g12s.ec_mul(2, Q, P['a'], p))), ('ff', b'\xff' * (2 * no))):
                vcmp(h, esig, pk, 'pub ' + tag)
    # bad private keys
    for d in (0, q, q + 1, (1 << 8 * mo) - 1):
        if d >= 1 << 8 * mo: continue
        tg = TapeGen((1).to_bytes(mo, 'little')); sig = buf(2 * mo); tick('sign-badpriv')
        rc = Sign(sig, ctypes.byref(s), bytes(mo), d.to_bytes(mo, 'little'), tg.cb, None)
        if rc != 504: D('sign bad privkey accepted', name, d, rc)
    # crafted s = 0: d = -k e r^-1 mod q
    for _ in range(3):
        k = R.randrange(1, q); h = R.randbytes(mo); e = g12s.hash_to_e(P, h)
        r = g12s.ec_mul(k, G, P['a'], P['p'])[0] % q
        if r == 0: continue
        d = -k * e * pow(r, -1, q) % q
        if d == 0: continue
        tape = k.to_bytes(mo, 'little') + (k + 1 if k + 1 < q else 1).to_bytes(mo, 'little')
        tg = TapeGen(tape); sig = buf(2 * mo); tick('sign-s0')
        rc = Sign(sig, ctypes.byref(s), h, d.to_bytes(mo, 'little'), tg.cb, None)
        esig = g12s.sign_tape(P, h, d.to_bytes(mo, 'little'), tape)
        _, epub = g12s.keypair(P, d)
        if rc != 0 or sig.raw != esig:
            vr = Verify(ctypes.byref(s), h, sig.raw, epub)
            obs.append(('g12sSign emits s=0 (standard step 5: if s = 0 return to step 3)', dict(params=name, hash=h.hex(), privkey=d.to_bytes(mo, 'little').hex(), rng_tape=tape.hex(), lib_rc=rc, lib_sig=sig.raw.hex(), model_sig=esig.hex(), lib_verify_of_lib_sig=vr)))
for name in g12s.STD_NAMES:
    run(name, STD[name], 2 if STD[name]['l'] == 512 else 4)
print('counts', cnt); print('disagreements', len(dis))
for o in obs[:4]: print('OBS', o)
print('obs total', len(obs))
