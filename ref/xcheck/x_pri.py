from common import *
import pri, random, ctypes
R = random.Random(20260926)
vp = ctypes.c_void_p
priIsPrimeW = fn('priIsPrimeW', ctypes.c_int, c_word, vp)
priIsPrime = fn('priIsPrime', ctypes.c_int, vp, c_size, vp)
priRMTest = fn('priRMTest', ctypes.c_int, vp, c_size, c_size, vp)
priNextPrimeW = fn('priNextPrimeW', ctypes.c_int, vp, c_word, vp)
priNextPrime = fn('priNextPrime', ctypes.c_int, vp, vp, c_size, c_size, c_size, c_size, vp)
priIsSieved = fn('priIsSieved', ctypes.c_int, vp, c_size, c_size, vp)
priIsSmooth = fn('priIsSmooth', ctypes.c_int, vp, c_size, c_size, vp)
priIsSGPrime = fn('priIsSGPrime', ctypes.c_int, vp, c_size, vp)
priBaseSize = fn('priBaseSize', c_size)
priBasePrime = fn('priBasePrime', c_word, c_size)
stack = buf(1 << 20)
dis = []
cnt = {}
def tick(k): cnt[k] = cnt.get(k, 0) + 1
def D(*a):
    dis.append(a); print('DISAGREE', a)

# factor base
assert priBaseSize() == 1024
fb = pri.factor_base(1024)
for i in range(1024):
    if priBasePrime(i) != fb[i]: D('base', i)
    tick('base')

# IsPrimeW
cands = list(range(0, 70000)) + list(range(1373653 - 500, 1373653 + 500)) + \
    list(range(4759123141 - 300, 4759123141 + 300)) + list(range(2**32 - 300, 2**32 + 300)) + \
    list(range(2**64 - 600, 2**64))
cands += [R.getrandbits(R.randint(2, 64)) | 1 for _ in range(20000)]
cands += list(pri.carmichael(300000)) + pri.strong_pseudoprimes([2], 300000)
cands += [25326001, 3215031751, 2152302898747, 3474749660383, 341550071728321, 3825123056546413051,
          4759123141, 1373653, 3825123056546413051, 18446744073709551557, 18446744073709551556]
# products of two primes near 2^32 and p*(2p-1) style pseudoprimes
for _ in range(2000):
    p = pri.next_prime_ge(R.getrandbits(31) | (1 << 30), 32)
    if p and pri.is_prime(2 * p - 1) and p * (2 * p - 1) < 2**64: cands.append(p * (2 * p - 1))
    q = pri.next_prime_ge(R.getrandbits(31) | (1 << 30), 32)
    if p and q: cands.append(p * q)
for a in cands:
    tick('IsPrimeW')
    if bool(priIsPrimeW(a, stack)) != pri.is_prime(a): D('priIsPrimeW', a)

# IsPrime multiword (including non-normalised n)
cands = [0, 1, 2, 3, 4, 5, 7, 9, 25, 35, 47, 49, 121, 2**32 + 1, 2**521 - 1, 2**256 - 357, 2**256 - 189,
         3317044064679887385961981, 318665857834031151167461, (2**127 - 1) * (2**89 - 1), 2**127 - 1, 2**64 + 13]
cands += list(range(0, 300))
cands += [R.getrandbits(R.randint(2, 300)) | 1 for _ in range(400)]
for _ in range(60):
    b = R.randint(60, 260)
    cands.append(pri.next_prime_ge(R.getrandbits(b) | (1 << (b - 1)), b + 1))
    p = pri.next_prime_ge(R.getrandbits(40) | (1 << 39), 41); q = pri.next_prime_ge(R.getrandbits(50) | (1 << 49), 51)
    cands.append(p * q); cands.append(p * p)
for a in cands:
    if a is None: continue
    n = max(1, (a.bit_length() + 63) // 64)
    for nn in (n, n + 1):
        tick('IsPrime')
        if bool(priIsPrime(words(a, nn), nn, stack)) != pri.is_prime(a): D('priIsPrime', a, nn)

# NextPrimeW
cands = list(range(0, 3000)) + [2**k + d for k in range(2, 64) for d in (-3, -2, -1, 0, 1, 2)] + \
    list(range(2**64 - 200, 2**64)) + [R.getrandbits(R.randint(2, 64)) for _ in range(3000)]
for a in cands:
    tick('NextPrimeW')
    p = words(0, 1)
    ok = priNextPrimeW(p, a, stack)
    exp = pri.next_prime(a)
    got = p[0] if ok else None
    if got != exp: D('priNextPrimeW', a, got, exp)

# NextPrime: n words, trials, base_count, iter=64
def np_check(a, n, trials, base_count):
    tick('NextPrime')
    p = words(0, n)
    ok = priNextPrime(p, words(a, n), n, SIZE_MAX if trials is None else trials, base_count, 64, stack)
    got = from_words(p) if ok else None
    exp = pri.next_prime(a, trials)
    if got != exp: D('priNextPrime', dict(a=a, n=n, trials=trials, base_count=base_count, got=got, exp=exp))
for a in list(range(0, 600)) + [8160, 8161, 8166, 8167, 8168, 8190, 8191]:
    for n in (1, 2):
        for bc in (0, 1, 10, 1024):
            np_check(a, n, None, bc)
for _ in range(400):
    b = R.randint(2, 200)
    a = R.getrandbits(b) | (1 << (b - 1))
    if R.random() < .3: a = (1 << b) - R.randint(1, 300)
    n = (b + 63) // 64 + R.randint(0, 1)
    np_check(a, n, R.choice([None, 0, 1, 2, 5, 20, 100]), R.choice([0, 1, 10, 100, 1024]))
np_check(2**256 - 400, 4, 21, 10); np_check(2**256 - 400, 4, 22, 10); np_check(2**256 - 188, 4, None, 10)
np_check(2**256 - 356, 4, 83, 10); np_check(2**256 - 356, 4, 84, 10)
np_check(2**64 - 58, 1, None, 10); np_check(2**64 - 58, 2, None, 10); np_check(2**128 - 158, 2, None, 5)

# IsSieved / IsSmooth
def ss_check(a, n, bc):
    tick('Sieved/Smooth')
    got = bool(priIsSieved(words(a, n), n, bc, stack)); exp = pri.is_sieved(a, bc)
    if got != exp: D('priIsSieved', dict(a=a, n=n, bc=bc, got=got, exp=exp))
    if a != 0:  # a = 0 loops forever in the library (outside domain); checked separately
        got = bool(priIsSmooth(words(a, n), n, bc, stack)); exp = pri.is_smooth(a, bc)
        if got != exp: D('priIsSmooth', dict(a=a, n=n, bc=bc, got=got, exp=exp))
for a in range(0, 400):
    for bc in (0, 1, 2, 5, 10, 50, 1024):
        for n in (1, 2): ss_check(a, n, bc)
for a in fb[-5:] + [8171, 8167 * 8167, 8167 * 8171, 8171 * 8171, 3 * 8167, 2 * 8167]:
    for bc in (1023, 1024): ss_check(a, 1, bc); ss_check(a, 3, bc)
for _ in range(600):
    bc = R.choice([0, 1, 3, 10, 64, 500, 1024])
    a = 1
    for _ in range(R.randint(0, 30)): a *= R.choice([2] + fb[:max(bc, 1) + R.randint(0, 3)])
    if R.random() < .3: a += 2
    n = (a.bit_length() + 63) // 64 + R.randint(0, 1) or 1
    ss_check(a, n, bc)
for _ in range(300):
    a = R.getrandbits(R.randint(1, 256)); n = (a.bit_length() + 63) // 64 + 1
    ss_check(a, n, R.choice([0, 10, 1024]))

# SGPrime
for q in [3, 5, 7, 11, 13, 23, 29, 2**256 - 29237, 2**256 - 189] + [pri.next_prime_ge(R.getrandbits(b) | 1 << (b - 1), b + 1) for b in range(3, 130)]:
    n = (q.bit_length() + 63) // 64
    tick('SGPrime')
    if bool(priIsSGPrime(words(q, n), n, stack)) != pri.is_sg_prime(q): D('priIsSGPrime', q)
    # odd composite q (outside 'expect' but inside 'pre'): deterministic test claims no errors
for q in [9, 15, 21, 25, 27, 33, 35, 39, 45, 49, 51, 55, 57, 63, 65, 69, 75, 77, 81, 85, 87, 91, 93, 95, 99]:
    tick('SGPrime-compositeq')
    got = bool(priIsSGPrime(words(q, 1), 1, stack))
    if got and not pri.is_prime(2 * q + 1): D('priIsSGPrime composite q accepted, 2q+1 composite', q)
print('counts', cnt)
print('disagreements', len(dis))
