"""Exact reproducing inputs for every disagreement found during cross-checks (baseline lib). Each case runs in a
child process where a crash/hang is possible. Usage: python3 repro.py"""
import subprocess, sys, os, textwrap
HERE = os.path.dirname(os.path.abspath(__file__))
def child(code, timeout=10):
    try:
        r = subprocess.run([sys.executable, '-c', 'import sys; sys.path.insert(0, %r)\nfrom common import *\n' % HERE + textwrap.dedent(code)], capture_output=True, text=True, timeout=timeout, cwd=HERE)
        return 'rc=%s %s' % (r.returncode, (r.stdout + r.stderr[-300:]).strip().replace('\n', ' | '))
    except subprocess.TimeoutExpired:
        return 'TIMEOUT (hang)'
cases = {
'P1 priNextPrime(a=8160, n=2 words, trials=SIZE_MAX, base_count=1024, iter=64) -> expect 8161': '''
    import pri
    f = fn('priNextPrime', ctypes.c_int, ctypes.c_void_p, ctypes.c_void_p, c_size, c_size, c_size, c_size, ctypes.c_void_p)
    p = words(0, 2); ok = f(p, words(8160, 2), 2, SIZE_MAX, 1024, 64, buf(1 << 16)); print('lib', ok, from_words(p), 'model', pri.next_prime(8160))
    p = words(0, 2); ok = f(p, words(11, 2), 2, SIZE_MAX, 10, 64, buf(1 << 16)); print('| a=11,n=2,base_count=10: lib', ok, from_words(p), 'model', pri.next_prime(11))''',
'P2 priIsSmooth(a=0, n=1, base_count=10)': '''
    f = fn('priIsSmooth', ctypes.c_int, ctypes.c_void_p, c_size, c_size, ctypes.c_void_p); print(f(words(0, 1), 1, 10, buf(4096)))''',
'PP1 ppMod(r, a=5 [n=1], b=1 [m=1])': '''
    f = fn('ppMod', None, ctypes.c_void_p, ctypes.c_void_p, c_size, ctypes.c_void_p, c_size, ctypes.c_void_p); r = words(0, 4); f(r, words(5, 1), 1, words(1, 1), 1, buf(1 << 16)); print('returned', from_words(r))''',
'PP2 ppDiv(q, r, a=5 [n=1], b=1 [m=1])': '''
    f = fn('ppDiv', None, ctypes.c_void_p, ctypes.c_void_p, ctypes.c_void_p, c_size, ctypes.c_void_p, c_size, ctypes.c_void_p); q = words(0, 4); r = words(0, 4); f(q, r, words(5, 1), 1, words(1, 1), 1, buf(1 << 16)); print('returned', from_words(q), from_words(r))''',
'T1 tmDateIsValid2({0,0,0,11,0,1}) and {255,0,0,1,0,1} -> expect 0': '''
    import dates
    f = fn('tmDateIsValid2', ctypes.c_int, ctypes.c_char_p)
    for d in (bytes([0, 0, 0, 11, 0, 1]), bytes([255, 0, 0, 1, 0, 1]), bytes([0, 10, 0, 1, 0, 10])): print(list(d), 'lib', f(d), 'model', dates.date6_is_valid(d), end=' ; ')''',
'B1 belsShare with mi[1] == m0 (len 16): share 2 equals the secret; expect ERR_BAD_PUBKEY': '''
    import bels
    GEN = ctypes.CFUNCTYPE(None, ctypes.c_void_p, c_size, ctypes.c_void_p)
    tape = bytes.fromhex('ae6a0c82bdfadee07deb86b6bdfe32e3')
    cb = GEN(lambda b, c, s: ctypes.memmove(b, tape[:c], c))
    f = fn('belsShare', ctypes.c_int, ctypes.c_char_p, c_size, c_size, c_size, ctypes.c_char_p, ctypes.c_char_p, ctypes.c_char_p, GEN, ctypes.c_void_p)
    s = bytes.fromhex('0c7246169a5f8498e7670e996b123a4f'); m0 = bels.std_m(16, 0); mi = bels.std_m(16, 1) + m0 + bels.std_m(16, 2)
    out = buf(48); rc = f(out, 3, 2, 16, s, m0, mi, cb, None); print('rc', rc, 'share2 == secret:', out.raw[16:32] == s)
    mi = bels.std_m(16, 1) + bels.std_m(16, 2) + bels.std_m(16, 1); rc = f(out, 3, 2, 16, s, m0, mi, cb, None); print('| duplicate mi: rc', rc, 'share1 == share3:', out.raw[:16] == out.raw[32:])
    mi = bels.std_m(16, 1) + bytes([1]) + bytes(15) + bels.std_m(16, 2); rc = f(out, 3, 2, 16, s, m0, mi, cb, None); print('| reducible mi (x^128+1): rc', rc)''',
'B2 belsShare3 one-time key: compress(~K || 0) instead of documented compress(~K || K)': '''
    import bels
    f = fn('belsShare3', ctypes.c_int, ctypes.c_char_p, c_size, c_size, c_size, ctypes.c_char_p); s = bytes(range(16)); out = buf(17 * 5); f(out, 5, 3, 16, s)
    print('matches comment variant:', out.raw == b''.join(bels.share_det(s, 3, 5, 'comment')), 'matches ~K||0 variant:', out.raw == b''.join(bels.share_det(s, 3, 5, 'bee2')))''',
'B3 belsGenMi with ang yielding u = 0 three times -> ERR_BAD_PUBKEY (505) although m0 is valid (documented: ERR_BAD_ANG)': '''
    import bels
    GEN = ctypes.CFUNCTYPE(None, ctypes.c_void_p, c_size, ctypes.c_void_p); cb = GEN(lambda b, c, s: ctypes.memset(b, 0, c))
    f = fn('belsGenMi', ctypes.c_int, ctypes.c_char_p, c_size, ctypes.c_char_p, GEN, ctypes.c_void_p); print('rc', f(buf(16), 16, bels.std_m(16, 0), cb, None))''',
'G1 g12sSign emits s = 0 (params 1.2.643.2.2.35.1, hash 0^32, d = 1, k = q-1); g12sVerify rejects it': '''
    import g12s, x_g12s_min as X
    ''',
}
# g12s / dstu / stb99 cases need struct helpers: keep them self-contained here
G12S = '''
    import g12s
    class PARAMS(ctypes.Structure):
        _fields_ = [('l', ctypes.c_uint32), ('p', ctypes.c_ubyte * 68), ('a', ctypes.c_ubyte * 68), ('b', ctypes.c_ubyte * 68), ('q', ctypes.c_ubyte * 64), ('n', ctypes.c_uint32), ('xP', ctypes.c_ubyte * 68), ('yP', ctypes.c_ubyte * 68)]
    GEN = ctypes.CFUNCTYPE(None, ctypes.c_void_p, c_size, ctypes.c_void_p)
    s = PARAMS(); fn('g12sParamsStd', ctypes.c_int, ctypes.POINTER(PARAMS), ctypes.c_char_p)(ctypes.byref(s), b'1.2.643.2.2.35.1')
    P = g12s.params_std('1.2.643.2.2.35.1'); q = P['q']
    Sign = fn('g12sSign', ctypes.c_int, ctypes.c_char_p, ctypes.POINTER(PARAMS), ctypes.c_char_p, ctypes.c_char_p, GEN, ctypes.c_void_p)
    Verify = fn('g12sVerify', ctypes.c_int, ctypes.POINTER(PARAMS), ctypes.c_char_p, ctypes.c_char_p, ctypes.c_char_p)
'''
cases['G1 g12sSign emits s = 0 (params 1.2.643.2.2.35.1, hash 0^32, d = 1, k = q-1); g12sVerify rejects it'] = G12S + '''
    tape = (q - 1).to_bytes(32, 'little') + (12345).to_bytes(32, 'little'); st = {'pos': 0}
    def gen(b, c, _):
        ctypes.memmove(b, tape[st['pos']:st['pos'] + c], c); st['pos'] += c
    cb = GEN(gen); sig = buf(64); d = (1).to_bytes(32, 'little'); h = bytes(32)
    rc = Sign(sig, ctypes.byref(s), h, d, cb, None); _, pub = g12s.keypair(P, 1)
    print('sign rc', rc, 'sig', sig.raw.hex(), '| verify(lib sig) rc', Verify(ctypes.byref(s), h, sig.raw, pub), '| model sig', g12s.sign_tape(P, h, d, tape).hex()[:32] + '..')'''
cases['G2 g12sVerify accepts off-curve public key (0,0): params 1.2.643.2.2.35.1, hash 0^32, sig r=1||s=1, pubkey 0^64 -> expect reject'] = G12S + '''
    h = bytes(32); sig = (1).to_bytes(32, 'big') * 2; pub = bytes(64)
    print('lib rc', Verify(ctypes.byref(s), h, sig, pub), 'model', g12s.verify(P, h, sig, pub), 'on curve:', g12s.ec_on_curve((0, 0), P['a'], P['b'], P['p']))'''
DSTU = '''
    import dstu
    class PARAMS(ctypes.Structure):
        _fields_ = [('p', ctypes.c_uint16 * 4), ('A', ctypes.c_ubyte), ('B', ctypes.c_ubyte * 64), ('n', ctypes.c_ubyte * 64), ('c', ctypes.c_uint32), ('P', ctypes.c_ubyte * 128)]
    GEN = ctypes.CFUNCTYPE(None, ctypes.c_void_p, c_size, ctypes.c_void_p)
    name = '1.2.804.2.1.1.1.1.3.1.1.1.2.0'
    s = PARAMS(); fn('dstuParamsStd', ctypes.c_int, ctypes.POINTER(PARAMS), ctypes.c_char_p)(ctypes.byref(s), name.encode())
    P = dstu.params_std(name); fl = dstu.F(P); no = 21
'''
cases['D1 dstuPointCompress of (0, sqrt(B)) into a separate buffer: xpoint left unwritten (expect 21 zero octets)'] = DSTU + '''
    f = fn('dstuPointCompress', ctypes.c_int, ctypes.c_char_p, ctypes.POINTER(PARAMS), ctypes.c_char_p)
    xb = ctypes.create_string_buffer(b'\\xAA' * no, no); rc = f(xb, ctypes.byref(s), dstu.encode_point(P, (0, fl.sqrt(P['B'])))); print('rc', rc, 'xpoint', xb.raw.hex())'''
cases['D2 dstuPointRecover of xpoint = 0: y written at offset f->n (words) not no (octets), x not written'] = DSTU + '''
    f = fn('dstuPointRecover', ctypes.c_int, ctypes.c_char_p, ctypes.POINTER(PARAMS), ctypes.c_char_p)
    pb = ctypes.create_string_buffer(b'\\xAA' * 42, 42); rc = f(pb, ctypes.byref(s), bytes(no)); print('rc', rc, 'point', pb.raw.hex(), 'expected', dstu.encode_point(P, (0, fl.sqrt(P['B']))).hex())'''
cases['D3 dstuSign accepts privkey = 0 and privkey = n (expect ERR_BAD_PRIVKEY 504)'] = DSTU + '''
    f = fn('dstuSign', ctypes.c_int, ctypes.c_char_p, ctypes.POINTER(PARAMS), c_size, ctypes.c_char_p, c_size, ctypes.c_char_p, GEN, ctypes.c_void_p)
    cb = GEN(lambda b, c, _: ctypes.memset(b, 0x5A, c))
    for d in (0, P['n']): print('d =', hex(d)[:12], 'rc', f(buf(64), ctypes.byref(s), 512, b'abc', 3, d.to_bytes(21, 'little'), cb, None), end=' ; ')'''
cases['D4 dstuVerify accepts off-curve public key (0,0) (curve 233, ld=1024)'] = '''
    import dstu
    class PARAMS(ctypes.Structure):
        _fields_ = [('p', ctypes.c_uint16 * 4), ('A', ctypes.c_ubyte), ('B', ctypes.c_ubyte * 64), ('n', ctypes.c_ubyte * 64), ('c', ctypes.c_uint32), ('P', ctypes.c_ubyte * 128)]
    GEN = ctypes.CFUNCTYPE(None, ctypes.c_void_p, c_size, ctypes.c_void_p)
    name = '1.2.804.2.1.1.1.1.3.1.1.1.2.5'; s = PARAMS(); fn('dstuParamsStd', ctypes.c_int, ctypes.POINTER(PARAMS), ctypes.c_char_p)(ctypes.byref(s), name.encode())
    P = dstu.params_std(name); no = 30; ono = 30
    # base point: generated by dstuPointGen from an all-0x11.. counter tape (deterministic), same in the model
    tape = bytes((17 * i + 3) % 256 for i in range(no * 400)); st = {'pos': 0}
    def gen(b, c, _):
        ctypes.memmove(b, tape[st['pos']:st['pos'] + c], c); st['pos'] += c
    cb = GEN(gen); pt = buf(2 * no); assert fn('dstuPointGen', ctypes.c_int, ctypes.c_char_p, ctypes.POINTER(PARAMS), GEN, ctypes.c_void_p)(pt, ctypes.byref(s), cb, None) == 0
    P['P'] = dstu.point_gen(P, tape); assert dstu.encode_point(P, P['P']) == pt.raw; ctypes.memmove(s.P, pt.raw, 2 * no)
    Verify = fn('dstuVerify', ctypes.c_int, ctypes.POINTER(PARAMS), c_size, ctypes.c_char_p, c_size, ctypes.c_char_p, ctypes.c_char_p)
    import random; R = random.Random(5); found = None
    for i in range(500):
        h = R.randbytes(32); d = R.choice([1, R.getrandbits(231) | 1]); e = R.choice([1, P['n'] - 1, R.getrandbits(231) | 1])
        sig = dstu.sign(P, 1024, h, d, e)
        if sig is None: continue
        rc = Verify(ctypes.byref(s), 1024, h, 32, sig, bytes(2 * no))
        if rc == 0: found = (h.hex(), sig.hex(), e, d); break
    print('base point', pt.raw.hex()[:24] + '..', '| accepted with pubkey (0,0):', found is not None, found and ('hash ' + found[0] + ' sig ' + found[1] + ' e=%d d=%d' % (found[2], found[3])), '| model verify:', found and dstu.verify(P, 1024, bytes.fromhex(found[0]), bytes.fromhex(found[1]), bytes(2 * no)))'''
cases['S1 stb99ParamsVal accepts a = 0, d = 0 ("test" params; header: 0 < a, d < p)'] = '''
    import stb99
    class PARAMS(ctypes.Structure):
        _fields_ = [('l', c_size), ('r', c_size), ('p', ctypes.c_ubyte * 308), ('q', ctypes.c_ubyte * 33), ('a', ctypes.c_ubyte * 308), ('d', ctypes.c_ubyte * 308)]
    s = PARAMS(); fn('stb99ParamsStd', ctypes.c_int, ctypes.POINTER(PARAMS), ctypes.c_void_p, ctypes.c_char_p)(ctypes.byref(s), None, b'test')
    ctypes.memset(s.a, 0, 308); ctypes.memset(s.d, 0, 308); print('lib rc', fn('stb99ParamsVal', ctypes.c_int, ctypes.POINTER(PARAMS))(ctypes.byref(s)), '(0 = ERR_OK)')'''
cases['S2 stb99SeedVal: di[0] bound and ri chain rule differ from stb99.h'] = '''
    import stb99
    class SEED(ctypes.Structure):
        _fields_ = [('l', c_size), ('zi', ctypes.c_uint16 * 31), ('di', c_size * 18), ('ri', c_size * 10)]
    f = fn('stb99SeedVal', ctypes.c_int, ctypes.POINTER(SEED))
    def run(S):
        c = SEED(); c.l = S['l']
        for i in range(31): c.zi[i] = S['zi'][i]
        for i in range(18): c.di[i] = S['di'][i]
        for i in range(10): c.ri[i] = S['ri'][i]
        return f(ctypes.byref(c))
    S = {'l': 638, 'zi': list(range(1, 32)), 'di': [416, 209, 105, 53, 27] + [0] * 13, 'ri': [143, 72, 37, 19] + [0] * 6}
    print('di[0]=416 > 7*638/8-143=415: lib rc', run(S), 'model', stb99.seed_val(S))
    S = {'l': 1022, 'zi': list(range(1, 32)), 'di': [512, 257, 129, 65, 33, 17] + [0] * 12, 'ri': [175, 88, 45, 23, 17] + [0] * 5}
    print('| ri=[175,88,45,23,17] (5*17/4 < 23): lib rc', run(S), 'model', stb99.seed_val(S))'''
for name, code in cases.items():
    print(name, '\n    ->', child(code, 300 if name.startswith('D4') else 10))
