from common import *
import dates, random, itertools
R = random.Random(3)
V = fn('tmDateIsValid', ctypes.c_int, c_size, c_size, c_size)
V2 = fn('tmDateIsValid2', ctypes.c_int, ctypes.c_char_p)
dis = []; c1 = c2 = 0
ys = list(range(1570, 2500)) + [0, 1, 9999, 10000, 12000, 12100, 2**32, 2**32 + 1900, 2**64 - 1, 2**64 - 16]
for y in ys:
    for m in range(0, 15):
        for d in range(0, 34):
            c1 += 1
            if bool(V(y, m, d)) != dates.date_is_valid(y, m, d): dis.append(('tmDateIsValid', y, m, d))
for _ in range(20000):
    y, m, d = R.choice([R.getrandbits(64), R.randint(1500, 3000)]), R.choice([R.getrandbits(64), R.randint(0, 13)]), R.choice([R.getrandbits(64), R.randint(0, 32)])
    c1 += 1
    if bool(V(y, m, d)) != dates.date_is_valid(y, m, d): dis.append(('tmDateIsValid', y, m, d))
# date6: exhaustive over digit octets 0..12 for all six positions is 13^6=4.8M; do 0..11 on month/day, 0..10 on year
kinds = {}
for t in itertools.product(range(11), range(11), range(12), range(12), range(12), range(12)):
    b = bytes(t); c2 += 1
    g, e = bool(V2(b)), dates.date6_is_valid(b)
    if g != e:
        k = tuple(i for i, x in enumerate(t) if x > 9)
        kinds.setdefault((k, g, e), []).append(t)
for _ in range(50000):
    b = bytes(R.choice([R.randint(0, 9), R.randint(0, 255)]) for _ in range(6)); c2 += 1
    g, e = bool(V2(b)), dates.date6_is_valid(b)
    if g != e:
        k = tuple(i for i, x in enumerate(b) if x > 9)
        kinds.setdefault((k, g, e), []).append(tuple(b))
print('tmDateIsValid compared', c1, 'disagreements', len(dis), dis[:5])
print('tmDateIsValid2 compared', c2, 'disagreement classes (non-digit positions, lib, model): count, first example')
for k, v in sorted(kinds.items()): print(' ', k, len(v), v[0])
