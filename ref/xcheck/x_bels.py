from common import *
import bels, polys, random, itertools
R = random.Random(60)
vp = ctypes.c_void_p; cp = ctypes.c_char_p
GEN = ctypes.CFUNCTYPE(None, vp, c_size, vp)
class TapeGen:
    def __init__(self, data): self.data = bytes(data); self.pos = 0; self.cb = GEN(self.call)
    def call(self, bufp, count, state):
        chunk = self.data[self.pos:self.pos + count]
        assert len(chunk) == count, 'tape exhausted'
        ctypes.memmove(bufp, chunk, count); self.pos += count
belsStdM = fn('belsStdM', ctypes.c_int, cp, c_size, c_size)
belsValM = fn('belsValM', ctypes.c_int, cp, c_size)
belsGenM0 = fn('belsGenM0', ctypes.c_int, cp, c_size, GEN, vp)
belsGenMi = fn('belsGenMi', ctypes.c_int, cp, c_size, cp, GEN, vp)
belsGenMid = fn('belsGenMid', ctypes.c_int, cp, c_size, cp, cp, c_size)
belsShare = fn('belsShare', ctypes.c_int, cp, c_size, c_size, c_size, cp, cp, cp, GEN, vp)
belsShare2 = fn('belsShare2', ctypes.c_int, cp, c_size, c_size, c_size, cp, GEN, vp)
belsShare3 = fn('belsShare3', ctypes.c_int, cp, c_size, c_size, c_size, cp)
belsRecover = fn('belsRecover', ctypes.c_int, cp, c_size, c_size, cp, cp, cp)
belsRecover2 = fn('belsRecover2', ctypes.c_int, cp, c_size, c_size, cp)
E = {0: 'OK', 109: 'BAD_INPUT', 505: 'BAD_PUBKEY', 304: 'BAD_RNG', 305: 'BAD_ANG'}
dis = []; cnt = {}
def tick(k): cnt[k] = cnt.get(k, 0) + 1
def D(*a): dis.append(a); print('DISAGREE', a)
def model(f, *a):
    try: return 'OK', f(*a)
    except ValueError as e: return str(e), None
# std / val
for L in (16, 24, 32):
    for num in range(17):
        b = buf(L); assert belsStdM(b, L, num) == 0; tick('std')
        if b.raw != bels.std_m(L, num): D('stdm', L, num)
irr = {16: [], 24: [], 32: []}
for L in (16, 24, 32):
    for i in range(500):
        m = R.randbytes(L)
        if i % 5 == 0: m = bytes([m[0] | 1]) + bytes(R.randint(0, L - 2)) ; m = m + R.randbytes(L - len(m))
        if i % 7 == 0: m = (R.getrandbits(20) | 1).to_bytes(L, 'little')
        g = belsValM(m, L) == 0; e = bels.val_m(m); tick('val')
        if g != e: D('valm', m.hex())
        if e: irr[L].append(m)
    for m in [bytes(L), b'\x01' + bytes(L - 1), b'\xff' * L]:
        tick('val')
        if (belsValM(m, L) == 0) != bels.val_m(m): D('valm', m.hex())
print('irreducible found', {k: len(v) for k, v in irr.items()})
# GenM0
for L in (16, 24, 32):
    for _ in range(15):
        data = R.randbytes(L * 1500)
        tg = TapeGen(data); out = buf(L)
        rc = belsGenM0(out, L, tg.cb, None); exp = bels.gen_m0(L, data); tick('genm0')
        if rc != 0 or out.raw != exp: D('genm0', L, data[:64].hex())
        irr[L].append(exp)
# GenMi
for L in (16, 24, 32):
    for i in range(40):
        m0 = R.choice(irr[L] + [bels.std_m(L, 0)])
        data = R.randbytes(3 * L)
        if i % 8 == 0: data = bytes(L) + (b'\x01' + bytes(L - 1)) + R.randbytes(L)   # u=0, u=1 => low degree
        if i % 8 == 1: data = (b'\x02' + bytes(L - 1)) + R.randbytes(2 * L)          # u=x => f=f0 => rejected
        tg = TapeGen(data); out = buf(L)
        rc = belsGenMi(out, L, m0, tg.cb, None); exp = bels.gen_mi(L, m0, data); tick('genmi')
        if (rc == 0) != (exp is not None) or (rc == 0 and out.raw != exp): D('genmi', L, m0.hex(), data.hex(), rc)
    # all three attempts fail
    for data in [bytes(3 * L), (b'\x02' + bytes(L - 1)) * 3, (b'\x01' + bytes(L - 1)) * 3]:
        tg = TapeGen(data); out = buf(L); rc = belsGenMi(out, L, bels.std_m(L, 0), tg.cb, None); tick('genmi')
        if rc == 0 or bels.gen_mi(L, bels.std_m(L, 0), data) is not None: D('genmi-fail', L, data.hex(), rc)
        print('  genmi all-fail tape', data[:2].hex(), 'rc', E.get(rc, rc))
# GenMid
for L in (16, 24, 32):
    for i in range(40):
        m0 = R.choice(irr[L] + [bels.std_m(L, 0)]); ident = R.randbytes(R.randint(0, 70))
        out = buf(L); rc = belsGenMid(out, L, m0, ident, len(ident)); exp = bels.gen_mid(L, m0, ident); tick('genmid')
        if rc != 0 or out.raw != exp: D('genmid', L, m0.hex(), ident.hex())
# Share / Recover
def lib_share(s, t, c, m0, mis, tape):
    L = len(s); tg = TapeGen(tape); out = buf(L * c)
    rc = belsShare(out, c, t, L, s, m0, b''.join(mis), tg.cb, None)
    return rc, [out.raw[i * L:(i + 1) * L] for i in range(c)]
def lib_recover(sh, m0, mis):
    L = len(m0); out = buf(L)
    rc = belsRecover(out, len(sh), L, b''.join(sh), m0, b''.join(mis))
    return rc, out.raw
for L in (16, 24, 32):
    pool = [bels.std_m(L, i) for i in range(1, 17)] + irr[L]
    for it in range(60):
        c = R.randint(1, 10); t = R.randint(1, c)
        m0 = R.choice([bels.std_m(L, 0)] + irr[L])
        mis = R.sample([m for m in pool if m != m0], c)
        s = R.choice([R.randbytes(L), bytes(L), b'\xff' * L])
        tape = R.choice([R.randbytes((t - 1) * L), bytes((t - 1) * L), b'\xff' * ((t - 1) * L)])
        rc, sh = lib_share(s, t, c, m0, mis, tape); tick('share')
        st, exp = model(bels.share, s, t, c, m0, mis, tape)
        if rc != 0 or st != 'OK' or sh != exp: D('share', L, s.hex(), t, c, m0.hex(), tape.hex()); continue
        for _ in range(4):
            k = R.randint(1, c); idx = R.sample(range(c), k)
            rc, got = lib_recover([sh[i] for i in idx], m0, [mis[i] for i in idx]); tick('recover')
            exp = bels.recover([sh[i] for i in idx], m0, [mis[i] for i in idx])
            if rc != 0 or got != exp: D('recover', L, idx)
            if k >= t and exp != s: D('recover-spec', L, idx)
    # Share2 / Share3 / Recover2
    for it in range(30):
        c = R.randint(1, 16); t = R.randint(1, c); s = R.randbytes(L); tape = R.randbytes((t - 1) * L)
        tg = TapeGen(tape); out = buf((L + 1) * c)
        rc = belsShare2(out, c, t, L, s, tg.cb, None); tick('share2')
        exp = bels.share_std(s, t, c, tape)
        if rc != 0 or out.raw != b''.join(exp): D('share2', L, s.hex(), t, c, tape.hex())
        out3 = buf((L + 1) * c); rc = belsShare3(out3, c, t, L, s); tick('share3')
        exp3 = bels.share_det(s, t, c, 'bee2'); expdoc = bels.share_det(s, t, c, 'comment')
        if t > 1 and exp3 != expdoc: cnt['share3 differs from bels.c comment variant'] = cnt.get('share3 differs from bels.c comment variant', 0) + 1
        if rc != 0 or out3.raw != b''.join(exp3): D('share3', L, s.hex(), t, c)
        k = R.randint(1, c); idx = R.sample(range(c), k)
        sub = [exp[i] for i in idx]; o = buf(L)
        rc = belsRecover2(o, k, L, b''.join(sub)); tick('recover2')
        e = bels.recover_std(sub)
        if rc != 0 or o.raw != e or (k >= t and e != s): D('recover2', L, idx)
# error / contract cases
obs = []
for L in (16, 24, 32):
    m0 = bels.std_m(L, 0); m = [bels.std_m(L, i) for i in range(1, 6)]; s = R.randbytes(L); tape = R.randbytes(4 * L)
    cases = {
        'threshold=0': (s, 0, 3, m0, m[:3]), 'count<threshold': (s, 4, 3, m0, m[:3]),
        'dup mi': (s, 2, 3, m0, [m[0], m[1], m[0]]), 'mi==m0': (s, 2, 3, m0, [m[0], m0, m[1]]),
        'm0 reducible': (s, 2, 3, bytes(L), m[:3]), 'mi reducible': (s, 2, 3, m0, [m[0], b'\x01' + bytes(L - 1), m[2]]),
    }
    for name, (s_, t, c, m0_, mis) in cases.items():
        rc, sh = lib_share(s_, t, c, m0_, mis, tape); st, _ = model(bels.share, s_, t, c, m0_, mis, tape); tick('share-err')
        if E.get(rc, rc) != st: obs.append(('belsShare', L, name, 'lib', E.get(rc, rc), 'model', st, dict(s=s_.hex(), t=t, c=c, m0=m0_.hex(), mi=[x.hex() for x in mis], tape=tape[:(t-1)*L].hex() if t else '', lib_shares=[x.hex() for x in sh])))
    sh = bels.share(s, 2, 3, m0, m[:3], tape)
    for name, (shs, m0_, mis) in {'dup mi': ([sh[0], sh[1], sh[0]], m0, [m[0], m[1], m[0]]), 'mi==m0': ([sh[0], sh[1]], m0, [m[0], m0]),
                                  'm0 reducible': (sh[:2], bytes(L), m[:2]), 'mi reducible': (sh[:2], m0, [m[0], b'\x03' + bytes(L - 1)])}.items():
        rc, got = lib_recover(shs, m0_, mis); tick('recover-err')
        try: e = ('OK', bels.recover(shs, m0_, mis))
        except ValueError as ex: e = (str(ex), None)
        if E.get(rc, rc) != e[0] or (rc == 0 and got != e[1]): obs.append(('belsRecover', L, name, 'lib', E.get(rc, rc), got.hex(), 'model', e[0], e[1] and e[1].hex()))
    # recover2: bad numbers
    for nums in ([0, 1], [17, 1], [1, 1], [1, 2, 1]):
        blob = b''.join(bytes([x]) + R.randbytes(L) for x in nums); o = buf(L); rc = belsRecover2(o, len(nums), L, blob); tick('recover2-err')
        st, _ = model(bels.recover_std, [blob[i * (L + 1):(i + 1) * (L + 1)] for i in range(len(nums))])
        if E.get(rc, rc) != st: obs.append(('belsRecover2', L, nums, E.get(rc, rc), st))
    o = buf(17 * (L + 1)); rc = belsShare2(o, 17, 2, L, s, TapeGen(tape).cb, None); tick('share2-err')
    if rc != 109: obs.append(('belsShare2 count=17', rc))
for L in (0, 8, 15, 17, 20, 31, 33, 48, 64):
    tick('len-err')
    if belsValM(bytes(64), L) != 109: obs.append(('belsValM len', L))
print('counts', cnt); print('disagreements', len(dis))
print('contract observations (library vs strict model):')
for o in obs: print(' ', o)
