"""ctypes helpers for development cross-checks against the baseline libbee2 (read-only use)."""
import ctypes, os, sys, random
sys.path.insert(0, os.path.dirname(os.path.dirname(os.path.abspath(__file__))))
LIBPATH = os.environ.get('BEE2_LIB', '/repo/_build/src/libbee2.so')
lib = ctypes.CDLL(LIBPATH)
W = 8  # octets per word in baseline build (B_PER_W=64)
c_word = ctypes.c_uint64
c_size = ctypes.c_size_t
SIZE_MAX = (1 << 64) - 1

def words(x, n):
    return (c_word * n)(*[(x >> (64 * i)) & (2**64 - 1) for i in range(n)])

def from_words(a):
    return sum(int(v) << (64 * i) for i, v in enumerate(a))

def buf(n):
    return ctypes.create_string_buffer(n)

def fn(name, restype, *argtypes):
    f = getattr(lib, name)
    f.restype = restype
    f.argtypes = list(argtypes)
    return f

ERR_OK = 0
