from common import *
import pfok, random
R = random.Random(50)
vp = ctypes.c_void_p; cp = ctypes.c_char_p
GEN = ctypes.CFUNCTYPE(None, vp, c_size, vp)
class TapeGen:
    def __init__(self, data): self.data = bytes(data); self.pos = 0; self.cb = GEN(self.call)
    def call(self, bufp, count, state):
        chunk = self.data[self.pos:self.pos + count]; assert len(chunk) == count
        ctypes.memmove(bufp, chunk, count); self.pos += count
class PARAMS(ctypes.Structure):
    _fields_ = [('l', c_size), ('r', c_size), ('n', c_size), ('p', ctypes.c_ubyte * 368), ('g', ctypes.c_ubyte * 368)]
class SEED(ctypes.Structure):
    _fields_ = [('l', c_size), ('zi', ctypes.c_uint16 * 31), ('li', c_size * 20)]
assert ctypes.sizeof(PARAMS) == 760 and ctypes.sizeof(SEED) == 232
PP = ctypes.POINTER(PARAMS); SP = ctypes.POINTER(SEED)
ParamsStd = fn('pfokParamsStd', ctypes.c_int, PP, SP, cp)
ParamsVal = fn('pfokParamsVal', ctypes.c_int, PP)
SeedVal = fn('pfokSeedVal', ctypes.c_int, SP); SeedAdj = fn('pfokSeedAdj', ctypes.c_int, SP)
KeypairGen = fn('pfokKeypairGen', ctypes.c_int, cp, cp, PP, GEN, vp)
PubkeyVal = fn('pfokPubkeyVal', ctypes.c_int, PP, cp)
PubkeyCalc = fn('pfokPubkeyCalc', ctypes.c_int, cp, PP, cp)
DH = fn('pfokDH', ctypes.c_int, cp, PP, cp, cp)
MTI = fn('pfokMTI', ctypes.c_int, cp, PP, cp, cp, cp, cp)
def to_c(P):
    s = PARAMS(); s.l, s.r, s.n = P['l'] % 2**64, P['r'] % 2**64, P['n'] % 2**64
    if P['p'] >> (8 * 368) or P['g'] >> (8 * 368) or P['p'] < 0 or P['g'] < 0: return None
    ctypes.memmove(s.p, P['p'].to_bytes(368, 'little'), 368); ctypes.memmove(s.g, P['g'].to_bytes(368, 'little'), 368)
    return s
def seed_c(S):
    s = SEED(); s.l = S['l']
    for i in range(31): s.zi[i] = S['zi'][i]
    for i in range(20): s.li[i] = S['li'][i]
    return s
def seed_py(s): return {'l': s.l, 'zi': list(s.zi), 'li': list(s.li)}
dis = []; cnt = {}; obs = []
def tick(k): cnt[k] = cnt.get(k, 0) + 1
def D(*a): dis.append(a); print('DISAGREE', a)
STD = {}
for name in pfok.STD_NAMES:
    s = PARAMS(); sd = SEED(); assert ParamsStd(ctypes.byref(s), ctypes.byref(sd), name.encode()) == 0; tick('std')
    P = pfok.params_std(name); STD[name] = P
    got = dict(l=s.l, r=s.r, n=s.n, p=int.from_bytes(bytes(s.p), 'little'), g=int.from_bytes(bytes(s.g), 'little'))
    if got != P: D('std', name)
    if seed_py(sd) != pfok.seed_std(name): D('seedstd', name)
def val_cmp(P, tag):
    s = to_c(P)
    if s is None: return
    tick('paramsval'); g = ParamsVal(ctypes.byref(s)) == 0; e = pfok.params_val(P)
    if g != e: D('paramsval', tag, {k: (hex(v) if k in 'pg' else v) for k, v in P.items()}, 'lib', g, 'model', e)
for name, P0 in STD.items():
    val_cmp(P0, (name, 'std'))
    p = P0['p']; q = (p - 1) // 2; e = pfok.mont_R(P0) % p
    small = name == 'test'
    gs = [0, 1, 2, p - 1, p, p + 1, e, p - e, P0['g'] + 1, P0['g'] - 1, pfok.mont_mul(P0, P0['g'], P0['g']), pfok.mont_pow(P0, P0['g'], q), pfok.mont_pow(P0, P0['g'], 3)]
    gs += [R.randrange(1, p) for _ in range(12 if small else 2)]
    for g in gs:
        P = dict(P0); P['g'] = g; val_cmp(P, (name, 'g', hex(g)[:20]))
    for f, v in (('l', P0['l'] + 1), ('l', 640), ('r', P0['r'] + 1), ('r', 0), ('n', P0['l']), ('n', P0['l'] - 1), ('n', 0), ('n', 2**64 - 1), ('l', pfok.LS[(pfok.LS.index(P0['l']) + 1) % 21]),
                 ('p', p + 2), ('p', p - 2), ('p', p + 4), ('p', p ^ (1 << (P0['l'] - 1))), ('p', p | (1 << P0['l'])), ('p', 0)):
        P = dict(P0); P[f] = v; val_cmp(P, (name, f, v if f != 'p' else 'pert'))
    if small:
        # other l-bit primes p (not safe), safe primes are rare: take next primes after random starts
        for _ in range(6):
            import pri
            a = R.getrandbits(P0['l']) | (1 << (P0['l'] - 1)) | 3
            while not (a % 4 == 3 and pri.is_prime(a)): a += 2
            P = dict(P0); P['p'] = a; P['g'] = P0['g'] % a; val_cmp(P, (name, 'other prime p'))
# seeds
def seed_cmp(S, tag):
    tick('seed')
    c = seed_c(S); g = SeedVal(ctypes.byref(c)) == 0; e = pfok.seed_val(S)
    if g != e: D('seedval', tag, S, g, e)
    c = seed_c(S); rc = SeedAdj(ctypes.byref(c)); e = pfok.seed_adj(S)
    if (rc == 0) != (e is not None) or (rc == 0 and seed_py(c) != e): D('seedadj', tag, S, rc, e)
for name in pfok.STD_NAMES:
    S0 = pfok.seed_std(name); seed_cmp(S0, name)
    for i in range(20):
        for v in (0, 16, 17, 32, 33, S0['li'][i] + 1, S0['li'][i] - 1 if S0['li'][i] else 5, 2**64 - 1, (2**64 - 1) // 5, (2**64 - 1) // 5 - 1, 2**63):
            S = {'l': S0['l'], 'zi': list(S0['zi']), 'li': list(S0['li'])}; S['li'][i] = v % 2**64; seed_cmp(S, (name, 'li', i, v))
    for i in (0, 15, 30):
        for v in (0, 1, 65256, 65257, 65535):
            S = {'l': S0['l'], 'zi': list(S0['zi']), 'li': list(S0['li'])}; S['zi'][i] = v; seed_cmp(S, (name, 'zi', i, v))
    seed_cmp({'l': S0['l'], 'zi': [0] * 31, 'li': [0] * 20}, (name, 'zero'))
    seed_cmp({'l': S0['l'], 'zi': list(S0['zi']), 'li': [0] * 20}, (name, 'zero li'))
    seed_cmp({'l': S0['l'] + 1, 'zi': list(S0['zi']), 'li': list(S0['li'])}, (name, 'l+1'))
for l in pfok.LS:
    seed_cmp({'l': l, 'zi': [0] * 31, 'li': [0] * 20}, ('adj', l))
    # random valid-ish chains
    for _ in range(5):
        li = [l - 1]
        while li[-1] > 32 and len(li) < 20:
            lo = (li[-1] + 1) // 2; hi = (4 * li[-1] - 17) // 5
            li.append(R.randint(lo, max(lo, hi)) + R.choice([0, 0, 0, 1, -1]))
        seed_cmp({'l': l, 'zi': list(range(1, 32)), 'li': (li + [0] * 20)[:20]}, ('chain', l))
# keys and protocols
for name, P in STD.items():
    s = to_c(P); mo = (P['r'] + 7) // 8; no = (P['l'] + 7) // 8; ko = (P['n'] + 7) // 8; p = P['p']
    iters = 12 if name == 'test' else 4
    xs = [0, 1, 2, (1 << P['r']) - 1, 1 << (P['r'] - 1)] + [R.getrandbits(P['r']) for _ in range(iters)]
    pubs = {}
    for x in xs:
        tape = (x | (R.getrandbits(8 * mo - P['r']) << P['r'])).to_bytes(mo, 'little')
        tg = TapeGen(tape); priv = buf(mo); pub = buf(no); rc = KeypairGen(priv, pub, ctypes.byref(s), tg.cb, None); tick('keypair')
        epriv, epub = pfok.keypair_tape(P, tape)
        if rc != 0 or priv.raw != epriv or pub.raw != epub: D('keypair', name, tape.hex())
        pub2 = buf(no); rc = PubkeyCalc(pub2, ctypes.byref(s), epriv); tick('pubkeycalc')
        if rc != 0 or pub2.raw != epub: D('pubkeycalc', name, epriv.hex())
        pubs[x] = int.from_bytes(epub, 'little')
    for x in (1 << P['r'], (1 << (8 * mo)) - 1):
        if x >> (8 * mo): continue
        pub2 = buf(no); rc = PubkeyCalc(pub2, ctypes.byref(s), x.to_bytes(mo, 'little')); tick('pubkeycalc-bad')
        if rc != 504: D('pubkeycalc bad priv accepted', name, hex(x), rc)
    ys = [0, 1, p - 1, p, p + 1, (1 << (8 * no)) - 1, pfok.mont_R(P) % p] + list(pubs.values())[:6] + [R.randrange(1, p) for _ in range(4)]
    for y in ys:
        if y >> (8 * no): continue
        yb = y.to_bytes(no, 'little'); tick('pubkeyval')
        if (PubkeyVal(ctypes.byref(s), yb) == 0) != pfok.pubkey_val(P, y): D('pubkeyval', name, hex(y))
        for x in R.sample(xs, 3) + [1 << P['r']]:
            if x >> (8 * mo): continue
            key = buf(ko); rc = DH(key, ctypes.byref(s), x.to_bytes(mo, 'little'), yb); tick('dh')
            try: e = ('OK', pfok.dh(P, x, y).to_bytes(ko, 'little'))
            except ValueError as ex: e = (str(ex), None)
            st = {0: 'OK', 504: 'BAD_PRIVKEY', 505: 'BAD_PUBKEY'}.get(rc, rc)
            if st != e[0] or (rc == 0 and key.raw != e[1]): D('dh', name, hex(x), hex(y), st, e[0])
        for _ in range(2):
            x, u = R.choice(xs), R.choice(xs); v = R.choice(ys)
            if v >> (8 * no): continue
            key = buf(ko); rc = MTI(key, ctypes.byref(s), x.to_bytes(mo, 'little'), u.to_bytes(mo, 'little'), yb, v.to_bytes(no, 'little')); tick('mti')
            try: e = ('OK', pfok.mti(P, x, u, y, v).to_bytes(ko, 'little'))
            except ValueError as ex: e = (str(ex), None)
            st = {0: 'OK', 504: 'BAD_PRIVKEY', 505: 'BAD_PUBKEY'}.get(rc, rc)
            if st != e[0] or (rc == 0 and key.raw != e[1]): D('mti', name, hex(x), hex(u), hex(y), hex(v), st, e[0])
    # protocol agreement through the library with model keys
    xa, xb, ua, ub = (R.getrandbits(P['r']) for _ in range(4))
    ya, yb_, va, vb = (pfok.pubkey_calc(P, t) for t in (xa, xb, ua, ub))
    k1 = buf(ko); k2 = buf(ko)
    MTI(k1, ctypes.byref(s), xa.to_bytes(mo, 'little'), ua.to_bytes(mo, 'little'), yb_.to_bytes(no, 'little'), vb.to_bytes(no, 'little'))
    MTI(k2, ctypes.byref(s), xb.to_bytes(mo, 'little'), ub.to_bytes(mo, 'little'), ya.to_bytes(no, 'little'), va.to_bytes(no, 'little')); tick('mti-agree')
    if k1.raw != k2.raw: D('mti agreement', name)
    # n not multiple of 8
    for nbits in (1, 7, 9, 255, 257, P['l'] - 1):
        P2 = dict(P); P2['n'] = nbits; s2 = to_c(P2); ko2 = (nbits + 7) // 8
        key = buf(ko2); rc = DH(key, ctypes.byref(s2), xa.to_bytes(mo, 'little'), yb_.to_bytes(no, 'little')); tick('dh-n')
        if rc != 0 or key.raw != pfok.dh(P2, xa, yb_).to_bytes(ko2, 'little'): D('dh n', name, nbits)
print('counts', cnt); print('disagreements', len(dis))
