#!/usr/bin/env python3
"""Development cross-check: ref/bake.py against the baseline libbee2 (bakeKDF, bakeSWU, BMQV,
BSTS, BPACE step functions), message by message, incl. tampered messages and boundary tapes.

usage: x_bake.py [seed] [n_random_per_level]
"""
import os
import random
import sys

HERE = os.path.dirname(os.path.abspath(__file__))
sys.path.insert(0, os.path.dirname(HERE))
sys.path.insert(0, HERE)
import bake      # noqa: E402
import bign      # noqa: E402
import ecp       # noqa: E402
import ec_lib as C   # noqa: E402

seed = int(sys.argv[1]) if len(sys.argv) > 1 else 1
NR = int(sys.argv[2]) if len(sys.argv) > 2 else 30
rnd = random.Random(seed)
counts, bad = {}, []


def cmp(what, c_val, m_val, **inp):
    counts[what] = counts.get(what, 0) + 1
    if c_val != m_val:
        def f(x):
            if isinstance(x, (bytes, bytearray)):
                return x.hex()
            if isinstance(x, dict):
                return "{" + ", ".join("%s: %s" % (k, f(v)) for k, v in sorted(x.items())) + "}"
            if isinstance(x, (tuple, list)):
                return "(" + ", ".join(f(y) for y in x) + ")"
            return repr(x)
        bad.append(what)
        print("DISAGREE %s" % what)
        for k, v in inp.items():
            print("    %s = %s" % (k, f(v)))
        print("    C     : %s" % f(c_val))
        print("    model : %s" % f(m_val))


def model_run(steps):
    """steps: list of callables executed in order; returns (codes, results dict)."""
    codes, res = [], {}
    for fn in steps:
        try:
            r = fn(res)
            codes.append("OK")
            if isinstance(r, dict):
                res.update(r)
        except bake.BakeError as e:
            codes.append(e.code)
            break
    return codes, res


def tam(tamper, name, msg):
    if tamper and name in tamper:
        return tamper[name](msg)
    return msg


def m_bmqv(l, da, db, certa, certb, ta, tb, ha, hb, kca, kcb, tamper=None):
    S = {}

    def startB(r):
        S["B"] = bake.bmqv_start(l, "B", db, certb, tb, ha, hb, kca, kcb)

    def startA(r):
        S["A"] = bake.bmqv_start(l, "A", da, certa, ta, ha, hb, kca, kcb)
    steps = [startB, startA,
             lambda r: {"M1": bake.bmqv_step2(S["B"])},
             lambda r: {"M2": bake.bmqv_step3(S["A"], tam(tamper, "M1", r["M1"]), certb)},
             lambda r: {"M3": bake.bmqv_step4(S["B"], tam(tamper, "M2", r["M2"]), certa)}]
    if kcb:
        steps.append(lambda r: bake.bmqv_step5(S["A"], tam(tamper, "M3", r["M3"])))
    steps += [lambda r: {"keya": S["A"]["K0"]}, lambda r: {"keyb": S["B"]["K0"]},
              lambda r: {"reqa": S["A"]["pos"], "reqb": S["B"]["pos"]}]
    codes, res = model_run(steps)
    return codes[:-1] if len(codes) == len(steps) else codes, res


def m_bsts(l, da, db, certa, certb, ta, tb, ha, hb, tamper=None):
    S = {}

    def startB(r):
        S["B"] = bake.bsts_start(l, "B", db, certb, tb, ha, hb)

    def startA(r):
        S["A"] = bake.bsts_start(l, "A", da, certa, ta, ha, hb)
    steps = [startB, startA,
             lambda r: {"M1": bake.bsts_step2(S["B"])},
             lambda r: {"M2": bake.bsts_step3(S["A"], tam(tamper, "M1", r["M1"]))},
             lambda r: {"M3": bake.bsts_step4(S["B"], tam(tamper, "M2", r["M2"]))},
             lambda r: bake.bsts_step5(S["A"], tam(tamper, "M3", r["M3"])),
             lambda r: {"keya": S["A"]["K0"]}, lambda r: {"keyb": S["B"]["K0"]},
             lambda r: {"reqa": S["A"]["pos"], "reqb": S["B"]["pos"]}]
    codes, res = model_run(steps)
    return codes[:-1] if len(codes) == len(steps) else codes, res


def m_bpace(l, pwd, ta, tb, ha, hb, kca, kcb, tamper=None):
    S = {}

    def startB(r):
        S["B"] = bake.bpace_start(l, "B", pwd, tb, ha, hb, kca, kcb)

    def startA(r):
        S["A"] = bake.bpace_start(l, "A", pwd, ta, ha, hb, kca, kcb)
    steps = [startB, startA,
             lambda r: {"M1": bake.bpace_step2(S["B"])},
             lambda r: {"M2": bake.bpace_step3(S["A"], tam(tamper, "M1", r["M1"]))},
             lambda r: {"M3": bake.bpace_step4(S["B"], tam(tamper, "M2", r["M2"]))},
             lambda r: {"M4": bake.bpace_step5(S["A"], tam(tamper, "M3", r["M3"]))}]
    if kca:
        steps.append(lambda r: bake.bpace_step6(S["B"], tam(tamper, "M4", r["M4"])))
    steps += [lambda r: {"keya": S["A"]["K0"]}, lambda r: {"keyb": S["B"]["K0"]},
              lambda r: {"reqa": S["A"]["pos"], "reqb": S["B"]["pos"]}]
    codes, res = model_run(steps)
    return codes[:-1] if len(codes) == len(steps) else codes, res


def norm_c(r):
    d = {k: v for k, v in r.items() if k != "codes"}
    return r["codes"], d


def le(l, x):
    return int(x).to_bytes(l // 4, "little")


def flip(pos, bit=0):
    def f(m):
        if pos >= len(m):          # region absent in the logical message (tag not sent)
            return m
        b = bytearray(m)
        b[pos] ^= 1 << bit
        return bytes(b)
    return f


def put(pos, data):
    def f(m):
        return m[:pos] + data + m[pos + len(data):]
    return f


def main():
    # ---- KDF ----
    for _ in range(200):
        secret, iv = rnd.randbytes(rnd.randrange(0, 80)), rnd.randbytes(rnd.randrange(0, 100))
        num = rnd.choice([0, 1, 2, 255, 256, 2 ** 32 - 1, 2 ** 32, 2 ** 63, 2 ** 64 - 1, rnd.randrange(2 ** 64)])
        rc, key = C.kdf(secret, iv, num)
        cmp("kdf", (rc, key), ("OK", bake.kdf(secret, iv, num)), secret=secret, iv=iv, num=num)

    for l in (128, 192, 256):
        ps = bign.params(l)
        p, q, no = ps["p"], ps["q"], l // 4
        E, G = ecp.Curve(p, ps["a"], ps["b"]), (0, ps["yG"])
        top = 2 ** (2 * l)
        rq = lambda: rnd.randrange(1, q)       # noqa: E731

        # ---- SWU ----
        msgs = [bytes(no), b"\xff" * no, le(l, 1), le(l, p - 1), le(l, p)] + [rnd.randbytes(no) for _ in range(NR * 4)]
        for msg in msgs:
            rc, pt = C.swu(l, msg)
            cmp("swu[l=%d]" % l, (rc, pt), ("OK", bake.swu(l, msg)), l=l, msg=msg)
            assert E.is_on(bake.swu_point(l, msg))

        def keypair():
            d = rq()
            return d, bign.enc_point(l, E.mul(d, G))

        def tapes_u():
            """tape for one u: sometimes with rejected leading chunks / boundary values."""
            c = rnd.randrange(10)
            if c == 0:
                return le(l, rnd.choice([0, q, q + 1, p, top - 1])) + le(l, rq())
            if c == 1:
                return le(l, rnd.choice([1, 2, q - 1, q - 2]))
            return le(l, rq())

        def hello():
            return rnd.choice([None, b"", rnd.randbytes(rnd.randrange(1, 40))])

        # ---- BMQV ----
        for i in range(NR):
            (da, Qa), (db, Qb) = keypair(), keypair()
            certa, certb = rnd.randbytes(rnd.randrange(0, 9)) + Qa, rnd.randbytes(rnd.randrange(0, 9)) + Qb
            ta, tb, ha, hb = tapes_u(), tapes_u(), hello(), hello()
            kca, kcb = rnd.choice([(True, True), (True, False), (False, True), (False, False)])
            tamper = None
            kind = "plain"
            if i % 3 == 1:
                kind, tamper = rnd.choice([
                    ("M1 y+1", {"M1": flip(no)}), ("M1 x=p", {"M1": put(0, le(l, p))}),
                    ("M1 x=max", {"M1": put(0, le(l, top - 1))}),
                    ("M1 other point", {"M1": put(0, bign.enc_point(l, E.mul(rq(), G)))}),
                    ("M1 = (2^l+t)Qb-ish G", {"M1": put(0, bign.enc_point(l, G))}),
                    ("M2 y+1", {"M2": flip(no)}), ("M2 y=p", {"M2": put(no, le(l, p))}),
                    ("M2 tag", {"M2": flip(2 * no)}), ("M3 tag", {"M3": flip(7, 7)}),
                    ("M2 other point", {"M2": put(0, bign.enc_point(l, E.mul(rq(), G)))})])
            if i % 3 == 2:
                kind = "bad cert"
                Qbad = le(l, int.from_bytes(Qb[:no], "little")) + le(l, (int.from_bytes(Qb[no:], "little") + 1) % p)
                which = rnd.randrange(3)
                if which == 0:
                    certb = b"B" + Qbad
                elif which == 1:
                    certa = rnd.randbytes(2 * no - 1)          # too short
                else:
                    certa = b"A" + le(l, p) + Qa[no:]
            cr = C.bmqv(l, le(l, da), le(l, db), certa, certb, ta, tb, ha, hb, kca, kcb, tamper)
            mr = m_bmqv(l, da, db, certa, certb, ta, tb, ha, hb, kca, kcb, tamper)
            cmp("bmqv[l=%d]" % l, norm_c(cr), mr, l=l, kind=kind, da=le(l, da), db=le(l, db), certa=certa,
                certb=certb, tapea=ta, tapeb=tb, helloa=ha, hellob=hb, kca=kca, kcb=kcb)

        # ---- BMQV, constructed: s = 0 on one side (K = O => K <- G in the standard) ----
        import belt
        for which in ("sa=0", "sb=0"):
            ua, ub, da, db = rq(), rq(), rq(), rq()
            Va, Vb = E.mul(ua, G), E.mul(ub, G)
            t = int.from_bytes(belt.hash(le(l, Va[0]) + le(l, Vb[0]))[:l // 8], "little")
            if which == "sa=0":
                da = ua * pow(2 ** l + t, -1, q) % q
            else:
                db = ub * pow(2 ** l + t, -1, q) % q
            certa, certb = b"A" + bign.enc_point(l, E.mul(da, G)), b"B" + bign.enc_point(l, E.mul(db, G))
            cr = C.bmqv(l, le(l, da), le(l, db), certa, certb, le(l, ua), le(l, ub), None, None, True, True)
            mr = m_bmqv(l, da, db, certa, certb, le(l, ua), le(l, ub), None, None, True, True)
            cmp("bmqv[l=%d] constructed s=0" % l, norm_c(cr), mr, l=l, kind=which, da=le(l, da), db=le(l, db),
                certa=certa, certb=certb, tapea=le(l, ua), tapeb=le(l, ub))

        # ---- BSTS ----
        for i in range(NR):
            (da, Qa), (db, Qb) = keypair(), keypair()
            certa, certb = rnd.randbytes(rnd.randrange(0, 40)) + Qa, rnd.randbytes(rnd.randrange(0, 40)) + Qb
            ta, tb, ha, hb = tapes_u(), tapes_u(), hello(), hello()
            tamper, kind = None, "plain"
            if i % 3 == 1:
                n2 = 3 * no + len(certa) + 8
                n3 = no + len(certb) + 8
                kind, tamper = rnd.choice([
                    ("M1 y+1", {"M1": flip(no)}), ("M1 x=p", {"M1": put(0, le(l, p))}),
                    ("M1 other point", {"M1": put(0, bign.enc_point(l, E.mul(rq(), G)))}),
                    ("M2 y+1", {"M2": flip(no)}), ("M2 Ya", {"M2": flip(2 * no + 3)}),
                    ("M2 tag", {"M2": flip(n2 - 1)}), ("M3 Yb", {"M3": flip(0)}), ("M3 tag", {"M3": flip(n3 - 8)}),
                    ("M2 other point", {"M2": put(0, bign.enc_point(l, E.mul(rq(), G)))})])
            if i % 3 == 2:
                kind = "key/cert mismatch"
                if rnd.randrange(2):
                    da = rq()             # certificate does not match the private key -> AUTH at step 4
                else:
                    db = rq()
            cr = C.bsts(l, le(l, da), le(l, db), certa, certb, ta, tb, ha, hb, tamper)
            mr = m_bsts(l, da, db, certa, certb, ta, tb, ha, hb, tamper)
            cmp("bsts[l=%d]" % l, norm_c(cr), mr, l=l, kind=kind, da=le(l, da), db=le(l, db), certa=certa,
                certb=certb, tapea=ta, tapeb=tb, helloa=ha, hellob=hb)

        # ---- BPACE ----
        for i in range(NR):
            pwd = rnd.randbytes(rnd.randrange(0, 20))
            ta = rnd.randbytes(no // 2) + tapes_u()
            tb = rnd.randbytes(no // 2) + tapes_u()
            if i % 7 == 0:
                ta = bytes(no // 2) + tapes_u()
                tb = bytes(no // 2) + tapes_u()
            ha, hb = hello(), hello()
            kca, kcb = rnd.choice([(True, True), (True, False), (False, True), (False, False)])
            tamper, kind = None, "plain"
            if i % 3 == 1:
                kind, tamper = rnd.choice([
                    ("M1 flip (different W on both sides)", {"M1": flip(0)}),
                    ("M2 Ya flip", {"M2": flip(1)}), ("M2 y+1", {"M2": flip(no // 2 + no)}),
                    ("M2 x=p", {"M2": put(no // 2, le(l, p))}),
                    ("M2 other point", {"M2": put(no // 2, bign.enc_point(l, E.mul(rq(), G)))}),
                    ("M3 y+1", {"M3": flip(no)}), ("M3 tag", {"M3": flip(2 * no)}),
                    ("M3 other point", {"M3": put(0, bign.enc_point(l, E.mul(rq(), G)))}),
                    ("M4 tag", {"M4": flip(0)})])
            cr = C.bpace(l, pwd, ta, tb, ha, hb, kca, kcb, tamper)
            mr = m_bpace(l, pwd, ta, tb, ha, hb, kca, kcb, tamper)
            cmp("bpace[l=%d]" % l, norm_c(cr), mr, l=l, kind=kind, pwd=pwd, tapea=ta, tapeb=tb, helloa=ha,
                hellob=hb, kca=kca, kcb=kcb)

    print()
    for k in sorted(counts):
        print("%-20s %6d comparisons, %d disagreements" % (k, counts[k], bad.count(k)))
    print("TOTAL %d comparisons, %d disagreements" % (sum(counts.values()), len(bad)))


if __name__ == "__main__":
    main()
