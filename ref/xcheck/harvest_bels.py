"""Harvest bels appendix vectors from /repo/test/crypto/bels_test.c and bels.c tables into vectors/bels.json"""
import re, json, sys, os
sys.path.insert(0, '/verif/ref')
import belt
src = open('/repo/test/crypto/bels_test.c').read()
hx = [''.join(re.findall(r'"([0-9A-Fa-f]*)"', m)) for m in re.findall(r'hexEq\(\s*\w+\s*,((?:\s*"[0-9A-Fa-f]*")+)\s*\)', src)]
assert len(hx) == 3 + 3 + 30, len(hx)
csrc = open('/repo/src/crypto/bels.c').read()
std = {}
for L in (16, 24, 32):
    body = re.search(r'm_%d\[17\]\s*=\s*\{(.*?)\};' % L, csrc, re.S).group(1)
    vals = [int(x, 16) for x in re.findall(r'0x([0-9A-Fa-f]+)', body)]
    assert len(vals) == 17
    std[str(L)] = [(v.to_bytes(4, 'little') + bytes(L - 4)).hex() for v in vals]
H = bytes(belt.H)
assert len(H) == 256 and H[:4].hex() == 'b194bac8'
V = {'source': 'bels_test.c (STB 34.101.60 appendix B tables B.1-B.7), bels.c tables A.1-A.4; beltH() slices resolved',
     'std_m': std, 'gen_mid': [], 'share': [], 'recover': [], 'val_m': []}
for i, L in enumerate((16, 24, 32)):
    V['gen_mid'].append({'m0': std[str(L)][0], 'id': b'Alice'.hex(), 'mid': hx[i].lower()})
rows = [  # (order of user numbers, offset) in the order they appear in the test
    ([1, 2, 3, 4, 5], 0), ([1, 2, 3, 4, 5], 1), ([1, 2, 3, 4, 5], 2), ([1, 2, 3, 4, 5], 3),
    ([1, 3, 2, 4, 5], 0), ([1, 3, 2, 4, 5], 2), ([5, 3, 2, 4, 1], 0), ([5, 3, 2, 4, 1], 3),
    ([4, 3, 2, 5, 1], 2), ([4, 3, 2, 5, 1], 3)]
for i, L in enumerate((16, 24, 32)):
    s = H[:L]
    tape = H[128:128 + 2 * L]
    si = bytes.fromhex(hx[3 + i]); assert len(si) == 5 * L
    mis = std[str(L)][1:6]
    V['share'].append({'s': s.hex(), 'threshold': 3, 'count': 5, 'm0': std[str(L)][0], 'mi': mis, 'tape': tape.hex(), 'si': si.hex()})
    sh = [si[j * L:(j + 1) * L].hex() for j in range(5)]
    for cnt in range(1, 6):
        t = {'m0': std[str(L)][0], 'mi': mis[:cnt], 'si': sh[:cnt]}
        t['s' if cnt >= 3 else 'not_s'] = s.hex()
        V['recover'].append(t)
    for r, (order, off) in enumerate(rows):
        users = order[off:off + 2]
        V['recover'].append({'m0': std[str(L)][0], 'mi': [std[str(L)][u] for u in users], 'si': [sh[u - 1] for u in users],
                             's': hx[6 + 3 * r + i].lower(), 'note': 'users %s' % users})
# validity examples: Swan (trinomials of degree 8k reducible), zero key (x^l reducible), x^l+1 reducible
for L in (16, 24, 32):
    V['val_m'] += [{'m': bytes(L).hex(), 'valid': False}, {'m': (b'\x01' + bytes(L - 1)).hex(), 'valid': False},
                   {'m': (b'\x03' + bytes(L - 1)).hex(), 'valid': False}, {'m': (b'\x09' + bytes(L - 1)).hex(), 'valid': False},
                   {'m': (b'\x86' + bytes(L - 1)).hex(), 'valid': False, 'note': 'no constant term'}]
V['val_m'].append({'m': (b'\x87' + bytes(15)).hex(), 'valid': True})
json.dump(V, open('/verif/ref/vectors/bels.json', 'w'), indent=1)
print('written', len(V['recover']), 'recover vectors')
