"""ctypes wrappers around the baseline libbee2 for bign / bign96 / bake / ecp cross-checks.

Development aid only (read-only use of the library).  Random numbers are served from a
Python-side tape through a gen_i callback, so that the number of octets requested by the
library is observable; after the tape is exhausted the callback returns zero octets (which
makes zzRandNZMod give up with ERR_BAD_RNG after 65 attempts).
"""
import ctypes as ct
import os

LIBPATH = os.environ.get("BEE2_LIB", "/repo/_build/src/libbee2.so")
lib = ct.CDLL(LIBPATH)

ERR = {0: "OK", 109: "BAD_INPUT", 110: "OUTOFMEMORY", 301: "BAD_OID", 304: "BAD_RNG", 401: "BAD_POINT",
       502: "BAD_PARAMS", 504: "BAD_PRIVKEY", 505: "BAD_PUBKEY", 507: "BAD_SHAREDKEY", 510: "BAD_SIG",
       513: "BAD_KEYTOKEN", 514: "BAD_CERT", 517: "BAD_LOGIC", 521: "AUTH", 202: "FILE_NOT_FOUND",
       206: "FILE_WRITE", 207: "FILE_READ"}


def err(code):
    return ERR.get(code, "ERR_%d" % code)


class BignParams(ct.Structure):
    _fields_ = [("l", ct.c_size_t), ("p", ct.c_ubyte * 64), ("a", ct.c_ubyte * 64),
                ("b", ct.c_ubyte * 64), ("q", ct.c_ubyte * 64), ("yG", ct.c_ubyte * 64),
                ("seed", ct.c_ubyte * 8)]


GEN_I = ct.CFUNCTYPE(None, ct.c_void_p, ct.c_size_t, ct.c_void_p)

_STD = {128: b"1.2.112.0.2.0.34.101.45.3.1", 192: b"1.2.112.0.2.0.34.101.45.3.2",
        256: b"1.2.112.0.2.0.34.101.45.3.3", 96: b"1.2.112.0.2.0.34.101.45.3.0"}
_params = {}


def params(l):
    if l not in _params:
        ps = BignParams()
        f = lib.bign96ParamsStd if l == 96 else lib.bignParamsStd
        rc = f(ct.byref(ps), _STD[l])
        assert rc == 0, rc
        _params[l] = ps
    return _params[l]


class Tape:
    """gen_i backed by a byte string; counts requested octets and calls."""

    def __init__(self, data):
        self.data, self.pos, self.calls, self.requested = bytes(data), 0, 0, 0
        self.cb = GEN_I(self._gen)

    def _gen(self, buf, count, state):
        chunk = self.data[self.pos:self.pos + count]
        self.pos += len(chunk)
        chunk = chunk.ljust(count, b"\0")
        ct.memmove(buf, chunk, count)
        self.calls += 1
        self.requested += count


def _b(x, n=None):
    x = bytes(x)
    return ct.create_string_buffer(x, max(len(x) if n is None else n, 1))


# ------------------------------------------------------------------ bign
def keypair_gen(l, tape):
    no = l // 4
    t = Tape(tape)
    priv, pub = ct.create_string_buffer(no), ct.create_string_buffer(2 * no)
    f = lib.bign96KeypairGen if l == 96 else lib.bignKeypairGen
    rc = f(priv, pub, ct.byref(params(l)), t.cb, None)
    return err(rc), priv.raw, pub.raw, t.requested


def pubkey_calc(l, priv):
    no = l // 4
    pub = ct.create_string_buffer(2 * no)
    f = lib.bign96PubkeyCalc if l == 96 else lib.bignPubkeyCalc
    rc = f(pub, ct.byref(params(l)), _b(priv))
    return err(rc), pub.raw


def pubkey_val(l, pub):
    f = lib.bign96PubkeyVal if l == 96 else lib.bignPubkeyVal
    return err(f(ct.byref(params(l)), _b(pub)))


def keypair_val(l, priv, pub):
    f = lib.bign96KeypairVal if l == 96 else lib.bignKeypairVal
    return err(f(ct.byref(params(l)), _b(priv), _b(pub)))


def dh(l, priv, pub, n):
    key = ct.create_string_buffer(max(n, 1))
    rc = lib.bignDH(key, ct.byref(params(l)), _b(priv), _b(pub), ct.c_size_t(n))
    return err(rc), key.raw[:n]


def sign(l, oid_der, hash, priv, tape):
    no = l // 4
    t = Tape(tape)
    if l == 96:
        sig = ct.create_string_buffer(34)
        rc = lib.bign96Sign(sig, ct.byref(params(l)), _b(oid_der), ct.c_size_t(len(oid_der)), _b(hash),
                            _b(priv), t.cb, None)
    else:
        sig = ct.create_string_buffer(no + no // 2)
        rc = lib.bignSign(sig, ct.byref(params(l)), _b(oid_der), ct.c_size_t(len(oid_der)), _b(hash),
                          _b(priv), t.cb, None)
    return err(rc), sig.raw, t.requested


def sign2(l, oid_der, hash, priv, t=None):
    no = l // 4
    tb = None if t is None else _b(t)
    tl = 0 if t is None else len(t)
    if l == 96:
        sig = ct.create_string_buffer(34)
        rc = lib.bign96Sign2(sig, ct.byref(params(l)), _b(oid_der), ct.c_size_t(len(oid_der)), _b(hash),
                             _b(priv), tb, ct.c_size_t(tl))
    else:
        sig = ct.create_string_buffer(no + no // 2)
        rc = lib.bignSign2(sig, ct.byref(params(l)), _b(oid_der), ct.c_size_t(len(oid_der)), _b(hash),
                           _b(priv), tb, ct.c_size_t(tl))
    return err(rc), sig.raw


def verify(l, oid_der, hash, sig, pub):
    f = lib.bign96Verify if l == 96 else lib.bignVerify
    return err(f(ct.byref(params(l)), _b(oid_der), ct.c_size_t(len(oid_der)), _b(hash), _b(sig), _b(pub)))


def key_wrap(l, key, header, pub, tape):
    no = l // 4
    t = Tape(tape)
    tok = ct.create_string_buffer(no + 16 + len(key))
    rc = lib.bignKeyWrap(tok, ct.byref(params(l)), _b(key), ct.c_size_t(len(key)),
                         None if header is None else _b(header), _b(pub), t.cb, None)
    return err(rc), tok.raw, t.requested


def key_unwrap(l, token, header, priv):
    no = l // 4
    key = ct.create_string_buffer(max(len(token) - 16 - no, 1))
    rc = lib.bignKeyUnwrap(key, ct.byref(params(l)), _b(token), ct.c_size_t(len(token)),
                           None if header is None else _b(header), _b(priv))
    return err(rc), key.raw[:max(len(token) - 16 - no, 0)]


def id_extract(l, oid_der, id_hash, sig, pub):
    no = l // 4
    e, R = ct.create_string_buffer(no), ct.create_string_buffer(2 * no)
    rc = lib.bignIdExtract(e, R, ct.byref(params(l)), _b(oid_der), ct.c_size_t(len(oid_der)), _b(id_hash),
                           _b(sig), _b(pub))
    return err(rc), e.raw, R.raw


def id_sign(l, oid_der, id_hash, hash, e, tape):
    no = l // 4
    t = Tape(tape)
    sig = ct.create_string_buffer(no + no // 2)
    rc = lib.bignIdSign(sig, ct.byref(params(l)), _b(oid_der), ct.c_size_t(len(oid_der)), _b(id_hash),
                        _b(hash), _b(e), t.cb, None)
    return err(rc), sig.raw, t.requested


def id_sign2(l, oid_der, id_hash, hash, e, t=None):
    no = l // 4
    sig = ct.create_string_buffer(no + no // 2)
    rc = lib.bignIdSign2(sig, ct.byref(params(l)), _b(oid_der), ct.c_size_t(len(oid_der)), _b(id_hash),
                         _b(hash), _b(e), None if t is None else _b(t), ct.c_size_t(0 if t is None else len(t)))
    return err(rc), sig.raw


def id_verify(l, oid_der, id_hash, hash, sig, R, Q):
    return err(lib.bignIdVerify(ct.byref(params(l)), _b(oid_der), ct.c_size_t(len(oid_der)), _b(id_hash),
                                _b(hash), _b(sig), _b(R), _b(Q)))


def oid_to_der(oid):
    n = ct.c_size_t(256)
    der = ct.create_string_buffer(256)
    rc = lib.bignOidToDER(der, ct.byref(n), oid.encode())
    return err(rc), der.raw[:n.value]


def params_val(l):
    f = lib.bign96ParamsVal if l == 96 else lib.bignParamsVal
    return err(f(ct.byref(params(l))))


def belt_hash(x):
    out = ct.create_string_buffer(32)
    lib.beltHash(out, _b(x), ct.c_size_t(len(x)))
    return out.raw


# ------------------------------------------------------------------ bake
def swu(l, msg):
    pt = ct.create_string_buffer(l // 2)
    rc = lib.bakeSWU(pt, ct.byref(params(l)), _b(msg))
    return err(rc), pt.raw


def kdf(secret, iv, num):
    key = ct.create_string_buffer(32)
    rc = lib.bakeKDF(key, _b(secret), ct.c_size_t(len(secret)), _b(iv), ct.c_size_t(len(iv)), ct.c_size_t(num))
    return err(rc), key.raw


class BakeSettings(ct.Structure):
    _fields_ = [("kca", ct.c_int), ("kcb", ct.c_int), ("helloa", ct.c_void_p), ("helloa_len", ct.c_size_t),
                ("hellob", ct.c_void_p), ("hellob_len", ct.c_size_t), ("rng", GEN_I), ("rng_state", ct.c_void_p)]


CERTVAL_I = ct.CFUNCTYPE(ct.c_uint32, ct.c_void_p, ct.POINTER(BignParams), ct.c_void_p, ct.c_size_t)


class BakeCert(ct.Structure):
    _fields_ = [("data", ct.c_void_p), ("len", ct.c_size_t), ("val", CERTVAL_I)]


def _certval(pubkey, ps, data, n):
    """bakeTestCertVal of bake_test.c: the public key is the tail of the certificate."""
    l = ps.contents.l
    if n < l // 2:
        return 514
    if pubkey:
        ct.memmove(pubkey, data + (n - l // 2), l // 2)
    return 0


CERTVAL = CERTVAL_I(_certval)

lib.bakeBMQV_keep.restype = ct.c_size_t
lib.bakeBSTS_keep.restype = ct.c_size_t
lib.bakeBPACE_keep.restype = ct.c_size_t
lib.bakeBMQV_keep.argtypes = lib.bakeBSTS_keep.argtypes = lib.bakeBPACE_keep.argtypes = [ct.c_size_t]


class _Side:
    def __init__(self, l, kca, kcb, helloa, hellob, tape):
        self.l = l
        self.tape = Tape(tape)
        self.keep = []
        s = BakeSettings()
        s.kca, s.kcb = int(kca), int(kcb)
        for nm, h in (("helloa", helloa), ("hellob", hellob)):
            if h is not None:
                b = _b(h)
                self.keep.append(b)
                setattr(s, nm, ct.cast(b, ct.c_void_p))
                setattr(s, nm + "_len", len(h))
        s.rng = self.tape.cb
        self.settings = s

    def cert(self, data):
        b = _b(data)
        self.keep.append(b)
        c = BakeCert()
        c.data, c.len, c.val = ct.cast(b, ct.c_void_p), len(data), CERTVAL
        self.keep.append(c)
        return c


def _tamper(tamper, name, buf):
    """Apply tamper[name] to the message in ctypes buffer buf (same length) before delivery."""
    if tamper and name in tamper:
        new = tamper[name](buf.raw)
        assert len(new) == len(buf.raw)
        ct.memmove(buf, new, len(new))


def _vp(x):
    return ct.cast(x, ct.c_void_p)


def bmqv(l, da, db, certa, certb, randa, randb, helloa=None, hellob=None, kca=True, kcb=True, tamper=None):
    """Run BMQV step by step; -> dict(codes, M1, M2, M3, keya, keyb)."""
    no = l // 4
    A = _Side(l, kca, kcb, helloa, hellob, randa)
    B = _Side(l, kca, kcb, helloa, hellob, randb)
    sa = ct.create_string_buffer(lib.bakeBMQV_keep(l) + 64)
    sb = ct.create_string_buffer(lib.bakeBMQV_keep(l) + 64)
    ps = ct.byref(params(l))
    ca_A, cb_A = A.cert(certa), A.cert(certb)
    ca_B, cb_B = B.cert(certa), B.cert(certb)
    out = {"codes": []}

    def step(rc):
        out["codes"].append(err(rc))
        return rc == 0
    if not step(lib.bakeBMQVStart(sb, ps, ct.byref(B.settings), _b(db), ct.byref(cb_B))):
        return out
    if not step(lib.bakeBMQVStart(sa, ps, ct.byref(A.settings), _b(da), ct.byref(ca_A))):
        return out
    m1 = ct.create_string_buffer(2 * no)
    if not step(lib.bakeBMQVStep2(m1, sb)):
        return out
    out["M1"] = m1.raw
    _tamper(tamper, "M1", m1)
    m2 = ct.create_string_buffer(2 * no + 8)
    if not step(lib.bakeBMQVStep3(m2, m1, ct.byref(cb_A), sa)):
        return out
    out["M2"] = m2.raw[:2 * no + (8 if kca else 0)]
    _tamper(tamper, "M2", m2)
    m3 = ct.create_string_buffer(8)
    if not step(lib.bakeBMQVStep4(m3, m2, ct.byref(ca_B), sb)):
        return out
    out["M3"] = m3.raw if kcb else b""
    _tamper(tamper, "M3", m3)
    if kcb and not step(lib.bakeBMQVStep5(m3, sa)):
        return out
    ka, kb = ct.create_string_buffer(32), ct.create_string_buffer(32)
    step(lib.bakeBMQVStepG(ka, sa))
    step(lib.bakeBMQVStepG(kb, sb))
    out["keya"], out["keyb"] = ka.raw, kb.raw
    out["reqa"], out["reqb"] = A.tape.requested, B.tape.requested
    return out


def bsts(l, da, db, certa, certb, randa, randb, helloa=None, hellob=None, tamper=None):
    no = l // 4
    A = _Side(l, True, True, helloa, hellob, randa)
    B = _Side(l, True, True, helloa, hellob, randb)
    sa = ct.create_string_buffer(lib.bakeBSTS_keep(l) + 64)
    sb = ct.create_string_buffer(lib.bakeBSTS_keep(l) + 64)
    ps = ct.byref(params(l))
    ca_A, cb_B = A.cert(certa), B.cert(certb)
    out = {"codes": []}

    def step(rc):
        out["codes"].append(err(rc))
        return rc == 0
    if not step(lib.bakeBSTSStart(sb, ps, ct.byref(B.settings), _b(db), ct.byref(cb_B))):
        return out
    if not step(lib.bakeBSTSStart(sa, ps, ct.byref(A.settings), _b(da), ct.byref(ca_A))):
        return out
    m1 = ct.create_string_buffer(2 * no)
    if not step(lib.bakeBSTSStep2(m1, sb)):
        return out
    out["M1"] = m1.raw
    _tamper(tamper, "M1", m1)
    n2 = 3 * no + len(certa) + 8
    m2 = ct.create_string_buffer(n2)
    if not step(lib.bakeBSTSStep3(m2, m1, sa)):
        return out
    out["M2"] = m2.raw
    _tamper(tamper, "M2", m2)
    n3 = no + len(certb) + 8
    m3 = ct.create_string_buffer(n3)
    if not step(lib.bakeBSTSStep4(m3, m2, ct.c_size_t(n2), CERTVAL, sb)):
        return out
    out["M3"] = m3.raw
    _tamper(tamper, "M3", m3)
    if not step(lib.bakeBSTSStep5(m3, ct.c_size_t(n3), CERTVAL, sa)):
        return out
    ka, kb = ct.create_string_buffer(32), ct.create_string_buffer(32)
    step(lib.bakeBSTSStepG(ka, sa))
    step(lib.bakeBSTSStepG(kb, sb))
    out["keya"], out["keyb"] = ka.raw, kb.raw
    out["reqa"], out["reqb"] = A.tape.requested, B.tape.requested
    return out


def bpace(l, pwd, randa, randb, helloa=None, hellob=None, kca=True, kcb=True, tamper=None):
    no = l // 4
    A = _Side(l, kca, kcb, helloa, hellob, randa)
    B = _Side(l, kca, kcb, helloa, hellob, randb)
    sa = ct.create_string_buffer(lib.bakeBPACE_keep(l) + 64)
    sb = ct.create_string_buffer(lib.bakeBPACE_keep(l) + 64)
    ps = ct.byref(params(l))
    out = {"codes": []}

    def step(rc):
        out["codes"].append(err(rc))
        return rc == 0
    if not step(lib.bakeBPACEStart(sb, ps, ct.byref(B.settings), _b(pwd), ct.c_size_t(len(pwd)))):
        return out
    if not step(lib.bakeBPACEStart(sa, ps, ct.byref(A.settings), _b(pwd), ct.c_size_t(len(pwd)))):
        return out
    m1 = ct.create_string_buffer(no // 2)
    if not step(lib.bakeBPACEStep2(m1, sb)):
        return out
    out["M1"] = m1.raw
    _tamper(tamper, "M1", m1)
    m2 = ct.create_string_buffer(5 * no // 2)
    if not step(lib.bakeBPACEStep3(m2, m1, sa)):
        return out
    out["M2"] = m2.raw
    _tamper(tamper, "M2", m2)
    m3 = ct.create_string_buffer(2 * no + 8)
    if not step(lib.bakeBPACEStep4(m3, m2, sb)):
        return out
    out["M3"] = m3.raw[:2 * no + (8 if kcb else 0)]
    _tamper(tamper, "M3", m3)
    m4 = ct.create_string_buffer(8)
    if not step(lib.bakeBPACEStep5(m4, m3, sa)):
        return out
    out["M4"] = m4.raw if kca else b""
    _tamper(tamper, "M4", m4)
    if kca and not step(lib.bakeBPACEStep6(m4, sb)):
        return out
    ka, kb = ct.create_string_buffer(32), ct.create_string_buffer(32)
    step(lib.bakeBPACEStepG(ka, sa))
    step(lib.bakeBPACEStepG(kb, sb))
    out["keya"], out["keyb"] = ka.raw, kb.raw
    out["reqa"], out["reqb"] = A.tape.requested, B.tape.requested
    return out


# ------------------------------------------------------------------ harvest helpers
def check_bign(V, H):
    """Called by harvest_ec.py --check-lib: confirm hashes/tapes against the library and record
    the token of the 'extra-16' key transport run."""
    for v in V:
        if "hash_of" in v:
            h = belt_hash(bytes.fromhex(v["hash_of"]))
            assert h[:len(v["hash"]) // 2].hex().upper() == v["hash"], v["name"]
        if v["kind"] == "sign":
            rc, sig, req = sign(v["l"], bytes.fromhex(v["oid_der"]), bytes.fromhex(v["hash"]),
                                bytes.fromhex(v["privkey"]), bytes.fromhex(v["tape"]))
            assert rc == "OK" and sig.hex().upper() == v["sig"] and req == v["consumed"], v["name"]
        if v["kind"] == "key_wrap":
            rc, tok, req = key_wrap(v["l"], bytes.fromhex(v["key"]), bytes.fromhex(v["header"]),
                                    bytes.fromhex(v["pubkey"]), bytes.fromhex(v["tape"]))
            assert rc == "OK" and req == v["consumed"], v["name"]
            if v["token"] is None:
                v["token"] = tok.hex().upper()
                v["token_source"] = "recorded from the baseline library (the C test only checks the round trip)"
            else:
                assert tok.hex().upper() == v["token"], v["name"]


def record_bake(V):
    for v in V:
        h = lambda k: None if v.get(k) is None else bytes.fromhex(v[k])   # noqa: E731
        if v["kind"] == "bmqv":
            r = bmqv(v["l"], h("da"), h("db"), h("certa"), h("certb"), h("randa"), h("randb"),
                     h("helloa"), h("hellob"), v["kca"], v["kcb"])
        elif v["kind"] == "bsts":
            r = bsts(v["l"], h("da"), h("db"), h("certa"), h("certb"), h("randa"), h("randb"),
                     h("helloa"), h("hellob"))
        elif v["kind"] == "bpace":
            r = bpace(v["l"], h("pwd"), h("randa"), h("randb"), h("helloa"), h("hellob"), v["kca"], v["kcb"])
        else:
            continue
        assert all(c == "OK" for c in r["codes"]), (v["name"], r["codes"])
        assert r["keya"] == r["keyb"] and r["keya"].hex().upper() == v["key"], v["name"]
        for m in ("M1", "M2", "M3", "M4"):
            if m in r:
                v[m] = r[m].hex().upper()
        v["messages_source"] = "recorded from the baseline library"
