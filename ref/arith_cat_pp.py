"""C05 catalogue, part pp.h: polynomials over GF(2) (bit i of the integer = coefficient of x^i; reference ref/polys.py)."""
from arith_catalogue import *   # noqa
import polys as P

G = dict(group='pp')
SIZE_MAX = (1 << 64) - 1

Fn('ppDeg', 'size', 'a:in[n] n:len', rng(), dict(a=D_num('n')), f=lambda v: dict(ret=P.deg(v.a) if v.a else SIZE_MAX), **G)
def f_ppmulw(v):
    t = P.mul(v.a, v.w); return dict(b=t & ((1 << (v.n * v.W)) - 1), ret=t >> (v.n * v.W))
Fn('ppMulW', 'word', 'b:out[n] a:in[n] n:len w:w stack:stack[ppMulW_deep(n)]', rng(), dict(a=D_num('n'), w=D_word), f=f_ppmulw, alias=('b=a',), **G)
def f_ppaddmulw(v):
    t = v.b ^ P.mul(v.a, v.w); return dict(b=t & ((1 << (v.n * v.W)) - 1), ret=t >> (v.n * v.W))
Fn('ppAddMulW', 'word', 'b:io[n] a:in[n] n:len w:w stack:stack[ppAddMulW_deep(n)]', rng(), dict(a=D_num('n'), b=D_num('n'), w=D_word),
   f=f_ppaddmulw, alias=('b=a',), **G)
def ppmul_shapes(N, W):
    s = rng2()(N, W)
    if N < 14:          # the table kernels end at 9 words: the (truncated) Karatsuba recursion of ppMulEq starts at 10
        s += [dict(n=n, m=m) for n, m in ((10, 10), (11, 11), (12, 12), (13, 13), (10, 3), (3, 11), (11, 10))]
    return s
Fn('ppMul', 'void', 'c:out[n+m] a:in[n] n:len b:in[m] m:len stack:stack[ppMul_deep(n,m)]', ppmul_shapes, dict(a=D_num('n'), b=D_num('m')),
   f=lambda v: dict(c=P.mul(v.a, v.b)), alias=('a=b',), **G)
Fn('ppSqr', 'void', 'b:out[2*n] a:in[n] n:len stack:stack[ppSqr_deep(n)]', rng(), dict(a=D_num('n')), f=lambda v: dict(b=P.mul(v.a, v.a)), **G)

def ppdivisor(lenexpr, need_const=False):
    def d(v, sh, W, name):
        n = ev(lenexpr, sh, W); t = (n - 1) * W
        if n == 0:
            return [], []
        r = [x for x in num_full(n, W) if x >> t]
        r += [1 << t, (1 << t) | 1, 3 << t, (1 << (t + W - 1)) | 1, (1 << (n * W)) - 1, (1 << t) | ((1 << t) - 1), (1 << t + W // 2) | 1,
              fint('pd%d' % n, n * W) | 1 << (n * W - 1) | 1, fint('pe%d' % n, t + 1) | 1 << t | 1]
        r = list(dict.fromkeys(x for x in r if x >> t and x < 1 << (n * W) and (x & 1 or not need_const)))
        return r, r
    d.outer = True
    return d
def ppdiv_dom(v, sh, W):
    n, m = sh['n'], sh['m']; b = v.b; top = 1 << (n * W)
    r = list(num_full(n, W) if max(n, m) <= 4 else num_core(n, W)) + [top - 1, top >> 1]
    for q in (1, 2, 3, (1 << W) - 1, 1 << W, (1 << max(0, n * W - b.bit_length() + 1)) - 1, fint('pq', max(0, (n - m + 1) * W))):
        for d in (0, 1, b >> 1):
            r.append(P.mul(q, b) ^ d)
    return [x for x in r if 0 <= x < top]
def f_ppdiv(v): q, r = P.divmod2(v.a, v.b); return dict(q=q, r=r)
Fn('ppDiv', 'void', 'q:out[n-m+1] r:out[m] a:in[n] n:len b:in[m] m:len stack:stack[ppDiv_deep(n,m)]', rng2(1, 1, lambda n, m: n >= m),
   dict(b=ppdivisor('m'), a=D_list(ppdiv_dom)), f=f_ppdiv, alias=('r=a',), risky=lambda v: v.b == 1,
   note='pp.h writes "[n]r"; the implementation and its ASSERT use m words, as zzDiv documents: r is allocated with m words', **G)
Fn('ppMod', 'void', 'r:out[m] a:in[n] n:len b:in[m] m:len stack:stack[ppMod_deep(n,m)]', rng2(0, 1),
   dict(b=ppdivisor('m'), a=D_list(ppdiv_dom)), f=lambda v: dict(r=P.mod(v.a, v.b)), alias=('r=a',), risky=lambda v: v.b == 1, **G)

def ppgcd_dom(other, lenexpr):
    def d(v, sh, W, name):
        n = ev(lenexpr, sh, W); top = 1 << (n * W)
        full = [x for x in num_full(n, W) if x]
        if other in v:
            o = v[other]
            full += [o, o << 1, P.mul(o, 3), o >> 1, o ^ 1, o >> W, o << W, P.mul(o, 7) >> 1]
        full = list(dict.fromkeys(x for x in full if 0 < x < top))
        core = [x for x in num_core(n, W) if x] + full[-2:]
        return full, list(dict.fromkeys(core))
    return d
PGD = dict(a=ppgcd_dom('-', 'n'), b=ppgcd_dom('a', 'm'))
Fn('ppGCD', 'void', 'd:out[min(n,m)] a:in[n] n:len b:in[m] m:len stack:stack[ppGCD_deep(n,m)]', rng2(1, 1), PGD,
   pre=lambda v: v.a and v.b, f=lambda v: dict(d=P.gcd(v.a, v.b)), alias=('a=b',), **G)
def ck_ppexgcd(v, got):
    d = P.gcd(v.a, v.b)
    if got['d'] != d:
        return 'd = %x, gcd = %x' % (got['d'], d)
    if P.mul(v.a, got['da']) ^ P.mul(v.b, got['db']) != d:
        return 'a * da + b * db != d (da = %x, db = %x, d = %x)' % (got['da'], got['db'], d)
    return None
Fn('ppExGCD', 'void', 'd:out[min(n,m)] da:out[m] db:out[n] a:in[n] n:len b:in[m] m:len stack:stack[ppExGCD_deep(n,m)]', rng2(1, 1), PGD,
   pre=lambda v: v.a and v.b, check=ck_ppexgcd, alias=('a=b',), **G)

# ---- modular
def ppelems(v, sh, W):
    n = sh['n']; mod = v.mod; dg = P.deg(mod)
    r = [0, 1, 2, 3, mod >> 1, mod ^ 1 << dg, (1 << dg) - 1, 1 << max(0, dg - 1), (1 << (n - 1) * W), (1 << (n - 1) * W) - 1,
         fint('pl%d/0' % n, dg), fint('pl%d/1' % n, dg), alt(n, W, 0) & ((1 << dg) - 1), (1 << (dg + 1) // 2), mod >> (dg // 2 + 1)]
    return [x for x in dict.fromkeys(r) if 0 <= x < 1 << dg]
PEL = D_list(ppelems)
def f_ppinv(v):
    i = P.invmod(v.a, v.mod) if v.a else None
    return dict(b=0 if i is None else i)
def f_ppdivmod(v):
    i = P.invmod(v.a, v.mod) if v.a else None
    return dict(b=0 if i is None else P.mulmod(v.divident, i, v.mod))
Fn('ppMulMod', 'void', 'c:out[n] a:in[n] b:in[n] mod:in[n] n:len stack:stack[ppMulMod_deep(n)]', rng(1),
   dict(mod=ppdivisor('n'), a=PEL, b=PEL), pre=lambda v: v.mod > 1, f=lambda v: dict(c=P.mulmod(v.a, v.b, v.mod)), alias=('a=b',), **G)
Fn('ppSqrMod', 'void', 'b:out[n] a:in[n] mod:in[n] n:len stack:stack[ppSqrMod_deep(n)]', rng(1),
   dict(mod=ppdivisor('n'), a=PEL), pre=lambda v: v.mod > 1, f=lambda v: dict(b=P.sqrmod(v.a, v.mod)), **G)
Fn('ppInvMod', 'void', 'b:out[n] a:in[n] mod:in[n] n:len stack:stack[ppInvMod_deep(n)]', rng(1),
   dict(mod=ppdivisor('n', True), a=PEL), pre=lambda v: v.mod > 1, f=f_ppinv, risky=lambda v: v.a == 0, **G)
Fn('ppDivMod', 'void', 'b:out[n] divident:in[n] a:in[n] mod:in[n] n:len stack:stack[ppDivMod_deep(n)]', rng(1),
   dict(mod=ppdivisor('n', True), a=PEL, divident=PEL), pre=lambda v: v.mod > 1, f=f_ppdivmod, alias=('divident=a',), risky=lambda v: v.a == 0, **G)

# ---- reductions
def ppred_dom(v, sh, W):
    n = sh['n']; mod = v.mod; top = 1 << (2 * n * W)
    r = list(num_full(2 * n, W)) + [mod, mod ^ 1, mod << 1, mod << (n * W), (mod << (n * W)) ^ 1, P.mul(mod, mod), P.mul(mod, mod ^ 1), P.mul(mod >> 1, mod >> 1)]
    for q in (3, (1 << W) - 1, (1 << n * W) - 1, 1 << (n * W - 1), fint('prq%d' % n, n * W)):
        r += [P.mul(q, mod), P.mul(q, mod) ^ 1]
    return [x for x in dict.fromkeys(r) if 0 <= x < top]
def lo(v, n, x):
    return ('lo', n, x)
Fn('ppRed', 'void', 'a:io[2*n] mod:in[n] n:len stack:stack[ppRed_deep(n)]', rng(1), dict(mod=ppdivisor('n'), a=D_list(ppred_dom)),
   f=lambda v: dict(a=lo(v, v.n, P.mod(v.a, v.mod))), risky=lambda v: v.mod == 1, **G)

def trinomials(W, N):
    """(m, k) with m % 8 != 0, k > 0, m - k >= W, n = W_OF_B(m) <= N: every word count, (m - k) % W == 0 and != 0, k small and maximal"""
    out = []
    for n in range(2, N + 1):
        for m in ((n - 1) * W + 1, (n - 1) * W + W // 2 + 1, n * W - 1):
            if m % 8 == 0:
                m -= 1
            for k in (1, W - 1, m - W, m - W - 1, m - 2 * W if m >= 2 * W + 1 else 0, m // 2):
                if 0 < k and m - k >= W and (m + W - 1) // W == n:
                    out.append((m, k))
    return list(dict.fromkeys(out))
def pentanomials(W, N):
    out = []
    for n in range(2, N + 1):
        for m in ((n - 1) * W + 1, (n - 1) * W + W // 2, n * W - 1, n * W):
            for (k, l, l1) in ((3, 2, 1), (7, 2, 1), (W - 1, W - 2, 1), (W - 1, 2, 1), (12, 7, 5), (W // 2, W // 2 - 1, W // 2 - 2)):
                if m - k >= W and k < W and k > l > l1 > 0 and (m + W - 1) // W == n:
                    out.append((m, k, l, l1))
    return list(dict.fromkeys(out))
def special_red_dom(v, sh, W):
    n2 = 2 * ((sh['m'] + W - 1) // W); mod = v.mod; top = 1 << (n2 * W)
    r = list(num_full(n2, W)) + [mod, mod << 1, P.mul(mod, mod) % top, mod << (n2 * W // 2 - 1)]
    r += [P.mul(fint('sq%d' % j, sh['m']), fint('sr%d' % j, sh['m'])) for j in range(3)]       # products of two field elements
    r += [P.mul((1 << sh['m']) - 1, (1 << sh['m']) - 1), fint('sf', n2 * W)]
    return [x for x in dict.fromkeys(r) if 0 <= x < top]
def tri_mod(v, sh, W): return [1 << sh['m'] | 1 << sh['k'] | 1]
def pen_mod(v, sh, W): return [1 << sh['m'] | 1 << sh['k'] | 1 << sh['l'] | 1 << sh['l1'] | 1]
Fn('ppRedTrinomial', 'void', 'a:io[2*WOB(m)] p:st[m,k]', lambda N, W: [dict(m=m, k=k) for m, k in trinomials(W, N)],
   dict(mod=D_list(tri_mod), a=D_list(special_red_dom)), f=lambda v: dict(a=lo(v, (v.m + v.W - 1) // v.W, P.mod(v.a, v.mod))), **G)
Fn('ppRedPentanomial', 'void', 'a:io[2*WOB(m)] p:st[m,k,l,l1]', lambda N, W: [dict(m=m, k=k, l=l, l1=l1) for m, k, l, l1 in pentanomials(W, N)],
   dict(mod=D_list(pen_mod), a=D_list(special_red_dom)), f=lambda v: dict(a=lo(v, (v.m + v.W - 1) // v.W, P.mod(v.a, v.mod))), **G)
Fn('ppRedBelt', 'void', 'a:io[2*WOB(m)]', lambda N, W: [dict(m=128)],
   dict(mod=D_list(lambda v, sh, W: [1 << 128 | 0x87]), a=D_list(special_red_dom)), f=lambda v: dict(a=lo(v, 128 // v.W, P.mod(v.a, v.mod))), **G)

# ---- minimal polynomial of a bit sequence (Berlekamp-Massey; ref polys.min_poly)
def f_minpoly(v):
    l = v.l
    s = [(v.a >> (2 * l - 1 - i)) & 1 for i in range(2 * l)]        # first element = bit 2l - 1
    C, L = P.min_poly(s)
    if L > l:
        return dict(b=None)       # no recurrence of order <= l generates the 2l terms: pp.h does not say what is returned
    # connection polynomial C (c_0 = 1, degree <= L) -> characteristic (minimal) polynomial x^L * C(1/x)
    mp = 0
    for i in range(L + 1):
        if C >> i & 1:
            mp |= 1 << (L - i)
    return dict(b=mp)
def seq_dom(v, sh, W):
    l = sh['l']; bits = 2 * l; nw = (bits + W - 1) // W
    r = [0, (1 << bits) - 1, 1, 1 << (bits - 1), alt(nw, W, 0) & ((1 << bits) - 1), alt(nw, W, 1) & ((1 << bits) - 1)] + [fint('mp%d/%d' % (l, j), bits) for j in range(6)]
    for f_ in (0b111, 0b1011, 0b10011, 1 << min(l, 9) | 0b11):               # LFSR sequences of small linear complexity
        d = P.deg(f_)
        if d <= l:
            st = [1] + [0] * (d - 1); s = []
            for _ in range(bits):
                s.append(st[0]); nb = 0
                for i in range(d):
                    if f_ >> i & 1:
                        nb ^= st[i]
                st = st[1:] + [nb]
            r.append(sum(b << (bits - 1 - i) for i, b in enumerate(s)))
    return [x for x in dict.fromkeys(r) if x < 1 << bits]
Fn('ppMinPoly', 'void', 'b:out[WOB(l+1)] a:in[WOB(2*l)] l:len stack:stack[ppMinPoly_deep(l)]',
   lambda N, W: [dict(l=l) for l in sorted(set([1, 2, 3, 7, 8, 15, 16, 17, 31, 32, 33, 63, 64, 65, 100, 127, 128, 129] + [W * j // 2 for j in range(1, N + 1)]))
                 if (2 * l + W - 1) // W <= max(N, 2)],
   dict(a=D_list(seq_dom)), f=f_minpoly, **G)

def _cls_ppinv(v):
    if v.a == 0: return 'a=0'
    if P.gcd(v.a, v.mod) != 1: return 'gcd(a,mod)!=1'
    return None
CAT['ppInvMod'].cls = CAT['ppDivMod'].cls = _cls_ppinv
for _n in ('ppDiv', 'ppMod'):
    CAT[_n].cls = lambda v: 'deg(b)=0' if v.b == 1 else ('b[m-1]=1' if v.b >> ((v.m - 1) * v.W) == 1 else None)
CAT['ppRed'].cls = lambda v: 'mod=1' if v.mod == 1 else None
for _n in ('ppGCD', 'ppExGCD', 'ppInvMod', 'ppDivMod', 'ppDiv', 'ppMod'):
    CAT[_n].weight = 3
