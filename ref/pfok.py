#!/usr/bin/env python3
"""Specification-level reference model of the draft RD RB "pfok" key agreement as documented in bee2 pfok.h.

Montgomery group B_p (pfok.h): non-negative residues mod p with  u o v = u v R^-1 mod p,  R = 2^(l+2).
The identity of B_p is e = R mod p;  u^(x) = Montgomery product of x copies of u = u^x R^-(x-1) mod p, u^(0) = e.
Numbers are stored "as is" (no conversion): octet strings are little-endian.

  privkey  O_OF_B(r) octets, value < 2^r        pubkey  O_OF_B(l) octets, 0 < y < p
  sharekey O_OF_B(n) octets: the n low bits of the result

API
---
LS, RS                       table 5.1 (l -> r)
STD_NAMES, params_std(name) -> dict(l, r, n, p, g) ; seed_std(name) -> dict(l, zi[31], li[20])
mont_mul(P, u, v), mont_pow(P, u, x), mont_order(P, g)
params_val(P)                conditions listed at pfokParamsVal (g of order p-1 in B_p)
params_gen(S)                pfokParamsGen: p from the seed (prime chain), g = least generator
seed_val(S), seed_adj(S)     pfokSeedVal / pfokSeedAdj contracts
pubkey_val(P, y), pubkey_calc(P, x) -> y = g^(x)
keypair_tape(P, tape)        x <- O_OF_B(r) octets, truncated to r bits
dh(P, x, y)                  -> n low bits of y^(x)                      (octets in/out helpers: *_octets)
mti(P, x, u, y, v)           -> n low bits of  v^(x) xor y^(u)   (x, u own static/ephemeral private keys,
                                y, v peer's static/ephemeral public keys)
"""
import json
import os
import sys

sys.path.insert(0, os.path.dirname(os.path.abspath(__file__)))
import pri  # noqa: E402

LS = [638, 702, 766, 862, 958, 1022, 1118, 1214, 1310, 1438, 1534, 1662, 1790, 1918, 2046, 2174, 2334, 2462, 2622, 2782, 2942]
RS = [130, 136, 141, 149, 154, 161, 168, 175, 181, 188, 194, 201, 208, 214, 221, 225, 234, 240, 246, 253, 259]
STD_NAMES = ["test", "1.2.112.0.2.0.1176.2.3.3.2", "1.2.112.0.2.0.1176.2.3.6.2", "1.2.112.0.2.0.1176.2.3.10.2"]
_V = None


def _vectors():
    global _V
    if _V is None:
        with open(os.path.join(os.path.dirname(os.path.abspath(__file__)), 'vectors', 'pfok.json')) as f:
            _V = json.load(f)
    return _V


def params_std(name):
    t = _vectors()['params'][name]
    return {'l': t['l'], 'r': t['r'], 'n': t['n'], 'p': int(t['p'], 16), 'g': int(t['g'], 16)}


def seed_std(name):
    t = _vectors()['params'][name]
    return {'l': t['l'], 'zi': list(t['zi']), 'li': list(t['li'])}


def O_OF_B(b):
    return (b + 7) // 8


def mont_R(P):
    return 1 << (P['l'] + 2)


def mont_mul(P, u, v):
    return u * v * pow(mont_R(P), -1, P['p']) % P['p']


def mont_pow(P, u, x):
    """u^(x): Montgomery product of x copies of u; u^(0) = R mod p."""
    p, R = P['p'], mont_R(P)
    # u^(x) = (u R^-1)^x R mod p
    return pow(u * pow(R, -1, p), x, p) * R % p


def mont_pow_naive(P, u, x):
    """Definition: left-to-right products (tiny x only)."""
    e = mont_R(P) % P['p']
    for _ in range(x):
        e = mont_mul(P, e, u)
    return e


def mont_order(P, g):
    """order of g in B_p, assuming p = 2q + 1 with q prime (divisors of p - 1: 1, 2, q, 2q)."""
    q = (P['p'] - 1) // 2
    e = mont_R(P) % P['p']
    for d in (1, 2, q, 2 * q):
        if mont_pow(P, g, d) == e:
            return d
    return None


def params_val(P):
    l, r, n, p, g = P['l'], P['r'], P['n'], P['p'], P['g']
    if l not in LS or RS[LS.index(l)] != r:
        return False
    if not n < l:
        return False
    if p.bit_length() != l or not pri.is_prime(p):
        return False
    if not pri.is_prime((p - 1) // 2):
        return False
    if not 0 < g < p:
        return False
    return mont_order(P, g) == p - 1


def seed_val(S):
    l, zi, li = S['l'], S['zi'], S['li']
    if l not in LS or len(zi) != 31 or len(li) != 20:
        return False
    if any(not (1 <= z <= 65256) for z in zi):
        return False
    if li[0] != l - 1:
        return False
    t = 0
    while t + 1 < 20 and li[t + 1] != 0:
        t += 1
    if any(x != 0 for x in li[t + 1:]):
        return False
    if not 17 <= li[t] <= 32:
        return False
    for i in range(t):
        if not (5 * li[i + 1] // 4 + 4 < li[i] <= 2 * li[i + 1]):
            return False
    return True


def seed_adj(S):
    """Returns adjusted seed or None (ERR_BAD_SEED)."""
    S = {'l': S['l'], 'zi': list(S['zi']), 'li': list(S['li'])}
    if S['l'] not in LS:
        return None
    if any(not (1 <= z <= 65256) for z in S['zi']):
        if any(S['zi']):
            return None
        S['zi'] = list(range(1, 32))
    if not seed_val(S):
        if any(S['li']):
            return None
        li = [S['l'] - 1]
        while li[-1] > 32:
            li.append(li[-1] // 2 + 1)
        S['li'] = li + [0] * (20 - len(li))
    return S if seed_val(S) else None


def params_gen(S, n=256, on_q=None):
    """pfokParamsGen contract (algorithms 5.2, 5.3): prime chain from the STB generator seeded with zi;
    q = q_0 is rebuilt until p = 2q + 1 is prime; g = 1, 2, ... until g has order p - 1 in B_p."""
    if not seed_val(S):
        raise ValueError('BAD_SEED')
    l = S['l']
    chain = [x for x in S['li'] if x]
    gen = pri.StbGen(S['zi'])
    num = 0
    for qs in pri.chain_primes(chain, gen, top_trials=4 * chain[0] * chain[0]):
        q = qs[0]
        num += 1
        if on_q:
            on_q(q, num)
        if pri.is_prime(2 * q + 1):
            break
    P = {'l': l, 'r': RS[LS.index(l)], 'n': n, 'p': 2 * q + 1, 'g': 1}
    while mont_order(P, P['g']) != P['p'] - 1:
        P['g'] = (P['g'] + 1) % P['p']
    P['_candidates'] = num
    return P


def pubkey_val(P, y):
    return 0 < y < P['p']


def pubkey_calc(P, x):
    if x < 0 or x >> P['r']:
        raise ValueError('BAD_PRIVKEY')
    return mont_pow(P, P['g'], x)


def keypair_tape(P, tape):
    mo, no = O_OF_B(P['r']), O_OF_B(P['l'])
    data = tape.read(mo) if hasattr(tape, 'read') else bytes(tape)[:mo]
    x = int.from_bytes(data, 'little') & ((1 << P['r']) - 1)
    return x.to_bytes(mo, 'little'), pubkey_calc(P, x).to_bytes(no, 'little')


def dh(P, x, y):
    if x < 0 or x >> P['r']:
        raise ValueError('BAD_PRIVKEY')
    if not pubkey_val(P, y):
        raise ValueError('BAD_PUBKEY')
    return mont_pow(P, y, x) & ((1 << P['n']) - 1)


def mti(P, x, u, y, v):
    if x < 0 or x >> P['r'] or u < 0 or u >> P['r']:
        raise ValueError('BAD_PRIVKEY')
    if not pubkey_val(P, y) or not pubkey_val(P, v):
        raise ValueError('BAD_PUBKEY')
    return (mont_pow(P, v, x) ^ mont_pow(P, y, u)) & ((1 << P['n']) - 1)


def dh_octets(P, privkey, pubkey):
    mo, no = O_OF_B(P['r']), O_OF_B(P['l'])
    if len(privkey) != mo or len(pubkey) != no:
        raise ValueError('BAD_INPUT')
    return dh(P, int.from_bytes(privkey, 'little'), int.from_bytes(pubkey, 'little')).to_bytes(O_OF_B(P['n']), 'little')


def mti_octets(P, privkey, privkey1, pubkey, pubkey1):
    mo, no = O_OF_B(P['r']), O_OF_B(P['l'])
    if len(privkey) != mo or len(privkey1) != mo or len(pubkey) != no or len(pubkey1) != no:
        raise ValueError('BAD_INPUT')
    i = lambda b: int.from_bytes(b, 'little')
    return mti(P, i(privkey), i(privkey1), i(pubkey), i(pubkey1)).to_bytes(O_OF_B(P['n']), 'little')


def selftest(path=None):
    global _V
    if path:
        with open(path) as f:
            _V = json.load(f)
    V = _vectors()
    n = 0
    for name in STD_NAMES:
        P = params_std(name)
        assert params_val(P), name
        S = seed_std(name)
        assert seed_val(S), name
        assert seed_adj({'l': S['l'], 'zi': S['zi'], 'li': [0] * 20}) is not None
        n += 1
    for t in V['params_invalid']:
        P = params_std(t['params'])
        P[t['field']] = int(t['value'], 16) if isinstance(t['value'], str) else t['value']
        assert not params_val(P), t
        n += 1
    for t in V['seed']:
        S = seed_std(t['params'])
        for k, v in t.get('set', {}).items():
            if k == 'li' or k == 'zi':
                for idx, val in v.items():
                    S[k][int(idx)] = val
            else:
                S[k] = v
        if t.get('zero_li'):
            S['li'] = [0] * 20
        if 'valid' in t:
            assert seed_val(S) == t['valid'], t
        if 'adj_equals_std' in t:
            A = seed_adj(S)
            assert (A == seed_std(t['params'])) == t['adj_equals_std'], (t, A)
        n += 1
    for t in V['dh']:
        P = params_std(t['params'])
        k = dh_octets(P, bytes.fromhex(t['privkey']), bytes.fromhex(t['pubkey']))
        assert k.hex() == t['key'], (t, k.hex())
        n += 1
    for t in V['mti']:
        P = params_std(t['params'])
        k = mti_octets(P, bytes.fromhex(t['privkey']), bytes.fromhex(t['privkey1']), bytes.fromhex(t['pubkey']), bytes.fromhex(t['pubkey1']))
        assert k.hex() == t['key'], (t, k.hex())
        n += 1
    for t in V.get('gen', []):
        G = params_gen(seed_std(t['params']))
        S0 = params_std(t['params'])
        assert G['p'] == S0['p'] and G['l'] == S0['l'] and G['r'] == S0['r'], t
        assert G['_candidates'] == t['candidates'], G['_candidates']
        if t.get('g_matches'):
            assert G['g'] == S0['g']
        n += 1
    # definition check: closed form == naive repeated Montgomery products; DH symmetry
    P = params_std('test')
    for u in (1, 2, P['g'], P['p'] - 1, 12345678901234567890):
        for x in range(0, 6):
            assert mont_pow(P, u, x) == mont_pow_naive(P, u, x)
    xa, xb = 0x1234567890abcdef, 0xfedcba9876543211
    assert dh(P, xa, pubkey_calc(P, xb)) == dh(P, xb, pubkey_calc(P, xa))
    ua, ub = 77, 1 << 129
    ka = mti(P, xa, ua, pubkey_calc(P, xb), pubkey_calc(P, ub))
    kb = mti(P, xb, ub, pubkey_calc(P, xa), pubkey_calc(P, ua))
    assert ka == kb
    n += 2
    print('OK %d vectors' % n)
    return 0


if __name__ == '__main__':
    if '--selftest' in sys.argv:
        sys.exit(selftest())
    print(__doc__)
