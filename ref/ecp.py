#!/usr/bin/env python3
"""Specification-level reference model: elliptic curves over GF(p) (bee2 math/ecp.h, ec.h).

Pure stdlib, Python ints, textbook affine formulas.  NOT a transliteration of
ecp.c: no Jacobian coordinates, no words, no stacks, no windows/NAF.

Representation
--------------
field element : int in [0, p)
affine point  : (x, y) tuple of ints
infinity O    : None

API
---
Curve(p, a, b)                 y^2 = x^3 + a x + b over GF(p)
  .is_on(P)                    P is O or an affine point with coords in [0,p) on the curve
  .neg(P) .add(P,Q) .sub(P,Q) .dbl(P)
  .mul(k, P)                   k >= 0 any integer, left-to-right double-and-add
  .mul_add((k1,P1),(k2,P2),..) k1 P1 + k2 P2 + ...          (contract of ecAddMulA)
  .has_order(P, q)             P != O and q P == O           (contract of ecHasOrderA)
  .points()                    ALL affine points by brute force (small p only)
  .group_order()               len(points()) + 1
  .point_order(P)              least n >= 1 with n P == O (small groups only)
  .is_nonsingular()            4a^3 + 27b^2 != 0 mod p
  .lift_x(x)                   the two points with abscissa x (or [])
sqrt_mod(a, p)                 a square root of a modulo an odd prime p, or None
legendre(a, p)                 Legendre symbol as -1/0/1
is_prime(n)                    fixed-base Miller-Rabin (+ strong Lucas for n >= 2^64 bound)
swu(curve, s)                  the SWU map of STB 34.101.66 exactly as ecpSWU documents it
                               (p = 3 mod 4, a != 0, b != 0); returns an affine point
STD                            dict name -> parameter set (ints): 'bign-curve128v1' (p of 256 bits,
                               aka "bign-curve256v1" in field-size naming), 'bign-curve192v1' (384),
                               'bign-curve256v1' (512), 'bign-curve96v1' (192, bign96.c),
                               'ecp-test' (curve of test/math/ecp_test.c)
params_by_level(l)             l in {96,128,192,256} -> parameter set dict
validate_params(ps, belt_hash=None, mov=50)
                               independent re-validation of a bign parameter set (alg. 6.1.4);
                               returns list of failed conditions ([] == valid)
le2int / int2le                little-endian octet string <-> int
"""
import json
import os
import sys

# --------------------------------------------------------------------------
# helpers
# --------------------------------------------------------------------------


def le2int(b):
    return int.from_bytes(bytes(b), "little")


def int2le(x, n):
    return int(x).to_bytes(n, "little")


_SMALL_PRIMES = [2, 3, 5, 7, 11, 13, 17, 19, 23, 29, 31, 37, 41, 43, 47, 53, 59, 61, 67, 71,
                 73, 79, 83, 89, 97, 101, 103, 107, 109, 113, 127, 131, 137, 139, 149, 151,
                 157, 163, 167, 173, 179, 181, 191, 193, 197, 199, 211, 223, 227, 229]


def _mr_round(n, a, d, s):
    x = pow(a, d, n)
    if x == 1 or x == n - 1:
        return True
    for _ in range(s - 1):
        x = x * x % n
        if x == n - 1:
            return True
    return False


def jacobi(a, n):
    """Jacobi symbol (a/n), n odd positive."""
    assert n > 0 and n & 1
    a %= n
    r = 1
    while a:
        while a & 1 == 0:
            a >>= 1
            if n & 7 in (3, 5):
                r = -r
        a, n = n, a
        if a & 3 == 3 and n & 3 == 3:
            r = -r
        a %= n
    return r if n == 1 else 0


def _isqrt(n):
    if n < 0:
        raise ValueError
    if n == 0:
        return 0
    x = 1 << ((n.bit_length() + 1) // 2)
    while True:
        y = (x + n // x) // 2
        if y >= x:
            return x
        x = y


def _strong_lucas(n):
    """Strong Lucas probable prime test with Selfridge parameters (n odd, not a square)."""
    d = 5
    while True:
        j = jacobi(d, n)
        if j == -1:
            break
        if j == 0 and abs(d) % n != 0:
            return False
        d = -d - 2 if d > 0 else -d + 2
    p_, q_ = 1, (1 - d) // 4
    # n + 1 = 2^s * t
    t, s = n + 1, 0
    while t & 1 == 0:
        t >>= 1
        s += 1
    # Lucas sequences U_t, V_t, Q^t by binary ladder
    u, v, qk = 1, p_, q_ % n
    inv2 = (n + 1) // 2
    for bit in bin(t)[3:]:
        u, v = u * v % n, (v * v - 2 * qk) % n
        qk = qk * qk % n
        if bit == "1":
            u, v = (p_ * u + v) * inv2 % n, (d * u + p_ * v) * inv2 % n
            qk = qk * q_ % n
    if u == 0 or v == 0:
        return True
    for _ in range(s - 1):
        v = (v * v - 2 * qk) % n
        qk = qk * qk % n
        if v == 0:
            return True
    return False


def is_prime(n):
    """Primality: trial division, Miller-Rabin to 50 fixed prime bases, strong Lucas (BPSW+).

    The first 13 prime bases already make the test deterministic below 3.3e24; for the
    256..512-bit parameters no counterexample to BPSW is known.
    """
    if n < 2:
        return False
    for q in _SMALL_PRIMES:
        if n == q:
            return True
        if n % q == 0:
            return False
    d, s = n - 1, 0
    while d & 1 == 0:
        d >>= 1
        s += 1
    for a in _SMALL_PRIMES:
        if not _mr_round(n, a, d, s):
            return False
    r = _isqrt(n)
    if r * r == n:
        return False
    return _strong_lucas(n)


def legendre(a, p):
    a %= p
    if a == 0:
        return 0
    return 1 if pow(a, (p - 1) // 2, p) == 1 else -1


def sqrt_mod(a, p):
    """A square root of a modulo odd prime p (the one returned is not specified), or None."""
    a %= p
    if a == 0:
        return 0
    if p == 2:
        return a
    if pow(a, (p - 1) // 2, p) != 1:
        return None
    if p & 3 == 3:
        return pow(a, (p + 1) // 4, p)
    # Tonelli-Shanks
    q, s = p - 1, 0
    while q & 1 == 0:
        q >>= 1
        s += 1
    z = 2
    while pow(z, (p - 1) // 2, p) != p - 1:
        z += 1
    m, c, t, r = s, pow(z, q, p), pow(a, q, p), pow(a, (q + 1) // 2, p)
    while t != 1:
        i, t2 = 0, t
        while t2 != 1:
            t2 = t2 * t2 % p
            i += 1
        b = pow(c, 1 << (m - i - 1), p)
        m, c = i, b * b % p
        t, r = t * c % p, r * b % p
    return r


def _inv(a, p):
    a %= p
    if a == 0:
        raise ZeroDivisionError("inverse of 0 mod p")
    return pow(a, -1, p)


# --------------------------------------------------------------------------
# curve
# --------------------------------------------------------------------------


class Curve:
    """y^2 = x^3 + a x + b over GF(p), p an odd prime > 3."""

    def __init__(self, p, a, b):
        self.p, self.a, self.b = int(p), int(a) % int(p), int(b) % int(p)

    def __repr__(self):
        return "Curve(p=%#x, a=%#x, b=%#x)" % (self.p, self.a, self.b)

    def is_nonsingular(self):
        return (4 * self.a ** 3 + 27 * self.b ** 2) % self.p != 0

    def rhs(self, x):
        return (x * x * x + self.a * x + self.b) % self.p

    def is_on(self, P):
        if P is None:
            return True
        x, y = P
        if not (0 <= x < self.p and 0 <= y < self.p):
            return False
        return (y * y - self.rhs(x)) % self.p == 0

    def neg(self, P):
        if P is None:
            return None
        x, y = P
        return (x, (-y) % self.p)

    def dbl(self, P):
        if P is None:
            return None
        x, y = P
        p = self.p
        if y % p == 0:
            return None
        lam = (3 * x * x + self.a) * _inv(2 * y, p) % p
        x3 = (lam * lam - 2 * x) % p
        return (x3, (lam * (x - x3) - y) % p)

    def add(self, P, Q):
        if P is None:
            return Q
        if Q is None:
            return P
        p = self.p
        x1, y1 = P
        x2, y2 = Q
        if (x1 - x2) % p == 0:
            if (y1 + y2) % p == 0:
                return None
            return self.dbl(P)
        lam = (y2 - y1) * _inv(x2 - x1, p) % p
        x3 = (lam * lam - x1 - x2) % p
        return (x3, (lam * (x1 - x3) - y1) % p)

    def sub(self, P, Q):
        return self.add(P, self.neg(Q))

    def mul(self, k, P):
        """k P for any integer k >= 0 (left-to-right double-and-add on affine points)."""
        k = int(k)
        if k < 0:
            raise ValueError("k must be >= 0")
        R = None
        for bit in bin(k)[2:] if k else "":
            R = self.dbl(R)
            if bit == "1":
                R = self.add(R, P)
        return R

    def mul_add(self, *pairs):
        R = None
        for k, P in pairs:
            R = self.add(R, self.mul(k, P))
        return R

    def has_order(self, P, q):
        return P is not None and self.mul(q, P) is None

    # ---- brute force (small p) ----
    def points(self):
        """All affine points, by exhaustive search over x and y (small p only)."""
        p = self.p
        if p > 1 << 20:
            raise ValueError("points(): p too large for brute force")
        sq = {}
        for y in range(p):
            sq.setdefault(y * y % p, []).append(y)
        out = []
        for x in range(p):
            for y in sq.get(self.rhs(x), ()):
                out.append((x, y))
        return out

    def group_order(self):
        return len(self.points()) + 1

    def point_order(self, P):
        n, R = 1, P
        while R is not None:
            R = self.add(R, P)
            n += 1
        return n

    def lift_x(self, x):
        r = sqrt_mod(self.rhs(x), self.p)
        if r is None:
            return []
        return [(x, r)] if r == 0 else sorted([(x, r), (x, self.p - r)])


# --------------------------------------------------------------------------
# SWU (STB 34.101.66, as documented for ecpSWU)
# --------------------------------------------------------------------------


def swu(curve, s):
    """Map field element s to an affine point of curve.

    Preconditions (ecp.h): 0 <= s < p, p = 3 (mod 4), a != 0, b != 0.
    Steps of the standard:
        t  = -s^2
        x1 = -b (1 + t + t^2) (a (t + t^2))^(p-2)
        x2 = t x1
        y  = x1^3 + a x1 + b
        u  = y^(p - 1 - (p+1)/4)
        if u^2 y == 1:  W = (x1, u y)        [y is a nonzero square, u y = y^((p+1)/4)]
        else:           W = (x2, u s^3 y)
    (0^(p-2) is 0, which covers s in {0, p-1}: W = (0, b^((p+1)/4)) when b is a square.)
    """
    p, a, b = curve.p, curve.a, curve.b
    if not 0 <= s < p:
        raise ValueError("s not in field")
    if p & 3 != 3 or a == 0 or b == 0:
        raise ValueError("SWU preconditions violated")
    t = (-s * s) % p
    tt = (t + t * t) % p
    x1 = (-b * (1 + tt) * pow(a * tt % p, p - 2, p)) % p
    x2 = t * x1 % p
    y = curve.rhs(x1)
    u = pow(y, p - 1 - (p + 1) // 4, p)
    if u * u * y % p == 1:
        return (x1, u * y % p)
    return (x2, u * pow(s, 3, p) * y % p)


# --------------------------------------------------------------------------
# standard parameter sets
# --------------------------------------------------------------------------

def _ps(name, oid, l, p, a, b, q, yG, seed):
    return {"name": name, "oid": oid, "l": l, "p": p, "a": a, "b": b, "q": q,
            "xG": 0, "yG": yG, "seed": seed}


STD = {
    # STB 34.101.45 Table B.1 (security level l = 128, 256-bit field)
    "bign-curve128v1": _ps(
        "bign-curve128v1", "1.2.112.0.2.0.34.101.45.3.1", 128,
        p=2 ** 256 - 189,
        a=2 ** 256 - 192,
        b=0x77CE6C1515F3A8EDD2C13AABE4D8FBBE4CF55069978B9253B22E7D6BD69C03F1,
        q=0xFFFFFFFFFFFFFFFFFFFFFFFFFFFFFFFFD95C8ED60DFB4DFC7E5ABF99263D6607,
        yG=0x6BF7FC3CFB16D69F5CE4C9A351D6835D78913966C408F6521E29CF1804516A93,
        seed=bytes.fromhex("5E38010000000000")),
    # Table B.2 (l = 192, 384-bit field)
    "bign-curve192v1": _ps(
        "bign-curve192v1", "1.2.112.0.2.0.34.101.45.3.2", 192,
        p=2 ** 384 - 317,
        a=2 ** 384 - 320,
        b=0x3C75DFE1959CEF2033075AAB655D34D2712748BB0FFBB196A6216AF9E9712E3A14BDE2F0F3CEBD7CBCA7FC236873BF64,
        q=0xFFFFFFFFFFFFFFFFFFFFFFFFFFFFFFFFFFFFFFFFFFFFFFFE6CCCC40373AF7BBB8046DAE7A6A4FF0A3DB7DC3FF30CA7B7,
        yG=0x5D438224A82E9E9E6330117E432DBF893A729A11DC86FFA00549E79E66B1D35584403E276B2A42F9EA5ECB31F733C451,
        seed=bytes.fromhex("23AF000000000000")),
    # Table B.3 (l = 256, 512-bit field)
    "bign-curve256v1": _ps(
        "bign-curve256v1", "1.2.112.0.2.0.34.101.45.3.3", 256,
        p=2 ** 512 - 569,
        a=2 ** 512 - 572,
        b=0x6CB45944933B8C43D88C5D6A60FD58895BC6A9EEDD5D255117CE13E3DAADB0882711DCB5C4245E952933008C87ACA243EA8622273A49A27A09346998D6139C90,
        q=0xFFFFFFFFFFFFFFFFFFFFFFFFFFFFFFFFFFFFFFFFFFFFFFFFFFFFFFFFFFFFFFFFB2C0092C0198004EF26BEBB02E2113F4361BCAE59556DF32DCFFAD490D068EF1,
        yG=0xA826FF7AE4037681B182E6F7A0D18FABB0AB41B3B361BCE2D2EDF81B00CCCADA6973DDE20EFA6FD2FF777395EEE8226167AA83B9C94C0D04B792AE6FCEEFEDBD,
        seed=bytes.fromhex("AE17020000000000")),
    # experimental bign96 (bign96.c), l = 96, 192-bit field
    "bign-curve96v1": _ps(
        "bign-curve96v1", "1.2.112.0.2.0.34.101.45.3.0", 96,
        p=2 ** 192 - 237,
        a=2 ** 192 - 240,
        b=0x3199B925FD2398A887188E888901737A6ADDE84C64344C83,
        q=0xFFFFFFFFFFFFFFFFFFFFFFFE653AD337910BECBEFD6411AD,
        yG=0x8138964BC168C317E6F91BB203DA930CE0217FEBF648CCEC,
        seed=bytes.fromhex("C66C000000000000")),
}

# curve of test/math/ecp_test.c (big-endian hex strings there)
ECP_TEST = {
    "name": "ecp-test", "l": None,
    "p": 0xFFFFFFFFFFFFFFFFFFFFFFFFFFFFFFFFFFFFFFFFFFFFFFFFFFFFFFFFFFFFFF43,
    "a": 0xFFFFFFFFFFFFFFFFFFFFFFFFFFFFFFFFFFFFFFFFFFFFFFFFFFFFFFFFFFFFFF40,
    "b": 0x14B8,
    "q": 0xFFFFFFFFFFFFFFFFFFFFFFFFFFFFFFFF5D1229165911507C328526818EC4E11D,
    "xG": 0,
    "yG": 0xB0E9804939D7C2E931D4CE052CCC6B6B692514CCADBA44940484EEA5F52D9268,
}

# aliases in field-size naming (256/384/512-bit fields)
ALIASES = {
    "bign-curve256v1-field": "bign-curve128v1", "bign256": "bign-curve128v1",
    "bign-curve384v1-field": "bign-curve192v1", "bign384": "bign-curve192v1",
    "bign-curve512v1-field": "bign-curve256v1", "bign512": "bign-curve256v1",
    "bign96": "bign-curve96v1",
}

_BY_LEVEL = {96: "bign-curve96v1", 128: "bign-curve128v1", 192: "bign-curve192v1",
             256: "bign-curve256v1"}


def params_by_level(l):
    return dict(STD[_BY_LEVEL[l]])


def curve_of(ps):
    return Curve(ps["p"], ps["a"], ps["b"])


def base_of(ps):
    return (ps.get("xG", 0), ps["yG"])


def seed_b(ps, belt_hash):
    """b as derived from seed: (belt-hash(p||a||seed) || belt-hash(p||a||seed+1)) mod p.

    p, a are 2l-bit little-endian strings, seed is a 64-bit string, seed+1 is the
    little-endian increment modulo 2^64, the 512-bit concatenation is read little-endian.
    """
    no = ps["l"] // 4
    pa = int2le(ps["p"], no) + int2le(ps["a"], no)
    s0 = bytes(ps["seed"])
    s1 = int2le((le2int(s0) + 1) % 2 ** 64, 8)
    B = belt_hash(pa + s0) + belt_hash(pa + s1)
    return le2int(B) % ps["p"]


def validate_params(ps, belt_hash=None, mov=50):
    """Independent re-validation of a bign parameter set (STB 34.101.45 alg. 6.1.4).

    Returns the list of violated conditions (empty list == valid).
    """
    bad = []
    l, p, a, b, q, yG = ps["l"], ps["p"], ps["a"], ps["b"], ps["q"], ps["yG"]
    if l is not None:
        if not (2 ** (2 * l - 1) < p < 2 ** (2 * l)):
            bad.append("p is not a 2l-bit number")
        if not (2 ** (2 * l - 1) < q < 2 ** (2 * l)):
            bad.append("q is not a 2l-bit number")
    if not is_prime(p):
        bad.append("p not prime")
    if not is_prime(q):
        bad.append("q not prime")
    if p % 4 != 3:
        bad.append("p != 3 mod 4")
    if p == q:
        bad.append("p == q (anomalous)")
    if not (0 < a < p and 0 < b < p):
        bad.append("a, b not in (0, p)")
    E = Curve(p, a, b)
    if not E.is_nonsingular():
        bad.append("singular curve")
    pm = 1
    for m in range(1, mov + 1):
        pm = pm * p % q
        if pm == 1:
            bad.append("MOV: p^%d = 1 mod q" % m)
            break
    if legendre(b, p) != 1:
        bad.append("b is not a quadratic residue")
    G = (ps.get("xG", 0), yG)
    if not E.is_on(G):
        bad.append("G not on curve")
    if l is not None:
        if G[0] != 0 or yG != pow(b, (p + 1) // 4, p):
            bad.append("G != (0, b^((p+1)/4))")
    if not E.has_order(G, q):
        bad.append("q G != O")
    # Hasse bound: |q - (p+1)| <= 2 sqrt(p)
    if (q - p - 1) ** 2 > 4 * p:
        bad.append("Hasse bound violated")
    if belt_hash is not None and l is not None:
        if seed_b(ps, belt_hash) != b:
            bad.append("b does not match seed")
    return bad


# --------------------------------------------------------------------------
# import-time sanity (cheap) and selftest
# --------------------------------------------------------------------------

def _import_check():
    for name, ps in list(STD.items()) + [("ecp-test", ECP_TEST)]:
        bad = validate_params(ps)
        if bad:
            raise AssertionError("parameter set %s invalid: %s" % (name, bad))


_import_check()


def _h2i(s):
    return int(s, 16)


def _pt(v):
    return None if v is None else (_h2i(v[0]), _h2i(v[1]))


def selftest(path=None, verbose=False):
    """Check the model against vectors/ecp.json ONLY.  Returns number of vectors checked."""
    if path is None:
        path = os.path.join(os.path.dirname(os.path.abspath(__file__)), "vectors", "ecp.json")
    with open(path) as f:
        doc = json.load(f)
    n = 0
    for v in doc["vectors"]:
        kind = v["kind"]
        if kind == "params":
            # octet strings of the C tables (little-endian) against the Python ints
            ps = STD[v["name"]]
            for fld in ("p", "a", "b", "q", "yG"):
                assert le2int(bytes.fromhex(v[fld + "_le"])) == ps[fld], (v["name"], fld)
            assert bytes.fromhex(v["seed"]) == ps["seed"], v["name"]
            assert v["l"] == ps["l"] and v["oid"] == ps["oid"]
            assert validate_params(ps) == []
        elif kind == "curve_group":
            # structural facts asserted by ecp_test.c: curve valid, base on curve, order q,
            # safe group (MOV threshold given), 3G computed four ways
            p, a, b, q = _h2i(v["p"]), _h2i(v["a"]), _h2i(v["b"]), _h2i(v["q"])
            E = Curve(p, a, b)
            G = _pt(v["G"])
            assert is_prime(p) and E.is_nonsingular()
            assert E.is_on(G)
            if v.get("check_group", True):
                assert (q - p - 1) ** 2 <= 4 * p
                assert is_prime(q) and q != p
                pm = 1
                for _ in range(v["mov"]):
                    pm = pm * p % q
                    assert pm != 1
                assert E.has_order(G, q)
            t1 = E.add(E.add(G, G), G)
            t2 = E.sub(E.add(E.add(G, G), E.add(G, G)), G)
            assert t1 == t2 and t1 is not None
            assert E.add(t1, E.neg(t2)) is None
            assert E.mul(3, G) == t1
            assert E.add(E.dbl(G), G) == t1
            if "3G" in v:
                assert t1 == _pt(v["3G"])
        elif kind == "swu":
            ps = STD[v["params"]]
            E = curve_of(ps)
            W = swu(E, _h2i(v["s"]))
            assert W == _pt(v["W"]), v
            assert E.is_on(W)
        elif kind == "mul":
            ps = STD[v["params"]]
            E = curve_of(ps)
            P = _pt(v["P"]) if "P" in v else base_of(ps)
            assert E.mul(_h2i(v["k"]), P) == _pt(v["R"]), v
        elif kind == "small_curve":
            E = Curve(v["p"], v["a"], v["b"])
            pts = E.points()
            assert len(pts) + 1 == v["order"], v
            for P in pts:
                assert E.is_on(P)
        else:
            raise AssertionError("unknown vector kind " + kind)
        n += 1
        if verbose:
            print("ok", kind, v.get("name", ""))
    return n


def _internal_checks():
    """Model-internal consistency (group laws on brute-forced small curves, SWU on-curve)."""
    import random
    rnd = random.Random(1)
    for p in (7, 11, 19, 23, 43, 67, 103, 131, 251):
        for _ in range(6):
            a, b = rnd.randrange(p), rnd.randrange(p)
            E = Curve(p, a, b)
            if not E.is_nonsingular():
                continue
            pts = [None] + E.points()
            N = len(pts)
            assert (N - p - 1) ** 2 <= 4 * p
            S = set(pts)
            for _ in range(60):
                P, Q, R = rnd.choice(pts), rnd.choice(pts), rnd.choice(pts)
                assert E.add(P, Q) in S
                assert E.add(P, Q) == E.add(Q, P)
                assert E.add(E.add(P, Q), R) == E.add(P, E.add(Q, R))
                assert E.add(P, E.neg(P)) is None
                assert E.sub(E.add(P, Q), Q) == P
                assert E.mul(N, P) is None
                k = rnd.randrange(3 * N)
                assert E.mul(k, P) == E.mul(k % N, P)
                if P is not None:
                    assert N % E.point_order(P) == 0
            if p & 3 == 3 and a and b:
                for s in range(p):
                    W = swu(E, s)
                    if legendre(b, p) == 1 or s not in (0, 1, p - 1):
                        assert E.is_on(W) and W is not None, (p, a, b, s, W)
    for name, ps in STD.items():
        E = curve_of(ps)
        G = base_of(ps)
        for _ in range(8):
            s = rnd.randrange(ps["p"])
            assert E.is_on(swu(E, s))
        assert swu(E, 0) == G and swu(E, ps["p"] - 1) == G
        k1, k2 = rnd.randrange(ps["q"]), rnd.randrange(ps["q"])
        assert E.add(E.mul(k1, G), E.mul(k2, G)) == E.mul((k1 + k2) % ps["q"], G)
        assert E.mul(ps["q"] - 1, G) == E.neg(G)
        assert E.mul(ps["q"] + 1, G) == G
    return True


if __name__ == "__main__":
    if "--selftest" in sys.argv:
        _internal_checks()
        n = selftest(verbose="-v" in sys.argv)
        print("OK %d vectors" % n)
        sys.exit(0)
    print(__doc__)
