#!/usr/bin/env python3
"""Specification-level reference model for bee2 math/pri.h (primes).

Pure stdlib, Python ints, textbook formulas. NOT a transliteration of pri.c.

API
---
small_primes(limit)            -> list of all primes < limit (Eratosthenes)
factor_base(count)             -> first `count` ODD primes (3, 5, 7, ...), pri.h "факторная база"
BASE_SIZE                      -> 1024 (size of the library's factor base)
is_prime(n)                    -> bool; deterministic for n < 3317044064679887385961981 (~3.3e24),
                                  above: 13 fixed MR bases + strong Lucas (BPSW) + 40 derived MR bases
is_strong_probable_prime(n, a) -> one Miller-Rabin round to base a
strong_pseudoprimes(bases, limit) -> odd composites < limit passing MR for ALL given bases
carmichael(limit)              -> generator of Carmichael numbers < limit (Korselt criterion)
is_sieved(a, base_count)       -> pri.h priIsSieved contract
is_smooth(a, base_count)       -> pri.h priIsSmooth contract
is_sg_prime(q)                 -> 2q+1 prime (q odd prime expected)
next_prime(a, trials=None)     -> pri.h priNextPrime/priNextPrimeW contract: least odd prime in
                                  [a, 2^l), l = bitlen(a), examining at most `trials` first odd
                                  candidates (None = all); None if there is none
next_prime_ge(a, bitlen)       -> least odd prime p >= a with p < 2^bitlen, else None
demytko_ok(p, q, a=1)          -> Demytko sufficient primality condition for p = 2qar+1
extend_prime(q, l, tape, trials=None, base_count=0, a=1) -> priExtendPrime/priExtendPrime2 contract
StbGen(zi)                     -> STB 1176.2 (7.2.2) generator, .read(n)
chain_primes(chain, gen, top_trials=None) -> generator of prime chains q_0..q_t of STB 1176.2 / pfok parameter generation
"""
import hashlib
import json
import os
import sys

BASE_SIZE = 1024

# --------------------------------------------------------------------------
# sieve / factor base
# --------------------------------------------------------------------------


def small_primes(limit):
    """All primes p < limit."""
    if limit <= 2:
        return []
    s = bytearray([1]) * limit
    s[0] = s[1] = 0
    i = 2
    while i * i < limit:
        if s[i]:
            s[i * i::i] = bytearray(len(range(i * i, limit, i)))
        i += 1
    return [i for i in range(limit) if s[i]]


_FB = None


def factor_base(count=BASE_SIZE):
    """First `count` odd primes: 3, 5, 7, 11, ..."""
    global _FB
    if _FB is None or len(_FB) < count:
        lim = 10000
        while True:
            ps = small_primes(lim)[1:]
            if len(ps) >= max(count, BASE_SIZE):
                break
            lim *= 2
        _FB = ps
    return _FB[:count]


# --------------------------------------------------------------------------
# primality
# --------------------------------------------------------------------------

_MR_PRIMES = (2, 3, 5, 7, 11, 13, 17, 19, 23, 29, 31, 37, 41)
# Sorenson & Webster 2015: the first 13 primes as MR bases are deterministic below:
DETERMINISTIC_BOUND = 3317044064679887385961981


def is_strong_probable_prime(n, a):
    """Miller-Rabin round: n odd > 2. True iff n is a strong probable prime to base a."""
    if n < 3 or n % 2 == 0:
        raise ValueError("n must be odd >= 3")
    a %= n
    if a == 0:
        return True
    d, s = n - 1, 0
    while d % 2 == 0:
        d //= 2
        s += 1
    x = pow(a, d, n)
    if x == 1 or x == n - 1:
        return True
    for _ in range(s - 1):
        x = x * x % n
        if x == n - 1:
            return True
        if x == 1:
            return False
    return False


def _jacobi(a, n):
    a %= n
    r = 1
    while a:
        while a % 2 == 0:
            a //= 2
            if n % 8 in (3, 5):
                r = -r
        a, n = n, a
        if a % 4 == 3 and n % 4 == 3:
            r = -r
        a %= n
    return r if n == 1 else 0


def _isqrt(n):
    import math
    return math.isqrt(n)


def _strong_lucas(n):
    """Strong Lucas probable prime test with Selfridge parameters (BPSW part 2)."""
    r = _isqrt(n)
    if r * r == n:
        return False
    D = 5
    while True:
        j = _jacobi(D, n)
        if j == -1:
            break
        if j == 0 and abs(D) % n != 0:
            return False
        D = -D - 2 if D > 0 else -D + 2
    P, Q = 1, (1 - D) // 4
    d, s = n + 1, 0
    while d % 2 == 0:
        d //= 2
        s += 1
    # compute U_d, V_d, Q^d by binary ladder
    U, V, Qk = 1, P, Q % n
    inv2 = (n + 1) // 2
    for bit in bin(d)[3:]:
        U, V = U * V % n, (V * V - 2 * Qk) % n
        Qk = Qk * Qk % n
        if bit == '1':
            U, V = (P * U + V) * inv2 % n, (D * U + P * V) * inv2 % n
            Qk = Qk * Q % n
    if U == 0 or V == 0:
        return True
    for _ in range(s - 1):
        V = (V * V - 2 * Qk) % n
        Qk = Qk * Qk % n
        if V == 0:
            return True
    return False


_SMALL = None
_PRIME_CACHE = {}


def is_prime(n):
    """See module docstring. Results for n >= 2^64 are memoised (pure function)."""
    if n >= 1 << 64:
        r = _PRIME_CACHE.get(n)
        if r is None:
            r = _is_prime(n)
            if len(_PRIME_CACHE) < 50000:
                _PRIME_CACHE[n] = r
        return r
    return _is_prime(n)


def _is_prime(n):
    global _SMALL
    if n < 2:
        return False
    if _SMALL is None:
        _SMALL = small_primes(2000)
    for p in _SMALL:
        if n == p:
            return True
        if n % p == 0:
            return False
    if n < 2000 * 2000:
        return True
    for a in _MR_PRIMES:
        if not is_strong_probable_prime(n, a):
            return False
    if n < DETERMINISTIC_BOUND:
        return True
    if not _strong_lucas(n):
        return False
    # extra derived bases (deterministic function of n)
    seed = n.to_bytes((n.bit_length() + 7) // 8, 'big')
    for i in range(40):
        h = hashlib.sha256(seed + i.to_bytes(4, 'big')).digest()
        h += hashlib.sha256(h).digest()
        a = 2 + int.from_bytes(h, 'big') % (n - 3)
        if not is_strong_probable_prime(n, a):
            return False
    return True


def is_prime_trial(n):
    """Brute force (for cross-validation of is_prime on small inputs)."""
    if n < 2:
        return False
    if n < 4:
        return True
    if n % 2 == 0:
        return False
    i = 3
    while i * i <= n:
        if n % i == 0:
            return False
        i += 2
    return True


def strong_pseudoprimes(bases, limit, start=9):
    """Odd composites n in [start, limit) that are strong probable primes to every base."""
    if isinstance(bases, int):
        bases = (bases,)
    out = []
    n = start | 1
    while n < limit:
        if all(is_strong_probable_prime(n, a) for a in bases) and not is_prime(n):
            out.append(n)
        n += 2
    return out


def _factor_small(n, primes):
    f = {}
    for p in primes:
        if p * p > n:
            break
        while n % p == 0:
            f[p] = f.get(p, 0) + 1
            n //= p
    if n > 1:
        f[n] = f.get(n, 0) + 1
    return f


def carmichael(limit):
    """Generator: Carmichael numbers < limit (Korselt: composite, squarefree, p-1 | n-1)."""
    primes = small_primes(_isqrt(limit) + 2)
    n = 3
    while n < limit:
        f = _factor_small(n, primes)
        if len(f) >= 3 and all(e == 1 for e in f.values()) and \
                all((n - 1) % (p - 1) == 0 for p in f):
            yield n
        n += 2


# --------------------------------------------------------------------------
# factor-base predicates (pri.h contracts)
# --------------------------------------------------------------------------

def is_sieved(a, base_count):
    """pri.h: a is odd and not divisible by the first base_count factor-base primes.
    a equal to an element of (the used part of) the base is NOT sieved. a = 1 is sieved."""
    if a < 0 or not (0 <= base_count <= BASE_SIZE):
        raise ValueError
    if a % 2 == 0:
        return False
    return all(a % p for p in factor_base(base_count))


def is_smooth(a, base_count):
    """pri.h: a is divisible only by 2 and the first base_count factor-base primes.
    a = 1 is smooth. a = 0 is outside the domain (natural numbers): returns False here."""
    if a < 0 or not (0 <= base_count <= BASE_SIZE):
        raise ValueError
    if a == 0:
        return False
    while a % 2 == 0:
        a //= 2
    for p in factor_base(base_count):
        while a % p == 0:
            a //= p
    return a == 1


def is_sg_prime(q):
    """q odd > 1 (expected prime): is 2q+1 prime?"""
    return is_prime(2 * q + 1)


# --------------------------------------------------------------------------
# next prime
# --------------------------------------------------------------------------

def next_prime_ge(a, bitlen):
    """Least ODD prime p with a <= p < 2^bitlen; None if none."""
    p = max(a, 3) | 1
    while p < (1 << bitlen):
        if is_prime(p):
            return p
        p += 2
    return None


def next_prime(a, trials=None):
    """priNextPrime / priNextPrimeW documented contract.

    Least odd prime p in [a, 2^l), l = bit length of a. Only the first `trials`
    candidates (odd numbers a|1, a|1+2, ...) are examined (None = all).
    Returns p or None."""
    l = a.bit_length()
    if l <= 1:
        return None
    p = a | 1
    t = 0
    while p < (1 << l):
        if trials is not None and t >= trials:
            return None
        if is_prime(p):
            return p
        p += 2
        t += 1
    return None


def demytko_ok(p, q, a=1):
    """Demytko theorem as quoted in pri.c: q odd prime, p = 2 q a r + 1 with 2 a r < 4 q + 1,
    2^(p-1) = 1 (mod p) and 2^((p-1)/q) != 1 (mod p)  =>  p is prime (sufficient condition)."""
    if (p - 1) % (2 * q * a):
        return False
    r2 = (p - 1) // q
    if not r2 < 4 * q + 1:
        return False
    return pow(2, p - 1, p) == 1 and pow(2, r2, p) != 1


def extend_prime(q, l, tape, trials=None, base_count=0, a=1):
    """priExtendPrime / priExtendPrime2 contract (pri.h + construction notes in pri.c).

    Builds an l-bit prime p = 2 q a r + 1:  t <- O_OF_B(l) octets of the generator (little-endian),
    reduced to the range [2^(l-2), 2^(l-1)) by keeping l-2 low bits and setting bit l-2;
    r <- ceil(t / (q a)); p <- 2 q a r + 1; if bitlen(p) != l draw a new t. A candidate is accepted
    when it has no divisor among the first base_count factor-base primes and passes Demytko's test;
    otherwise r <- r + 1 (p <- p + 2 q a) until the bit length exceeds l, then a new t is drawn.
    At most `trials` candidates are examined (None = unbounded). Returns p or None.
    `tape` must provide read(n)."""
    qa = q * a
    fb = factor_base(base_count)
    if l < 64:
        fb = [x for x in fb if x <= 1 << (l - 1)]
    left = trials
    while True:
        if left is not None:
            if left == 0:
                return None
            left -= 1
        t = int.from_bytes(tape.read((l + 7) // 8), 'little')
        t = (t & ((1 << (l - 2)) - 1)) | (1 << (l - 2))
        r = -(-t // qa)
        if (qa * r).bit_length() > l - 1:
            continue
        p = 2 * qa * r + 1
        assert p.bit_length() == l
        while True:
            if all(p % x for x in fb) and pow(4, r * a, p) != 1 and pow(4, r * a * q, p) == 1:
                return p
            p += 2 * qa
            r += 1
            if p.bit_length() > l:
                break
            if left is not None:
                if left == 0:
                    return None
                left -= 1


class StbGen:
    """Generator of STB 1176.2-99 (7.2.2) as described in bee2 prng.h/prng.c: 31 numbers z_i in
    {1..65256}; v <- v + z_i; w <- z_{i+20} + RotHi(w, 1) (16 bit); u <- v xor w;
    z_i <- (z_i - z_{i+10}) mod 65257; 256 idle clocks after start; octet = (u_new + u_old // 255) mod 256."""

    def __init__(self, zi=None):
        self.z = list(zi) if zi is not None else list(range(1, 32))
        assert len(self.z) == 31 and all(0 < x < 65257 for x in self.z)
        self.i = self.v = self.w = self.u = 0
        for _ in range(256):
            self._clock()

    def _clock(self):
        i, z = self.i, self.z
        j = (i + 10) % 31
        self.v = (self.v + z[i]) & 0xFFFF
        self.w = ((self.w >> 1) | (self.w << 15)) & 0xFFFF
        self.w = (self.w + z[(i + 20) % 31]) & 0xFFFF
        self.u = self.v ^ self.w
        z[i] = (z[i] - z[j]) % 65257
        self.i = (i + 1) % 31

    def read(self, n):
        out = bytearray()
        for _ in range(n):
            u = self.u
            self._clock()
            out.append((self.u + u // 255) & 0xFF)
        return bytes(out)


def chain_primes(chain, gen, top_trials=None):
    """Prime chain of STB 1176.2 (alg. 7.2 / draft pfok 5.2) as used by bee2: chain = [l_0 > l_1 > ... > l_t],
    17 <= l_t <= 32. The smallest prime: l_t-bit number from the generator (top bit forced) -> next prime of
    the same bit length (redraw if none). Each next prime q_i = extend_prime(q_{i+1}, l_i) with
    trials 4 l_i (top_trials for i = 0 if given), base_count = min((l_i + 3) // 4, 1024); on failure go one
    level back. This is a Python generator: it yields [q_0, ..., q_t] every time a top prime q_0 is built;
    when resumed (caller rejected q_0) it builds another q_0 from the same q_1."""
    t = len(chain) - 1
    qs = [None] * (t + 1)
    i = t
    while True:
        li = chain[i]
        if li <= 32:
            while True:
                a = int.from_bytes(gen.read((li + 7) // 8), 'little')
                a = (a & ((1 << (li - 1)) - 1)) | (1 << (li - 1))
                p = next_prime(a)
                if p is not None:
                    break
            qs[i] = p
        else:
            trials = top_trials if (i == 0 and top_trials is not None) else 4 * li
            p = extend_prime(qs[i + 1], li, gen, trials, min((li + 3) // 4, BASE_SIZE))
            if p is None:
                i += 1
                continue
            qs[i] = p
        if i == 0:
            yield list(qs)
        else:
            i -= 1


# --------------------------------------------------------------------------
# selftest against JSON only
# --------------------------------------------------------------------------

def _ev(s):
    """Evaluate tiny arithmetic expression strings like '2**256-357' (JSON vectors)."""
    return int(eval(s, {"__builtins__": {}}, {}))


def selftest(path=None):
    path = path or os.path.join(os.path.dirname(os.path.abspath(__file__)), 'vectors', 'pri.json')
    with open(path) as f:
        V = json.load(f)
    n = 0
    fb = factor_base(BASE_SIZE)
    assert len(fb) == V['base_size'] == 1024
    assert fb[:len(V['base_head'])] == V['base_head'] and fb[-1] == V['base_last']
    n += 1
    for t in V['is_prime']:
        assert is_prime(_ev(t['n'])) == t['prime'], t
        n += 1
    for t in V['next_prime']:
        r = next_prime(_ev(t['a']), t.get('trials'))
        exp = None if t['p'] is None else _ev(t['p'])
        assert r == exp, (t, r)
        n += 1
    for t in V['sieved_smooth']:
        a = _ev(t['a']) if 'a' in t else None
        if a is None:
            # product of squares of first k base primes (+ add)
            a = 1
            for p in fb[:t['sq_count']]:
                a *= p * p
            a += t.get('add', 0)
        bc = t['base_count']
        if 'sieved' in t:
            assert is_sieved(a, bc) == t['sieved'], t
        if 'smooth' in t:
            assert is_smooth(a, bc) == t['smooth'], t
        n += 1
    for t in V['sg_prime']:
        assert is_sg_prime(_ev(t['q'])) == t['sg'], t
        n += 1
    for t in V['carmichael']:
        assert list(carmichael(t['limit'])) == t['list'], t
        n += 1
    for t in V['strong_pseudoprimes']:
        assert strong_pseudoprimes(t['bases'], t['limit']) == t['list'], t
        n += 1
    for t in V['deterministic_bounds']:
        # least composite passing all listed bases
        m = _ev(t['psi'])
        assert not is_prime(m)
        assert all(is_strong_probable_prime(m, a) for a in t['bases']), t
        n += 1
    # internal consistency: MR/BPSW vs trial division
    for x in range(0, 20000):
        assert is_prime(x) == is_prime_trial(x), x
    for x in range(4000000 - 3001, 4000000 + 3001, 2):
        assert is_prime(x) == is_prime_trial(x), x
    n += 2
    print('OK %d vectors' % n)
    return 0


if __name__ == '__main__':
    if '--selftest' in sys.argv:
        sys.exit(selftest())
    print(__doc__)
