#!/usr/bin/env python3
"""Specification-level reference model of DSTU 4145-2002 (polynomial basis) as exposed by bee2 dstu.h.

Curve over GF(2^m) = GF(2)[x]/(x^m + x^k1 + x^k2 + x^k3 + 1):   y^2 + x y = x^3 + A x^2 + B,  A in {0,1}.
Field elements are ints (bit i = coeff of x^i); octet strings are little-endian, no = ceil(m/8) octets.

Octet layouts (dstu.h):
  params.B            no octets;  params.n  up to no octets (little-endian integer); params.P  x (no) || y (no)
  privkey             order_no octets little-endian, order_no = octet length of n
  pubkey / point      x (no octets) || y (no octets)
  xpoint              no octets: x with bit 0 replaced by Tr(y / x)   (section 6.9); x = 0 -> all zero
  hash -> field (5.9) hash_len < no: zero-extended; else first no octets, truncated to m bits; 0 -> 1
  sig (5.10)          ld bits, ld % 16 == 0, ld/16 >= order_no: r little-endian in ld/16 octets || s likewise
  random d, e (6.3)   order_no octets from the generator, little-endian, truncated to L(n)-1 bits, retry on 0
  random x (6.4/6.8)  no octets from the generator, truncated to m bits

API
---
STD_NAMES, params_std(name) -> dict(p=(m,k1,k2,k3), A, B, n, c, P=(x,y)|None)
field_poly(P), params_val(P, check_point=True), point_val(P, pt), point_on_curve
point_gen(P, tape) -> (x, y)       section 6.8: first candidate x with a solvable curve equation whose
                                    point (x, y = x * HalfTrace((x^3+Ax^2+B)/x^2)) has order n
compress(P, pt) -> int; recover(P, xc) -> (x, y)
pubkey_calc(P, d) -> Q = -dP ; keypair_tape(P, tape) -> (privkey_octets, pubkey_octets)
sign(P, ld, hash, d, e) -> sig octets | None (retry with a new e) ; sign_tape(P, ld, hash, privkey, tape)
verify(P, ld, hash, sig, pubkey, check_pubkey=True) -> bool
"""
import json
import os
import sys

sys.path.insert(0, os.path.dirname(os.path.abspath(__file__)))
import polys  # noqa: E402
import pri  # noqa: E402

O = None
STD_NAMES = ["1.2.804.2.1.1.1.1.3.1.1.1.2.%d" % i for i in range(10)]
_V = None


def _vectors():
    global _V
    if _V is None:
        with open(os.path.join(os.path.dirname(os.path.abspath(__file__)), 'vectors', 'dstu.json')) as f:
            _V = json.load(f)
    return _V


def params_std(name):
    t = _vectors()['params'].get(name)
    if t is None:
        raise KeyError(name)
    return {'p': tuple(t['p']), 'A': t['A'], 'B': int(t['B'], 16), 'n': int(t['n'], 16), 'c': t['c'],
            'P': (int(t['P'][0], 16), int(t['P'][1], 16)) if t.get('P') else None}


# ---------------------------------------------------------------- field
def field_poly(P):
    m, k1, k2, k3 = P['p']
    f = (1 << m) | 1
    for k in (k1, k2, k3):
        if k:
            f ^= 1 << k
    return f


def field_ok(P):
    m, k1, k2, k3 = P['p']
    if not (m > k1 > 0):
        return False
    if k2 == 0:
        if k3 != 0:
            return False
    elif not (k1 > k2 > k3 > 0):
        return False
    return polys.is_irreducible(field_poly(P))


class F:
    def __init__(self, P):
        self.m = P['p'][0]
        self.f = field_poly(P)

    def red(self, a):
        """a mod f for the sparse modulus f = x^m + (low terms): fold the part above x^m down."""
        m, low = self.m, self.f ^ (1 << self.m)
        while a >> m:
            hi = a >> m
            a &= (1 << m) - 1
            t = low
            while t:
                b = t & -t
                a ^= hi << (b.bit_length() - 1)
                t ^= b
        return a

    def mul(self, a, b):
        return self.red(polys.mul(a, b))

    def sqr(self, a):
        return self.red(polys.mul(a, a))

    def inv(self, a):
        r = polys.invmod(a, self.f)
        if r is None:
            raise ZeroDivisionError
        return r

    def div(self, a, b):
        return self.mul(a, self.inv(b))

    def sqrt(self, a):
        for _ in range(self.m - 1):
            a = self.sqr(a)
        return a

    def tr(self, a):
        t = a
        for _ in range(self.m - 1):
            t = self.sqr(t) ^ a
        assert t in (0, 1)
        return t

    def htr(self, a):
        assert self.m % 2 == 1
        t = a
        for _ in range((self.m - 1) // 2):
            t = self.sqr(self.sqr(t)) ^ a
        return t

    def qsolve(self, u, w):
        """a root z of z^2 + u z = w or None (section 6.6/6.7; m odd: via half-trace)."""
        if u == 0:
            return self.sqrt(w)
        if w == 0:
            return 0
        v = self.div(w, self.sqr(u))
        if self.tr(v) == 1:
            return None
        z = self.htr(v)
        assert self.sqr(z) ^ z == v
        return self.mul(z, u)


# ---------------------------------------------------------------- curve
def point_on_curve(P, pt):
    if pt is O:
        return True
    fl = F(P)
    x, y = pt
    if x >> fl.m or y >> fl.m or x < 0 or y < 0:
        return False
    x2 = fl.sqr(x)
    return fl.sqr(y) ^ fl.mul(x, y) == fl.mul(x2, x) ^ (x2 if P['A'] else 0) ^ P['B']


def ec_neg(pt):
    return O if pt is O else (pt[0], pt[0] ^ pt[1])


def ec_add(P, p1, p2, fl=None):
    fl = fl or F(P)
    if p1 is O:
        return p2
    if p2 is O:
        return p1
    x1, y1 = p1
    x2, y2 = p2
    if x1 == x2:
        if y1 ^ y2 == x1:  # p2 = -p1 (includes x = 0: self-inverse)
            return O
        if y1 != y2:
            raise ValueError('points with equal x are neither equal nor opposite: not on one curve')
        lam = x1 ^ fl.div(y1, x1)
        x3 = fl.sqr(lam) ^ lam ^ P['A']
        y3 = fl.sqr(x1) ^ fl.mul(lam ^ 1, x3)
        return x3, y3
    lam = fl.div(y1 ^ y2, x1 ^ x2)
    x3 = fl.sqr(lam) ^ lam ^ x1 ^ x2 ^ P['A']
    y3 = fl.mul(lam, x1 ^ x3) ^ x3 ^ y1
    return x3, y3


def ec_mul(P, k, pt):
    fl = F(P)
    R = O
    while k > 0:
        if k & 1:
            R = ec_add(P, R, pt, fl)
        pt = ec_add(P, pt, pt, fl)
        k >>= 1
    return R


def params_val(P, check_point=True):
    m = P['p'][0]
    if not (160 <= m <= 509) or P['A'] not in (0, 1):
        return False
    if not field_ok(P):
        return False
    B, n, c = P['B'], P['n'], P['c']
    if B == 0 or B >> m:
        return False
    if not (n >= (1 << 160) and pri.is_prime(n)):
        return False
    if c < 1:
        return False
    # Hasse: |n c - (2^m + 1)| <= 2 sqrt(2^m)
    if (n * c - (1 << m) - 1) ** 2 > 4 << m:
        return False
    if n == 1 << m:
        return False
    # MOV threshold 32
    if any(pow(2, m * k, n) == 1 for k in range(1, 33)):
        return False
    if check_point:
        if P.get('P') is None or not point_val(P, P['P']):
            return False
    return True


def point_val(P, pt):
    """Section 10.1: coordinates in the field, on the curve, order n."""
    if pt is O or not point_on_curve(P, pt):
        return False
    return ec_mul(P, P['n'], pt) is O


def _sizes(P):
    m = P['p'][0]
    return (m + 7) // 8, (P['n'].bit_length() + 7) // 8, P['n'].bit_length()


class _Tape:
    def __init__(self, data):
        self.data, self.pos = bytes(data), 0

    def read(self, n):
        if self.pos + n > len(self.data):
            raise EOFError
        self.pos += n
        return self.data[self.pos - n:self.pos]


def _tape(t):
    return t if hasattr(t, 'read') else _Tape(t)


def point_gen(P, tape, max_tries=100000):
    fl = F(P)
    no, _, _ = _sizes(P)
    tape = _tape(tape)
    for _ in range(max_tries):
        x = int.from_bytes(tape.read(no), 'little') & ((1 << fl.m) - 1)
        x2 = fl.sqr(x)
        t = fl.mul(x2, x) ^ (x2 if P['A'] else 0) ^ P['B']
        y = fl.qsolve(x, t)
        if y is None:
            continue
        if point_val(P, (x, y)):
            return x, y
    return None


def encode_point(P, pt):
    no, _, _ = _sizes(P)
    return pt[0].to_bytes(no, 'little') + pt[1].to_bytes(no, 'little')


def decode_point(P, b):
    no, _, _ = _sizes(P)
    b = bytes(b)
    if len(b) != 2 * no:
        raise ValueError('BAD_INPUT')
    return int.from_bytes(b[:no], 'little'), int.from_bytes(b[no:], 'little')


def compress(P, pt):
    fl = F(P)
    x, y = pt
    if x >> fl.m or y >> fl.m:
        raise ValueError('BAD_POINT')
    if x == 0:
        return 0
    return (x & ~1) | fl.tr(fl.div(y, x))


def recover(P, xc):
    fl = F(P)
    if xc >> fl.m:
        raise ValueError('BAD_POINT')
    if xc == 0:
        return 0, fl.sqrt(P['B'])
    trace = xc & 1
    x = xc & ~1
    if fl.tr(x) != P['A']:
        x |= 1
    w = x ^ P['A'] ^ fl.div(P['B'], fl.sqr(x))
    z = fl.qsolve(1, w)
    if z is None:
        raise ValueError('BAD_POINT')  # no point with this x
    if fl.tr(z) != trace:
        z ^= 1
    return x, fl.mul(z, x)


# ---------------------------------------------------------------- keys, signature
def rand_scalar(P, tape):
    _, order_no, order_nb = _sizes(P)
    while True:
        d = int.from_bytes(tape.read(order_no), 'little') & ((1 << (order_nb - 1)) - 1)
        if d:
            return d


def pubkey_calc(P, d):
    if not 0 < d < P['n']:
        raise ValueError('BAD_PRIVKEY')
    return ec_neg(ec_mul(P, d, P['P']))


def keypair_tape(P, tape):
    _, order_no, _ = _sizes(P)
    d = rand_scalar(P, _tape(tape))
    return d.to_bytes(order_no, 'little'), encode_point(P, pubkey_calc(P, d))


def hash_to_field(P, h):
    no, _, _ = _sizes(P)
    m = P['p'][0]
    h = bytes(h)
    v = int.from_bytes(h[:no], 'little') & ((1 << m) - 1)
    return v if v else 1


def _ld_ok(P, ld):
    _, order_no, _ = _sizes(P)
    return ld % 16 == 0 and ld // 16 >= order_no


def sign(P, ld, h, d, e):
    fl = F(P)
    n = P['n']
    _, order_no, order_nb = _sizes(P)
    if not _ld_ok(P, ld):
        raise ValueError('BAD_INPUT')
    if not 0 < d < n:
        raise ValueError('BAD_PRIVKEY')
    if not 0 < e < n:
        raise ValueError('bad e')
    hv = hash_to_field(P, h)
    R = ec_mul(P, e, P['P'])
    if R is O or R[0] == 0:
        return None
    y = fl.mul(hv, R[0])
    r = y & ((1 << (order_nb - 1)) - 1)
    if r == 0:
        return None
    s = (e + d * r) % n
    if s == 0:
        return None
    half = ld // 16
    return r.to_bytes(half, 'little') + s.to_bytes(half, 'little')


def sign_tape(P, ld, h, privkey, tape):
    _, order_no, _ = _sizes(P)
    tape = _tape(tape)
    if len(privkey) != order_no or not _ld_ok(P, ld):
        raise ValueError('BAD_INPUT')
    d = int.from_bytes(privkey, 'little')
    if not 0 < d < P['n']:
        raise ValueError('BAD_PRIVKEY')
    while True:
        sig = sign(P, ld, h, d, rand_scalar(P, tape))
        if sig is not None:
            return sig


def verify(P, ld, h, sig, pubkey, check_pubkey=True):
    fl = F(P)
    n = P['n']
    _, order_no, order_nb = _sizes(P)
    if not _ld_ok(P, ld):
        raise ValueError('BAD_INPUT')
    sig = bytes(sig)
    if len(sig) != ld // 8:
        raise ValueError('BAD_INPUT')
    Q = pubkey if isinstance(pubkey, tuple) else decode_point(P, pubkey)
    if Q[0] >> fl.m or Q[1] >> fl.m:
        return False
    if check_pubkey and not point_on_curve(P, Q):
        return False
    half = ld // 16
    r = int.from_bytes(sig[:half], 'little')
    s = int.from_bytes(sig[half:], 'little')
    if not (0 < r < n and 0 < s < n):
        return False
    hv = hash_to_field(P, h)
    try:
        R = ec_add(P, ec_mul(P, s, P['P']), ec_mul(P, r, Q), fl)
    except (ValueError, ZeroDivisionError):
        return False
    if R is O:
        return False
    y = fl.mul(hv, R[0])
    return y & ((1 << (order_nb - 1)) - 1) == r


# ---------------------------------------------------------------- selftest
def selftest(path=None):
    global _V
    if path:
        with open(path) as f:
            _V = json.load(f)
    V = _vectors()
    n = 0
    assert sorted(V['params']) == sorted(STD_NAMES)
    for name in STD_NAMES:
        P = params_std(name)
        assert params_val(P, check_point=P['P'] is not None), name
        assert P['c'] == (2 if P['A'] else 4)
        n += 1
    for t in V['keypair']:
        P = params_std(t['params'])
        priv, pub = keypair_tape(P, bytes.fromhex(t['tape']))
        assert priv.hex() == t['privkey'] and pub.hex() == t['pubkey'], (priv.hex(), pub.hex())
        Q = decode_point(P, pub)
        assert point_val(P, Q)
        assert recover(P, compress(P, Q)) == Q
        n += 1
    for t in V['sign']:
        P = params_std(t['params'])
        h, priv, pub = bytes.fromhex(t['hash']), bytes.fromhex(t['privkey']), bytes.fromhex(t['pubkey'])
        sig = sign_tape(P, t['ld'], h, priv, bytes.fromhex(t['tape']))
        assert sig.hex() == t['sig'], sig.hex()
        assert verify(P, t['ld'], h, sig, pub)
        assert not verify(P, t['ld'], h, bytes([sig[0] ^ 1]) + sig[1:], pub)
        n += 2
    for t in V['params_invalid']:
        P = params_std(t['params'])
        v = t['value']
        if t['field'] == 'P':
            v = (int(v[0], 16), int(v[1], 16))
        P[t['field']] = tuple(v) if isinstance(v, list) else (int(v, 16) if isinstance(v, str) else v)
        assert not params_val(P, check_point=P['P'] is not None and t.get('check_point', True)), t
        n += 1
    # sparse reduction == generic reduction
    import random as _r
    _R = _r.Random(1)
    for name in STD_NAMES:
        fl = F(params_std(name))
        for _ in range(20):
            a, b = _R.getrandbits(fl.m), _R.getrandbits(fl.m)
            assert fl.mul(a, b) == polys.mulmod(a, b, fl.f) and fl.sqr(a) == polys.sqrmod(a, fl.f)
            if a:
                assert fl.mul(a, fl.inv(a)) == 1
    n += 1
    # point generation / compression round trip on every standard curve (self-consistency)
    import random
    R = random.Random(4145)
    for name in STD_NAMES[:4]:
        P = params_std(name)
        no = (P['p'][0] + 7) // 8
        pt = point_gen(P, R.randbytes(no * 64))
        assert pt is not None and point_val(P, pt)
        assert recover(P, compress(P, pt)) == pt
        assert recover(P, compress(P, ec_neg(pt))) == ec_neg(pt)
        n += 1
    print('OK %d vectors' % n)
    return 0


if __name__ == '__main__':
    if '--selftest' in sys.argv:
        sys.exit(selftest())
    print(__doc__)
