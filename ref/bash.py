#!/usr/bin/env python3
"""Specification-level reference model of STB 34.101.77 (bash).

Written from the definitions of the standard (sponge permutation bash-f, hash
family bash-hash, programmable automaton bash-prg), NOT from the bee2 C code:
64-bit words are Python ints, strings of octets are bytes, constants are
generated from their defining recurrences.  Stdlib only.

Conventions: a 1536-bit state is 192 octets = 24 words S0..S23, each word the
little-endian number of its 8 octets.  Bit number i of a state (as used by the
standard for S[pos...), S[r], ...) is the bit 0x80 >> (i % 8) of octet i // 8,
so "the first bit of octet k" is 0x80 and the 8-bit word t || 01 with a 6-bit
code t is the octet (t << 2) | 1.  All lengths in this API are in OCTETS.

API
---
bash_f(state192: bytes) -> bytes
    The sponge permutation bash-f on 192 octets.
bash_hash(l: int, data: bytes) -> bytes
    bash-hash of security level l in {16, 32, ..., 256}; returns l/4 octets
    (2l bits).  Hash(l) is an incremental wrapper (step_h / step_g / step_v)
    mirroring bashHashStart/StepH/StepG/StepV; step_g does not finalize.
class Prg(l, d, ann=b"", key=b"")                       -- command start
    l in {128,192,256}, d in {1,2}; len(ann), len(key) multiples of 4, <= 60;
    key empty = keyless mode, otherwise len(key) >= l/8 and keyed mode.
    Whole commands (each = <cmd>_start + one <cmd>_step):
      restart(ann=b"", key=b""), absorb(data), squeeze(n) -> bytes,
      encr(data) -> bytes, decr(data) -> bytes, ratchet()
    Fine-grained interface (any fragmentation of a command's data into steps
    is equivalent to the whole command on the concatenation):
      absorb_start(), absorb_step(data), squeeze_start(), squeeze_step(n),
      encr_start(), encr_step(data), decr_start(), decr_step(data)
    state() -> (S: 192 octets, pos, buf_len)   with buf_len = r/8, both in
      octets; comparable with bash_prg_st.{s,pos,buf_len} of bee2.
    copy() -> independent clone.
    Misuse (step without its start, encr/decr when keyless, bad lengths)
    raises AssertionError: such calls are outside the standard.

CLI: python3 bash.py --selftest   checks the model against vectors/bash.json
     only; prints 'OK n vectors' and exits 0, else exits 1.
"""
import json, os, struct, sys

M64 = (1 << 64) - 1

# ---------------------------------------------------------------- constants
# Rotation parameters: (m1,n1,m2,n2) = (8,53,14,1) for column 0, then every
# next bash-s call multiplies each parameter by 7 modulo 64.
def _gen_rot():
    p, out = (8, 53, 14, 1), []
    for _ in range(8):
        out.append(p)
        p = tuple(7 * x % 64 for x in p)
    assert p == out[0]              # 7^8 = 1 (mod 64): the same in every round
    return out

# Round constants: C1 = 0x3BF5080AC8BA94B1 (first 8 octets of the belt table
# H read as a word); C_{t+1} = C_t >> 1 if C_t is even, else (C_t >> 1) ^ A
# (a Galois LFSR step), A = 0xDC2BE1997FE0D8AE.
def _gen_c():
    c, out = 0x3BF5080AC8BA94B1, []
    for _ in range(24):
        out.append(c)
        c = (c >> 1) ^ (0xDC2BE1997FE0D8AE if c & 1 else 0)
    return out

ROT, C = _gen_rot(), _gen_c()

# Word permutation of a round: S <- S15 S10 S9 S12 S11 S14 S13 S8 | S17 S16 S19
# S18 S21 S20 S23 S22 | S6 S3 S0 S5 S2 S7 S4 S1 (new word x = old word PERM[x]).
PERM = (15, 10, 9, 12, 11, 14, 13, 8, 17, 16, 19, 18, 21, 20, 23, 22,
        6, 3, 0, 5, 2, 7, 4, 1)

# Independent listings (the tables printed in the standard / bash_f64.c):
assert ROT == [(8, 53, 14, 1), (56, 51, 34, 7), (8, 37, 46, 49), (56, 3, 2, 23),
               (8, 21, 14, 33), (56, 19, 34, 39), (8, 5, 46, 17), (56, 35, 2, 55)]
assert C == [
    0x3BF5080AC8BA94B1, 0xC1D1659C1BBD92F6, 0x60E8B2CE0DDEC97B, 0xEC5FB8FE790FBC13,
    0xAA043DE6436706A7, 0x8929FF6A5E535BFD, 0x98BF1E2C50C97550, 0x4C5F8F162864BAA8,
    0x262FC78B14325D54, 0x1317E3C58A192EAA, 0x098BF1E2C50C9755, 0xD8EE19681D669304,
    0x6C770CB40EB34982, 0x363B865A0759A4C1, 0xC73622B47C4C0ACE, 0x639B115A3E260567,
    0xEDE6693460F3DA1D, 0xAAD8D5034F9935A0, 0x556C6A81A7CC9AD0, 0x2AB63540D3E64D68,
    0x155B1AA069F326B4, 0x0AAD8D5034F9935A, 0x0556C6A81A7CC9AD, 0xDE8082CD72DEBC78]
assert sorted(PERM) == list(range(24)) and all(
    PERM[x] == (8 + (x + 2 * (x & 1) + 7) % 8 if x < 8 else
                8 + (x ^ 1) if x < 16 else (5 * x + 6) % 8) for x in range(24))

# ------------------------------------------------------------------- bash-f
def _rot_hi(w, n):
    """RotHi^n: cyclic shift of a 64-bit word towards the high bits."""
    return ((w << n) | (w >> (64 - n))) & M64

def bash_s(w0, w1, w2, m1, n1, m2, n2):
    """The transformation bash-s on a column of three words."""
    t0 = _rot_hi(w0, m1)
    w0 ^= w1 ^ w2
    t1 = w1 ^ _rot_hi(w0, n1)
    w1 = t0 ^ t1
    w2 ^= _rot_hi(w2, m2) ^ _rot_hi(t1, n2)
    t0, t1, t2 = (w2 ^ M64) | w1, w0 | w2, w0 & w1
    return w0 ^ t0, w1 ^ t1, w2 ^ t2

def bash_f(state192):
    assert len(state192) == 192
    s = list(struct.unpack("<24Q", state192))
    for c in C:                                   # rounds 1..24
        for j in range(8):                        # bash-s on every column
            s[j], s[8 + j], s[16 + j] = bash_s(s[j], s[8 + j], s[16 + j], *ROT[j])
        s = [s[p] for p in PERM]
        s[23] ^= c
    return struct.pack("<24Q", *s)

# ---------------------------------------------------------------- bash-hash
def bash_hash(l, data):
    assert l % 16 == 0 and 16 <= l <= 256
    r = 192 - l // 2                              # block: 1536 - 4l bits
    x = bytes(data) + b"\x40"                     # X || 01 || 0...0
    x += bytes(-len(x) % r)
    s = bytes(184) + struct.pack("<Q", l // 4)    # 0^1472 || <l/4>_64
    for i in range(0, len(x), r):
        s = bash_f(x[i:i + r] + s[r:])            # block REPLACES S[...r)
    return s[:l // 4]

class Hash:
    """Incremental view: step_g/step_v may be interleaved with further step_h."""
    def __init__(self, l): self.l, self.data = l, b""
    def step_h(self, data): self.data += bytes(data)
    def step_g(self, n=None):
        n = self.l // 4 if n is None else n
        assert n <= self.l // 4
        return bash_hash(self.l, self.data)[:n]
    def step_v(self, h): return self.step_g(len(h)) == bytes(h)

# ----------------------------------------------------------------- bash-prg
NULL, KEY, DATA, TEXT, OUT = range(5)             # 6-bit command-type codes

class Prg:
    def __init__(self, l, d, ann=b"", key=b""):                     # start
        assert l in (128, 192, 256) and d in (1, 2)
        self.l, self.d = l, d
        hdr = self._header(ann, key)
        self.pos = len(hdr)                       # 8 + |A| + |K| bits
        s = hdr + bytes(192 - len(hdr))
        self.s = bytearray(s[:184] + struct.pack("<Q", l // 4 + d))
        self.keyed = bool(key)
        # rate: 1536 - (l + dl/2) bits keyed, 1536 - 2dl bits keyless
        self.r = 192 - (l * (2 + d) // 16 if key else d * l // 4)
        self.cmd = None

    def _header(self, ann, key):
        ann, key = bytes(ann), bytes(key)
        assert len(ann) % 4 == 0 and len(ann) <= 60
        assert len(key) % 4 == 0 and len(key) <= 60
        assert not key or len(key) >= self.l // 8
        # <|A|/2 + |K|/32>_8 with |.| in bits: |A|/32 in the high nibble
        return bytes([len(ann) * 4 + len(key) // 4]) + ann + key

    def _commit(self, t, cmd=None):
        assert self.pos < self.r
        self.s[self.pos] ^= (t << 2) | 1          # S[pos...pos+8) ^= t || 01
        self.s[self.r] ^= 0x80                    # S[r] ^= 1 (control bit)
        self.s = bytearray(bash_f(bytes(self.s)))
        self.pos, self.cmd = 0, cmd

    def restart(self, ann=b"", key=b""):
        hdr = self._header(ann, key)
        if key:
            self._commit(KEY)
            self.r, self.keyed = 192 - self.l * (2 + self.d) // 16, True
        else:
            self._commit(NULL)
        self.pos = len(hdr)
        for i, b in enumerate(hdr):
            self.s[i] ^= b

    def ratchet(self):
        t = bytes(self.s)
        self._commit(NULL)
        self.s = bytearray(a ^ b for a, b in zip(self.s, t))

    def _step(self, cmd, data):
        """Process the next octets of the current command's data through the
        buffer S[...r): the data stream is cut at the points where pos reaches
        r, and there S <- bash-f(S), pos <- 0 (immediately, not lazily)."""
        assert self.cmd == cmd
        out, i = bytearray(), 0
        while i < len(data):
            p, x = self.pos, data[i]
            if cmd == "absorb":
                self.s[p] ^= x
            elif cmd == "squeeze":
                out.append(self.s[p])
            elif cmd == "encr":
                self.s[p] ^= x; out.append(self.s[p])
            else:                                 # decr: Y -> X = Y ^ S, S <- Y
                out.append(self.s[p] ^ x); self.s[p] = x
            i, self.pos = i + 1, p + 1
            if self.pos == self.r:
                self.s, self.pos = bytearray(bash_f(bytes(self.s))), 0
        return bytes(out)

    def absorb_start(self): self._commit(DATA, "absorb")
    def absorb_step(self, data): self._step("absorb", bytes(data))
    def squeeze_start(self): self._commit(OUT, "squeeze")
    def squeeze_step(self, n): return self._step("squeeze", bytes(n))
    def encr_start(self):
        assert self.keyed
        self._commit(TEXT, "encr")
    def encr_step(self, data): return self._step("encr", bytes(data))
    def decr_start(self):
        assert self.keyed
        self._commit(TEXT, "decr")
    def decr_step(self, data): return self._step("decr", bytes(data))

    def absorb(self, data): self.absorb_start(); self.absorb_step(data)
    def squeeze(self, n): self.squeeze_start(); return self.squeeze_step(n)
    def encr(self, data): self.encr_start(); return self.encr_step(data)
    def decr(self, data): self.decr_start(); return self.decr_step(data)

    def state(self): return bytes(self.s), self.pos, self.r
    def copy(self):
        c = object.__new__(Prg)
        c.__dict__.update(self.__dict__, s=bytearray(self.s))
        return c

# ----------------------------------------------------------------- selftest
def run_script(script):
    """Run a JSON command script [[op, args...], ...]; hex strings are data,
    the last hex argument of squeeze*/encr*/decr* is the expected output.
    'save'/'load' snapshot and restore the automaton.  Returns check count."""
    h, prg, saved, n = bytes.fromhex, None, None, 0
    for op, *a in script:
        if op == "start":
            prg = Prg(a[0], a[1], h(a[2]), h(a[3]))
        elif op == "restart":
            prg.restart(h(a[0]), h(a[1]))
        elif op == "save":
            saved = prg.copy()
        elif op == "load":
            prg = saved.copy()
        elif op in ("squeeze", "squeeze_step"):
            assert getattr(prg, op)(a[0]) == h(a[1]), op; n += 1
        elif op in ("encr", "encr_step", "decr", "decr_step"):
            assert getattr(prg, op)(h(a[0])) == h(a[1]), op; n += 1
        else:
            getattr(prg, op)(*map(h, a))
    return n

def selftest(path=None):
    path = path or os.path.join(os.path.dirname(os.path.abspath(__file__)),
                                "vectors", "bash.json")
    with open(path) as f:
        v = json.load(f)
    h, n = bytes.fromhex, 0
    for t in v["f"]:
        assert bash_f(h(t["in"])) == h(t["out"]), t["id"]; n += 1
    for t in v["hash"]:
        assert bash_hash(t["l"], h(t["data"])) == h(t["hash"]), t["id"]
        x = Hash(t["l"]); x.step_h(h(t["data"]))
        assert x.step_v(h(t["hash"])); n += 1
    for t in v["prg"]:
        try:
            assert run_script(t["script"]) > 0
        except AssertionError as e:
            raise AssertionError("%s: %s" % (t["id"], e))
        n += 1
    return n

if __name__ == "__main__":
    if sys.argv[1:2] == ["--selftest"]:
        try:
            print("OK %d vectors" % selftest(*sys.argv[2:3]))
        except Exception as e:
            print("FAIL %s: %s" % (type(e).__name__, e))
            sys.exit(1)
    else:
        print(__doc__)
