#!/usr/bin/env python3
"""Specification-level reference model of STB 34.101.60 (bels) secret sharing as exposed by bee2 bels.h.

Polynomials over GF(2) are Python ints (bit i = coeff of x^i). Octet strings encode polynomials
little-endian (first octet = coefficients of x^0..x^7), len in {16, 24, 32}, l = 8*len.
A public key m (len octets) stands for the polynomial f(x) = x^l + m(x) that must be irreducible.

API
---
std_m(len, num)                      -> bytes   standard key (table A.1 for num=0, A.2-A.4 for 1..16)
val_m(m)                             -> bool    x^l + m(x) irreducible (len(m) in 16/24/32)
min_poly_mod(u, f0)                  -> int     minimal polynomial of u in GF(2)[x]/(f0) (linear algebra)
gen_m0(len, tape)                    -> bytes | None   bels-genm0: first irreducible candidate read from tape
gen_mi(len, m0, tape, tries=3)       -> bytes | None   one user key by BuildIrred from tape candidates
gen_mid(len, m0, id, tries=3)        -> bytes | None   deterministic key from belt-hash(id)
share(s, threshold, count, m0, mis, tape) -> list[bytes]   si = ((x^l + m0) k + s) mod (x^l + mi)
share_std(s, threshold, count, tape) -> list[bytes(len+1)] belsShare2 layout: number octet || share
genk_tape(s, count, threshold)       -> tape   deterministic bels-genk of belsShare3 (experimental in bee2)
recover(shares, m0, mis)             -> bytes   CRT in GF(2)[x] then reduction mod (x^l + m0)
recover_std(numbered_shares)         -> bytes   belsRecover2 layout
Errors: ValueError('BAD_INPUT'), ValueError('BAD_PUBKEY'), ValueError('BAD_RNG'/'BAD_ANG').
A "tape" is a bytes object consumed from the front (class Tape) -- models gen_i outputs.
"""
import json
import os
import sys

sys.path.insert(0, os.path.dirname(os.path.abspath(__file__)))
import polys  # noqa: E402

LENS = (16, 24, 32)


class Tape:
    def __init__(self, data, cyclic=False):
        self.data = bytes(data)
        self.pos = 0
        self.cyclic = cyclic

    def read(self, n):
        if self.cyclic:
            if n and not self.data:
                raise ValueError('BAD_RNG')
            out = bytes(self.data[(self.pos + i) % len(self.data)] for i in range(n))
            self.pos = (self.pos + n) % len(self.data) if self.data else 0
            return out
        if self.pos + n > len(self.data):
            raise EOFError('tape exhausted')
        out = self.data[self.pos:self.pos + n]
        self.pos += n
        return out


def _tape(t):
    return t if hasattr(t, 'read') else Tape(t)


def _load_std():
    p = os.path.join(os.path.dirname(os.path.abspath(__file__)), 'vectors', 'bels.json')
    with open(p) as f:
        return json.load(f)


_STD = None


def std_m(length, num):
    global _STD
    if length not in LENS or not (0 <= num <= 16):
        raise ValueError('BAD_INPUT')
    if _STD is None:
        _STD = _load_std()['std_m']
    return bytes.fromhex(_STD[str(length)][num])


def _poly(m):
    """f(x) = x^l + m(x)."""
    m = bytes(m)
    if len(m) not in LENS:
        raise ValueError('BAD_INPUT')
    return (1 << (8 * len(m))) | int.from_bytes(m, 'little')


def val_m(m):
    return polys.is_irreducible(_poly(m))


def min_poly_mod(u, f0):
    """Minimal polynomial over GF(2) of the element u of GF(2)[x]/(f0): the monic polynomial g of
    least degree with g(u) = 0 mod f0. Found as the first linear dependency among 1, u, u^2, ...
    (Gaussian elimination over GF(2) with combination tracking)."""
    l = polys.deg(f0)
    u = polys.mod(u, f0)
    basis = {}  # pivot bit -> (vector, combo)
    p = polys.mod(1, f0)
    for k in range(l + 1):
        v, combo = p, 1 << k
        while v:
            piv = v.bit_length() - 1
            if piv not in basis:
                break
            bv, bc = basis[piv]
            v ^= bv
            combo ^= bc
        if v == 0:
            return combo  # sum_{j in combo} u^j = 0, top bit = k => monic of degree k
        basis[v.bit_length() - 1] = (v, combo)
        p = polys.mulmod(p, u, f0)
    raise AssertionError('no dependency among l+1 vectors of l bits')


def min_poly_conj(u, f0):
    """Second, independent derivation (f0 irreducible): prod_{i<d} (y - u^(2^i)) where d is the
    orbit length of u under Frobenius. Coefficients lie in GF(2). Slow: use for small checks."""
    u = polys.mod(u, f0)
    conj = [u]
    while True:
        w = polys.sqrmod(conj[-1], f0)
        if w == u:
            break
        conj.append(w)
    coeffs = [1]  # polynomial in y with coefficients in the field, low to high
    for c in conj:
        new = [0] * (len(coeffs) + 1)
        for i, a in enumerate(coeffs):
            new[i + 1] ^= a
            new[i] ^= polys.mulmod(a, c, f0)
        coeffs = new
    g = 0
    for i, a in enumerate(coeffs):
        assert a in (0, 1)
        g |= a << i
    return g


def gen_m0(length, tape, max_tries=None):
    if length not in LENS:
        raise ValueError('BAD_INPUT')
    tape = _tape(tape)
    if max_tries is None:
        max_tries = length * 8 * 64 * 3 // 4  # k*l, k = B_PER_IMPOSSIBLE*3/4 (bels.h)
    for _ in range(max_tries):
        m = tape.read(length)
        if val_m(m):
            return m
    return None  # ERR_BAD_ANG


def _build_irred(u, f0, length):
    """BuildIrred step: returns key octets if min poly of u has degree l and differs from f0."""
    l = 8 * length
    f = min_poly_mod(u, f0)
    if polys.deg(f) == l and f != f0:
        return (f ^ (1 << l)).to_bytes(length, 'little')
    return None


def gen_mi(length, m0, tape, tries=3):
    if length not in LENS or len(m0) != length:
        raise ValueError('BAD_INPUT')
    if not val_m(m0):
        raise ValueError('BAD_PUBKEY')
    f0 = _poly(m0)
    tape = _tape(tape)
    for _ in range(tries):
        u = int.from_bytes(tape.read(length), 'little')
        r = _build_irred(u, f0, length)
        if r is not None:
            return r
    return None


def gen_mid(length, m0, ident, tries=3):
    """u <- first len octets of belt-hash(id) as a polynomial; while BuildIrred(u) fails: u <- u + 1
    (integer increment modulo 2^l)."""
    import belt
    if length not in LENS or len(m0) != length:
        raise ValueError('BAD_INPUT')
    if not val_m(m0):
        raise ValueError('BAD_PUBKEY')
    f0 = _poly(m0)
    u = int.from_bytes(belt.hash(bytes(ident))[:length], 'little')
    for _ in range(tries):
        r = _build_irred(u, f0, length)
        if r is not None:
            return r
        u = (u + 1) % (1 << (8 * length))
    return None


def _check_keys(m0, mis, check_m0_distinct=True):
    fs = [_poly(m) for m in mis]
    f0 = _poly(m0)
    if not polys.is_irreducible(f0) or not all(polys.is_irreducible(f) for f in fs):
        raise ValueError('BAD_PUBKEY')
    allk = fs + ([f0] if check_m0_distinct else [])
    if len(set(allk)) != len(allk):
        raise ValueError('BAD_PUBKEY')
    return f0, fs


def share(s, threshold, count, m0, mis, tape):
    s = bytes(s)
    length = len(s)
    if length not in LENS or threshold == 0 or count < threshold or \
            len(m0) != length or len(mis) != count or any(len(m) != length for m in mis):
        raise ValueError('BAD_INPUT')
    f0, fs = _check_keys(m0, mis)
    tape = _tape(tape)
    k = int.from_bytes(tape.read((threshold - 1) * length), 'little')
    c = polys.mul(f0, k) ^ int.from_bytes(s, 'little')
    return [polys.mod(c, f).to_bytes(length, 'little') for f in fs]


def share_std(s, threshold, count, tape):
    length = len(s)
    if length not in LENS or threshold == 0 or count < threshold or count > 16:
        raise ValueError('BAD_INPUT')
    mis = [std_m(length, i + 1) for i in range(count)]
    sh = share(s, threshold, count, std_m(length, 0), mis, tape)
    return [bytes([i + 1]) + x for i, x in enumerate(sh)]


def genk_tape(s, count, threshold, variant='comment'):
    """bee2's EXPERIMENTAL deterministic one-time key (belsShare3; not part of STB 34.101.60).
    variant='comment': what the comments in bels.c state:  K = keyexpand(s);
        key = belt-compress(~K || K) (the 256-bit sigma2 output); iv = <count>_32 || <threshold>_32 || 0^64;
        stream = belt-ctr(key, iv) keystream.
    variant='bee2': what the baseline library actually computes: key = belt-compress(~K || 0^256)
        (the second half is a zero-initialised blob, the copy of K is never used)."""
    import belt
    K = belt.key_expand(bytes(s))
    nK = bytes(b ^ 0xFF for b in K)
    x = nK + (K if variant == 'comment' else bytes(32))
    r = belt.compr(x)
    key = r[1] if isinstance(r, tuple) else r
    iv = (count & 0xFFFFFFFF).to_bytes(4, 'little') + (threshold & 0xFFFFFFFF).to_bytes(4, 'little') + bytes(8)

    class _G:
        def __init__(self):
            self.n = 0

        def read(self, n):
            out = belt.ctr(key, iv, bytes(self.n + n))[self.n:]
            self.n += n
            return out
    return _G()


def share_det(s, threshold, count, variant='comment'):
    return share_std(s, threshold, count, genk_tape(s, count, threshold, variant))


def recover(shares, m0, mis):
    """CRT: find c with c = si mod fi, deg c < sum deg fi; return c mod f0."""
    count = len(shares)
    if count == 0 or len(mis) != count:
        raise ValueError('BAD_INPUT')
    length = len(m0)
    if length not in LENS or any(len(x) != length for x in shares) or any(len(x) != length for x in mis):
        raise ValueError('BAD_INPUT')
    f0 = _poly(m0)
    fs = [_poly(m) for m in mis]
    M = 1
    for f in fs:
        M = polys.mul(M, f)
    c = 0
    for si, f in zip(shares, fs):
        Mi = polys.div(M, f)
        inv = polys.invmod(Mi, f)
        if inv is None:
            raise ValueError('BAD_PUBKEY')  # keys not pairwise coprime (e.g. equal keys)
        c ^= polys.mul(polys.mulmod(int.from_bytes(si, 'little'), inv, f), Mi)
    c = polys.mod(c, M)
    return polys.mod(c, f0).to_bytes(length, 'little')


def recover_std(numbered):
    count = len(numbered)
    if count == 0 or count > 16:
        raise ValueError('BAD_INPUT')
    length = len(numbered[0]) - 1
    if length not in LENS or any(len(x) != length + 1 for x in numbered):
        raise ValueError('BAD_INPUT')
    nums = [x[0] for x in numbered]
    if any(n == 0 or n > 16 for n in nums) or len(set(nums)) != count:
        raise ValueError('BAD_PUBKEY')
    return recover([x[1:] for x in numbered], std_m(length, 0), [std_m(length, n) for n in nums])


# --------------------------------------------------------------------------

def selftest(path=None):
    path = path or os.path.join(os.path.dirname(os.path.abspath(__file__)), 'vectors', 'bels.json')
    with open(path) as f:
        V = json.load(f)
    n = 0
    for length in LENS:
        keys = [bytes.fromhex(x) for x in V['std_m'][str(length)]]
        assert len(keys) == 17 and len(set(keys)) == 17
        for k in keys:
            assert len(k) == length and val_m(k), (length, k.hex())
            assert polys.deg(_poly(k)) == 8 * length
            n += 1
    for t in V['gen_mid']:
        m0 = bytes.fromhex(t['m0'])
        r = gen_mid(len(m0), m0, bytes.fromhex(t['id']))
        assert r == bytes.fromhex(t['mid']), (t, r and r.hex())
        assert val_m(r)
        n += 1
    for t in V['share']:
        s = bytes.fromhex(t['s'])
        mis = [bytes.fromhex(x) for x in t['mi']]
        sh = share(s, t['threshold'], t['count'], bytes.fromhex(t['m0']), mis, Tape(bytes.fromhex(t['tape'])))
        assert b''.join(sh) == bytes.fromhex(t['si']), t
        n += 1
    for t in V['recover']:
        sh = [bytes.fromhex(x) for x in t['si']]
        mis = [bytes.fromhex(x) for x in t['mi']]
        r = recover(sh, bytes.fromhex(t['m0']), mis)
        if 's' in t:
            assert r == bytes.fromhex(t['s']), (t, r.hex())
        if 'not_s' in t:
            assert r != bytes.fromhex(t['not_s']), t
        n += 1
    for t in V['val_m']:
        assert val_m(bytes.fromhex(t['m'])) == t['valid'], t
        n += 1
    # min-poly: two independent derivations agree (small field and one 128-bit case)
    f0 = (1 << 16) | 0x2B
    for u in range(0, 1 << 16, 257):
        a, b = min_poly_mod(u, f0), min_poly_conj(u, f0)
        assert a == b, (u, a, b)
    f0 = _poly(std_m(16, 0))
    assert min_poly_mod(0x1234567, f0) == min_poly_conj(0x1234567, f0)
    n += 2
    print('OK %d vectors' % n)
    return 0


if __name__ == '__main__':
    if '--selftest' in sys.argv:
        sys.exit(selftest())
    print(__doc__)
