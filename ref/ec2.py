#!/usr/bin/env python3
"""Specification-level reference model: elliptic curves over GF(2^m) (bee2 math/ec2.h).

    E: y^2 + x y = x^3 + a x^2 + b      over GF(2^m) = GF(2)[t] / (f(t))

Field elements are polynomial ints (bit i = coefficient of t^i); the reduction
polynomial f (degree m, INCLUDING the leading term) is passed in.  Affine points
are (x, y) tuples, infinity is None.  Textbook affine formulas; NOT a
transliteration of ec2.c (no Lopez-Dahab coordinates, no words).

API
---
gf2_deg(f)                      degree of polynomial f (-1 for 0)
gf2_mulx(a, b)                  carry-less product (no reduction)
gf2_mod(a, f)                   a mod f
gf2_is_irreducible(f)           Rabin/Ben-Or style test (brute force for tiny degrees)
Field2(f): .m .mul .sqr .inv .div .pow .trace .half_trace .solve_quad(c) (z^2+z=c) .sqrt
Curve2(f, a, b)
  .is_on(P) .neg(P) .add(P,Q) .sub(P,Q) .dbl(P) .mul(k,P) .mul_add(...) .has_order(P,q)
  .points()                     ALL affine points by brute force (tiny m only)
  .group_order()                len(points()) + 1
  .point_order(P)
  .lift_x(x)                    the points with abscissa x
selftest()                      model-internal group laws on brute-forced tiny curves + NIST B-163
selftest_vectors(path=None)     vectors/ec2.json ONLY: the ten standard DSTU 4145 curves of
                                src/crypto/dstu.c (irreducible field polynomial, Hasse bound,
                                cofactor parity = Tr(A), base point of order n, cofactor*n kills
                                lifted points)
`python3 ec2.py --selftest` runs both and prints 'OK n vectors'.
"""
import sys


def gf2_deg(f):
    return f.bit_length() - 1


def gf2_mulx(a, b):
    r = 0
    while b:
        if b & 1:
            r ^= a
        a <<= 1
        b >>= 1
    return r


def gf2_mod(a, f):
    df = gf2_deg(f)
    if df < 0:
        raise ZeroDivisionError
    while gf2_deg(a) >= df:
        a ^= f << (gf2_deg(a) - df)
    return a


def gf2_divmod(a, f):
    df = gf2_deg(f)
    if df < 0:
        raise ZeroDivisionError
    q = 0
    while gf2_deg(a) >= df:
        s = gf2_deg(a) - df
        q ^= 1 << s
        a ^= f << s
    return q, a


def gf2_gcd(a, b):
    while b:
        a, b = b, gf2_mod(a, b)
    return a


def gf2_is_irreducible(f):
    """f irreducible over GF(2)?  (trial division by all polynomials of degree <= deg/2
    for small degrees, otherwise the x^(2^i) - x gcd criterion)."""
    m = gf2_deg(f)
    if m <= 0:
        return False
    if m <= 16:
        for g in range(2, 1 << (m // 2 + 1)):
            if gf2_deg(g) >= 1 and gf2_deg(g) <= m // 2 and gf2_mod(f, g) == 0:
                return False
        return True
    x = 2
    u = x
    for i in range(1, m // 2 + 1):
        u = gf2_mod(gf2_mulx(u, u), f)
        if gf2_gcd(f, u ^ x) != 1:
            return False
    return True


class Field2:
    """GF(2^m) = GF(2)[t]/(f), f of degree m given with its leading term."""

    def __init__(self, f):
        self.f = int(f)
        self.m = gf2_deg(self.f)
        if self.m < 1:
            raise ValueError("bad reduction polynomial")
        self.size = 1 << self.m

    def is_in(self, a):
        return 0 <= a < self.size

    def mul(self, a, b):
        return gf2_mod(gf2_mulx(a, b), self.f)

    def sqr(self, a):
        return self.mul(a, a)

    def pow(self, a, e):
        r = 1
        while e:
            if e & 1:
                r = self.mul(r, a)
            a = self.sqr(a)
            e >>= 1
        return r

    def inv(self, a):
        """Inverse by the extended Euclidean algorithm in GF(2)[t]."""
        a = gf2_mod(a, self.f)
        if a == 0:
            raise ZeroDivisionError("inverse of 0 in GF(2^m)")
        r0, r1, s0, s1 = self.f, a, 0, 1
        while r1:
            q, r = gf2_divmod(r0, r1)
            r0, r1 = r1, r
            s0, s1 = s1, s0 ^ gf2_mulx(q, s1)
        assert r0 == 1, "reduction polynomial is not irreducible"
        return gf2_mod(s0, self.f)

    def div(self, a, b):
        return self.mul(a, self.inv(b))

    def sqrt(self, a):
        return self.pow(a, 1 << (self.m - 1))

    def trace(self, a):
        t, x = 0, a
        for _ in range(self.m):
            t ^= x
            x = self.sqr(x)
        assert t in (0, 1)
        return t

    def solve_quad(self, c):
        """A solution z of z^2 + z = c, or None (the other one is z + 1)."""
        if self.m <= 16:
            for z in range(self.size):
                if self.sqr(z) ^ z == c:
                    return z
            return None
        if self.trace(c):
            return None
        if self.m & 1:
            z, x = 0, c
            for i in range((self.m - 1) // 2 + 1):
                z ^= x
                x = self.sqr(self.sqr(x))
            return z
        # even m: pick u with Tr(u) = 1 (the trace is GF(2)-linear and onto, so some
        # basis element t^k works), then
        #   z = sum_{i=1}^{m-1} ( sum_{j=0}^{i-1} c^(2^j) ) u^(2^i)
        u = 1
        while self.trace(u) == 0:
            u <<= 1
        z, acc, cc, ui = 0, c, c, u
        for i in range(1, self.m):
            ui = self.sqr(ui)
            z ^= self.mul(acc, ui)
            cc = self.sqr(cc)
            acc ^= cc
        assert self.sqr(z) ^ z == c
        return z


class Curve2:
    """y^2 + xy = x^3 + a x^2 + b over GF(2^m), b != 0."""

    def __init__(self, f, a, b):
        self.F = f if isinstance(f, Field2) else Field2(f)
        self.a, self.b = int(a), int(b)
        if not (self.F.is_in(self.a) and self.F.is_in(self.b)):
            raise ValueError("coefficients not in the field")

    def is_valid(self):
        return self.b != 0 and gf2_is_irreducible(self.F.f)

    def is_on(self, P):
        if P is None:
            return True
        x, y = P
        F = self.F
        if not (F.is_in(x) and F.is_in(y)):
            return False
        x2 = F.sqr(x)
        lhs = F.sqr(y) ^ F.mul(x, y)
        rhs = F.mul(x2, x) ^ F.mul(self.a, x2) ^ self.b
        return lhs == rhs

    def neg(self, P):
        if P is None:
            return None
        x, y = P
        return (x, x ^ y)

    def dbl(self, P):
        if P is None:
            return None
        x, y = P
        F = self.F
        if x == 0:
            return None          # the point of order 2: (0, sqrt(b))
        lam = x ^ F.div(y, x)
        x3 = F.sqr(lam) ^ lam ^ self.a
        y3 = F.sqr(x) ^ F.mul(lam ^ 1, x3)
        return (x3, y3)

    def add(self, P, Q):
        if P is None:
            return Q
        if Q is None:
            return P
        x1, y1 = P
        x2, y2 = Q
        F = self.F
        if x1 == x2:
            if y1 ^ y2 == x1:    # Q == -P (covers P == Q with x == 0)
                return None
            return self.dbl(P)
        lam = F.div(y1 ^ y2, x1 ^ x2)
        x3 = F.sqr(lam) ^ lam ^ x1 ^ x2 ^ self.a
        y3 = F.mul(lam, x1 ^ x3) ^ x3 ^ y1
        return (x3, y3)

    def sub(self, P, Q):
        return self.add(P, self.neg(Q))

    def mul(self, k, P):
        k = int(k)
        if k < 0:
            raise ValueError("k must be >= 0")
        R = None
        for bit in bin(k)[2:] if k else "":
            R = self.dbl(R)
            if bit == "1":
                R = self.add(R, P)
        return R

    def mul_add(self, *pairs):
        R = None
        for k, P in pairs:
            R = self.add(R, self.mul(k, P))
        return R

    def has_order(self, P, q):
        return P is not None and self.mul(q, P) is None

    def points(self):
        """All affine points by exhaustive search over (x, y) (tiny m only)."""
        F = self.F
        if F.m > 10:
            raise ValueError("points(): field too large for brute force")
        return [(x, y) for x in range(F.size) for y in range(F.size) if self.is_on((x, y))]

    def group_order(self):
        return len(self.points()) + 1

    def point_order(self, P):
        n, R = 1, P
        while R is not None:
            R = self.add(R, P)
            n += 1
        return n

    def lift_x(self, x):
        """Points with abscissa x."""
        F = self.F
        if x == 0:
            return [(0, F.sqrt(self.b))]
        # y^2 + xy = g  ->  z = y/x: z^2 + z = g / x^2
        g = F.mul(F.sqr(x), x) ^ F.mul(self.a, F.sqr(x)) ^ self.b
        z = F.solve_quad(F.div(g, F.sqr(x)))
        if z is None:
            return []
        return sorted([(x, F.mul(z, x)), (x, F.mul(z ^ 1, x))])


# --------------------------------------------------------------------------
# selftest: model-internal group laws on brute-forced tiny curves + a known standard
# curve fact (NIST B-163 base point has the published prime order).
# --------------------------------------------------------------------------

_IRRED = {2: 0b111, 3: 0b1011, 4: 0b10011, 5: 0b100101, 6: 0b1000011, 7: 0b10000011,
          8: 0b100011011}


def selftest_vectors(path=None):
    """Check the model against vectors/ec2.json ONLY (standard DSTU 4145 curves)."""
    import json
    import os
    if path is None:
        path = os.path.join(os.path.dirname(os.path.abspath(__file__)), "vectors", "ec2.json")
    with open(path) as fp:
        doc = json.load(fp)
    n = 0
    for v in doc["vectors"]:
        assert v["kind"] == "dstu_curve"
        f = 1
        for e in v["field"]:
            f |= 1 << e
        m, cof = v["field"][0], v["cofactor"]
        B = int.from_bytes(bytes.fromhex(v["B_le"]), "little")
        order = int.from_bytes(bytes.fromhex(v["n_le"]), "little")
        E = Curve2(f, v["A"], B)
        assert gf2_is_irreducible(f) and E.is_valid(), v["name"]
        assert (cof == 2) == (E.F.trace(v["A"]) == 1), v["name"]
        assert (cof * order - (1 << m) - 1) ** 2 <= 4 * (1 << m), v["name"]
        if "P_le" in v:
            G = tuple(int.from_bytes(bytes.fromhex(c), "little") for c in v["P_le"])
            assert E.is_on(G) and E.has_order(G, order), v["name"]
        x, found = 2, 0
        while found < 2:
            for Q in E.lift_x(x):
                assert E.is_on(Q) and E.mul(cof * order, Q) is None, v["name"]
                R = E.mul(cof, Q)
                assert R is None or E.has_order(R, order)
                assert E.add(Q, E.neg(Q)) is None and E.sub(E.dbl(Q), Q) == Q
                found += 1
            x += 1
        n += 1
    return n


def selftest():
    import random
    rnd = random.Random(2)
    n = 0
    for m, f in sorted(_IRRED.items()):
        assert gf2_is_irreducible(f)
        F = Field2(f)
        for a in range(1, F.size):
            assert F.mul(a, F.inv(a)) == 1
            assert F.sqr(F.sqrt(a)) == a
        for _ in range(4 if m < 7 else 2):
            a, b = rnd.randrange(F.size), rnd.randrange(1, F.size)
            E = Curve2(F, a, b)
            pts = [None] + E.points()
            N = len(pts)
            # Hasse: |N - (2^m + 1)| <= 2 sqrt(2^m); N is even (point of order 2 exists);
            # N = 0 mod 4 iff Tr(a) = 0
            assert (N - F.size - 1) ** 2 <= 4 * F.size, (m, a, b, N)
            assert N % 2 == 0
            assert (N % 4 == 0) == (F.trace(a) == 0), (m, a, b, N)
            S = set(pts)
            for x in range(F.size):
                assert set(E.lift_x(x)) == {P for P in pts if P and P[0] == x}
            for _ in range(80):
                P, Q, R = rnd.choice(pts), rnd.choice(pts), rnd.choice(pts)
                assert E.add(P, Q) in S
                assert E.add(P, Q) == E.add(Q, P)
                assert E.add(E.add(P, Q), R) == E.add(P, E.add(Q, R))
                assert E.add(P, E.neg(P)) is None
                assert E.sub(E.add(P, Q), Q) == P
                assert E.mul(N, P) is None
                k = rnd.randrange(3 * N)
                assert E.mul(k, P) == E.mul(k % N, P)
                if P is not None:
                    assert N % E.point_order(P) == 0
            n += 1
    # reducible polynomials are rejected
    assert not gf2_is_irreducible(0b101) and not gf2_is_irreducible(0b1111)
    # NIST B-163 (FIPS 186): f = t^163 + t^7 + t^6 + t^3 + 1, a = 1
    f = (1 << 163) | (1 << 7) | (1 << 6) | (1 << 3) | 1
    assert gf2_is_irreducible(f)
    E = Curve2(f, 1, 0x20A601907B8C953CA1481EB10512F78744A3205FD)
    G = (0x3F0EBA16286A2D57EA0991168D4994637E8343E36, 0x0D51FBC6C71A0094FA2CDD545B11C5C0C797324F1)
    q = 5846006549323611672814742442876390689256843201587
    assert E.is_on(G) and E.has_order(G, q)
    assert E.lift_x(G[0]) == sorted([G, E.neg(G)])
    n += 1
    return n


if __name__ == "__main__":
    if "--selftest" in sys.argv:
        n = selftest()
        print("OK %d vectors" % (n + selftest_vectors()))
        sys.exit(0)
    print(__doc__)
