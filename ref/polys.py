#!/usr/bin/env python3
"""GF(2)[x] with Python ints (bit i = coefficient of x^i). Spec-level reference for bee2 math/pp.h.

API
---
deg(a)                  -> degree, deg(0) = -1
mul(a, b), sqr(a)       -> product
divmod2(a, b)           -> (q, r)
mod(a, b), div(a, b)
gcd(a, b), exgcd(a, b)  -> gcd ; (d, u, v) with u a + v b = d
invmod(a, m)            -> a^-1 mod m or None
mulmod, sqrmod, powmod(a, e, m), x_pow_2k(k, m)
is_irreducible(f)       -> Rabin test AND Ben-Or test (asserted equal) AND, for deg <= 16,
                           brute-force trial division (asserted equal)
is_irreducible_rabin / _benor / _brute
is_primitive(f)         -> x generates GF(2)[x]/(f)^*  (f irreducible, small/moderate degree)
min_poly(seq_bits)      -> Berlekamp-Massey connection polynomial helper (list of 0/1)
from_octets_le / to_octets_le
"""
import json
import os
import sys


def deg(a):
    return a.bit_length() - 1


def mul_slow(a, b):
    """Schoolbook shift-and-xor (definition)."""
    if a < 0 or b < 0:
        raise ValueError
    r = 0
    while b:
        if b & 1:
            r ^= a
        a <<= 1
        b >>= 1
    return r


def mul(a, b):
    """Same product, 4-bit windows over the shorter operand (selftest checks mul == mul_slow)."""
    if a < 0 or b < 0:
        raise ValueError
    if a.bit_length() < b.bit_length():
        a, b = b, a
    if b.bit_length() <= 16:
        return mul_slow(a, b)
    t = [0, a, a << 1, a ^ (a << 1)]
    t += [x << 2 for x in t[:4]] + [0] * 8
    for i in range(4, 8):
        t[i] = t[i & 3] ^ ((a << 2) if i & 4 else 0)
    for i in range(8, 16):
        t[i] = t[i & 7] ^ (a << 3)
    r = 0
    sh = 0
    while b:
        r ^= t[b & 15] << sh
        b >>= 4
        sh += 4
    return r


def sqr(a):
    return mul(a, a)


def divmod2(a, b):
    if b == 0:
        raise ZeroDivisionError
    q = 0
    db = deg(b)
    while deg(a) >= db:
        s = deg(a) - db
        q ^= 1 << s
        a ^= b << s
    return q, a


def mod(a, b):
    return divmod2(a, b)[1]


def div(a, b):
    return divmod2(a, b)[0]


def gcd(a, b):
    while b:
        a, b = b, mod(a, b)
    return a


def exgcd(a, b):
    """(d, u, v): u*a + v*b = d = gcd(a, b)."""
    u0, v0, u1, v1 = 1, 0, 0, 1
    while b:
        q, r = divmod2(a, b)
        a, b = b, r
        u0, u1 = u1, u0 ^ mul(q, u1)
        v0, v1 = v1, v0 ^ mul(q, v1)
    return a, u0, v0


def invmod(a, m):
    d, u, _ = exgcd(mod(a, m), m)
    if d != 1:
        return None
    return mod(u, m)


def mulmod(a, b, m):
    return mod(mul(a, b), m)


def sqrmod(a, m):
    return mod(mul(a, a), m)


def powmod(a, e, m):
    r = mod(1, m)
    a = mod(a, m)
    while e:
        if e & 1:
            r = mulmod(r, a, m)
        a = sqrmod(a, m)
        e >>= 1
    return r


def x_pow_2k(k, m):
    """x^(2^k) mod m."""
    h = mod(2, m)
    for _ in range(k):
        h = sqrmod(h, m)
    return h


def _prime_divisors(n):
    out = []
    p = 2
    while p * p <= n:
        if n % p == 0:
            out.append(p)
            while n % p == 0:
                n //= p
        p += 1
    if n > 1:
        out.append(n)
    return out


def is_irreducible_rabin(f):
    """Rabin: f of degree m >= 1 is irreducible iff x^(2^m) = x mod f and
    gcd(x^(2^(m/p)) - x, f) = 1 for every prime p | m."""
    m = deg(f)
    if m < 1:
        return False
    if m == 1:
        return True
    if x_pow_2k(m, f) != mod(2, f):
        return False
    for p in _prime_divisors(m):
        if gcd(x_pow_2k(m // p, f) ^ 2, f) != 1:
            return False
    return True


def is_irreducible_benor(f):
    """Ben-Or: gcd(x^(2^i) - x, f) = 1 for i = 1..m/2."""
    m = deg(f)
    if m < 1:
        return False
    h = mod(2, f)
    for _ in range(m // 2):
        h = sqrmod(h, f)
        if gcd(h ^ mod(2, f), f) != 1:
            return False
    return True


def is_irreducible_brute(f):
    """Trial division by all polynomials of degree 1..m/2."""
    m = deg(f)
    if m < 1:
        return False
    for g in range(2, 1 << (m // 2 + 1)):
        if mod(f, g) == 0:
            return False
    return True


_IRR_CACHE = {}


def is_irreducible(f):
    if f in _IRR_CACHE:
        return _IRR_CACHE[f]
    r = _is_irreducible(f)
    if len(_IRR_CACHE) < 100000:
        _IRR_CACHE[f] = r
    return r


def _is_irreducible(f):
    r1 = is_irreducible_rabin(f)
    r2 = is_irreducible_benor(f)
    assert r1 == r2, ('Rabin/Ben-Or mismatch', hex(f))
    if deg(f) <= 16:
        r3 = is_irreducible_brute(f)
        assert r1 == r3, ('brute-force mismatch', hex(f))
    return r1


def is_primitive(f):
    """f irreducible of degree m and ord(x) = 2^m - 1."""
    m = deg(f)
    if not is_irreducible(f):
        return False
    if m == 1:
        return f == 3
    n = (1 << m) - 1
    return all(powmod(2, n // p, f) != 1 for p in _prime_divisors(n))


def order_of(a, f):
    """Multiplicative order of a modulo irreducible f (small degree)."""
    n = (1 << deg(f)) - 1
    o = n
    for p in _prime_divisors(n):
        while o % p == 0 and powmod(a, o // p, f) == 1:
            o //= p
    return o


def min_poly(s):
    """Berlekamp-Massey over GF(2): returns (C, L), connection polynomial C as int
    (bit i = c_i, c_0 = 1) s.t. s[n] = sum_{i=1..L} c_i s[n-i]."""
    C, B, L, m = 1, 1, 0, 1
    for n in range(len(s)):
        d = s[n]
        for i in range(1, L + 1):
            d ^= ((C >> i) & 1) & s[n - i]
        if d == 0:
            m += 1
        elif 2 * L <= n:
            T = C
            C ^= B << m
            L = n + 1 - L
            B = T
            m = 1
        else:
            C ^= B << m
            m += 1
    return C, L


def from_octets_le(b):
    return int.from_bytes(bytes(b), 'little')


def to_octets_le(a, n):
    return a.to_bytes(n, 'little')


# --------------------------------------------------------------------------

def selftest(path=None):
    path = path or os.path.join(os.path.dirname(os.path.abspath(__file__)), 'vectors', 'polys.json')
    with open(path) as f:
        V = json.load(f)
    n = 0
    for t in V['irreducible']:
        f_ = 0
        for e in t['exps']:
            f_ ^= 1 << e
        assert is_irreducible(f_) == t['irred'], t
        n += 1
    for t in V['irred_counts']:
        # number of irreducible polynomials of degree d (necklace formula values in JSON)
        d = t['deg']
        c = sum(1 for f_ in range(1 << d, 1 << (d + 1)) if is_irreducible(f_))
        assert c == t['count'], (t, c)
        n += 1
    for t in V['primitive']:
        f_ = int(t['f'], 16)
        if 'primitive' in t:
            assert is_primitive(f_) == t['primitive'], t
        if 'alpha' in t:
            assert (order_of(int(t['alpha'], 16), f_) == (1 << deg(f_)) - 1) == t['alpha_primitive'], t
        n += 1
    for t in V['mul']:
        a, b, c = int(t['a'], 16), int(t['b'], 16), int(t['c'], 16)
        assert mul(a, b) == c and mul(b, a) == c
        q, r = divmod2(c, a)
        assert q == b and r == 0
        n += 1
    for t in V['mod']:
        a, m_, r = int(t['a'], 16), int(t['m'], 16), int(t['r'], 16)
        assert mod(a, m_) == r, t
        n += 1
    # algebraic self-consistency
    import random
    R = random.Random(1)
    for _ in range(300):
        a, b = R.getrandbits(R.randint(1, 200)), R.getrandbits(R.randint(1, 200)) | 1
        q, r = divmod2(a, b)
        assert mul(q, b) ^ r == a and deg(r) < deg(b)
        assert mul(a, b) == mul_slow(a, b) == mul(b, a)
        d, u, v = exgcd(a, b)
        assert mul(u, a) ^ mul(v, b) == d == gcd(a, b)
        if a:
            assert mod(a, d) == 0 and mod(b, d) == 0
        i = invmod(a, b)
        if i is not None:
            assert mulmod(a, i, b) == mod(1, b)
    n += 1
    print('OK %d vectors' % n)
    return 0


if __name__ == '__main__':
    if '--selftest' in sys.argv:
        sys.exit(selftest())
    print(__doc__)
