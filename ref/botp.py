#!/usr/bin/env python3
"""Specification-level reference model of one-time passwords (STB 34.101.47 / botp):
HOTP (RFC 4226), TOTP (RFC 6238), OCRA (RFC 6287) over HMAC[belt-hash].

API
---
dt(digit, mac)                       -> int   dynamic truncation (offset = low nibble of the
                                              last octet), reduced mod 10**digit
otp_str(digit, mac)                  -> str   dt() as a zero-padded decimal string
ctr_next(ctr8)                       -> bytes[8]  big-endian counter + 1 mod 2**64
hotp(key, ctr8, digit)               -> (otp_str, next_ctr8)        6 <= digit <= 8
totp(key, t, digit)                  -> otp_str   t: already rounded time (int >= 0)
ocra_parse(suite)                    -> dict | None   None: malformed suite
    keys: digit, ctr (bool), q_type ('A'|'N'|'H'), q_max, p_len, s_len, ts (seconds, 0 = no T)
ocra(suite, key, q, ctr8=None, p=None, s=None, t=None) -> (otp_str, next_ctr8 | None)
    raises ValueError on a malformed suite or 4 <= len(q) <= 2*q_max violated
selftest(path=None)                  -> (ok, n)

Suite grammar (botp.h):
  "OCRA-1:HOTP-HBELT-" d ":" ["C-"] "Q" ("A"|"N"|"H") nn ["-P" ("HBELT"|"SHA1"|"SHA256"|"SHA512")]
  ["-S" nnn] ["-T" (1..59 "S" | 1..59 "M" | 1..48 "H")],  d in 4..9, nn in 04..64, nnn in 000..512.
DataInput = suite || 00 || [C] || Q padded with zeros to 128 octets || [P] || [S] || [T as 8 octets BE].
The request q is used as given (no format conversion); t is the already rounded time stamp.
"""
import re

try:
    from . import belt
except ImportError:
    import belt


def dt(digit, mac):
    mac = bytes(mac)
    assert 4 <= digit <= 9 and len(mac) >= 20
    off = mac[-1] & 15
    return (int.from_bytes(mac[off:off + 4], 'big') & 0x7FFFFFFF) % 10 ** digit


def otp_str(digit, mac):
    return '%0*d' % (digit, dt(digit, mac))


def ctr_next(ctr):
    assert len(ctr) == 8
    return ((int.from_bytes(ctr, 'big') + 1) % 2 ** 64).to_bytes(8, 'big')


def hotp(key, ctr, digit):
    ctr = bytes(ctr)
    assert 6 <= digit <= 8 and len(ctr) == 8
    return otp_str(digit, belt.hmac(key, ctr)), ctr_next(ctr)


def totp(key, t, digit):
    assert 6 <= digit <= 8 and 0 <= t < 2 ** 64
    return otp_str(digit, belt.hmac(key, t.to_bytes(8, 'big')))


_SUITE = re.compile(
    r'OCRA-1:HOTP-HBELT-([4-9]):(C-)?Q([ANH])([0-9]{2})'
    r'(?:-P(HBELT|SHA1|SHA256|SHA512))?(?:-S([0-9]{3}))?(?:-T([1-9][0-9]?)([SMH]))?\Z')
_P_LEN = {None: 0, 'HBELT': 32, 'SHA1': 20, 'SHA256': 32, 'SHA512': 64}


def ocra_parse(suite):
    m = _SUITE.match(suite)
    if not m:
        return None
    d, c, qt, qn, p, s, tn, tu = m.groups()
    q_max, s_len = int(qn), int(s or 0)
    if not 4 <= q_max <= 64 or s_len > 512:
        return None
    ts = 0
    if tn:
        tn = int(tn)
        if tn > {'S': 59, 'M': 59, 'H': 48}[tu]:
            return None
        ts = tn * {'S': 1, 'M': 60, 'H': 3600}[tu]
    return {'digit': int(d), 'ctr': bool(c), 'q_type': qt, 'q_max': q_max,
            'p_len': _P_LEN[p], 's_len': s_len, 'ts': ts}


def ocra(suite, key, q, ctr=None, p=None, s=None, t=None):
    f = ocra_parse(suite)
    if f is None:
        raise ValueError('bad OCRA suite')
    q = bytes(q)
    if not 4 <= len(q) <= 2 * f['q_max']:
        raise ValueError('bad OCRA request length')
    data, nxt = suite.encode('ascii') + b'\0', None
    if f['ctr']:
        ctr = bytes(ctr)
        assert len(ctr) == 8
        data += ctr
        nxt = ctr_next(ctr)
    data += q.ljust(128, b'\0')
    if f['p_len']:
        assert len(p) >= f['p_len']
        data += bytes(p[:f['p_len']])
    if f['s_len']:
        assert len(s) >= f['s_len']
        data += bytes(s[:f['s_len']])
    if f['ts']:
        assert 0 <= t < 2 ** 64
        data += t.to_bytes(8, 'big')
    return otp_str(f['digit'], belt.hmac(key, data)), nxt


def selftest(path=None):
    import json
    import os
    path = path or os.path.join(os.path.dirname(os.path.abspath(__file__)), 'vectors', 'botp.json')
    with open(path) as fp:
        doc = json.load(fp)
    hx = bytes.fromhex
    bad, n = [], 0
    if hx(doc['H']) != belt.H:
        bad.append('H')
    for v in doc['vectors']:
        a, o = v['in'], v['out']
        if v['op'] == 'hotp':
            otp, nxt = hotp(hx(a['key']), hx(a['ctr']), a['digit'])
            got = {'otp': otp, 'ctr': nxt.hex().upper()}
        elif v['op'] == 'totp':
            got = {'otp': totp(hx(a['key']), a['t'], a['digit'])}
        elif v['op'] == 'ocra_format':
            got = {'valid': ocra_parse(a['suite']) is not None}
        elif v['op'] == 'ocra':
            otp, nxt = ocra(a['suite'], hx(a['key']), hx(a['q']), hx(a['ctr']), hx(a['p']), hx(a['s']), a['t'])
            got = {'otp': otp, 'ctr': nxt.hex().upper()}
        else:
            got = None
        if got != o:
            bad.append((v['id'], got, o))
        n += 1
    for b in bad:
        print('FAIL', b)
    return not bad, n


if __name__ == '__main__':
    import sys
    if '--selftest' in sys.argv:
        ok, n = selftest()
        print(('OK %d vectors' if ok else 'FAILED (%d vectors)') % n)
        sys.exit(0 if ok else 1)
    print(__doc__)
