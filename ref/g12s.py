#!/usr/bin/env python3
"""Specification-level reference model of GOST R 34.10-2012 signatures as exposed by bee2 g12s.h.

Textbook affine short-Weierstrass arithmetic over GF(p) with Python ints.

Octet layouts (g12s.h):
  params fields p, a, b, q, xP, yP   little-endian numbers; l in {256, 512}; n = cofactor
  privkey   l/8 octets little-endian d            (g12s.h text says l/4; the code and vectors use l/8)
  pubkey    2*no octets: xQ little-endian (no octets) || yQ little-endian (no), no = octet length of p
  hash      l/8 octets, BIG-endian number (formula (14)/(19) of the standard)
  sig       l/4 octets: r big-endian (l/8 octets) || s big-endian (l/8 octets)

API
---
STD_NAMES, params_std(name) -> dict(l,p,a,b,q,n,xP,yP) (ints)
params_val(P)               -> bool   (conditions of 5.2)
pubkey_calc(P, d) -> (xQ, yQ);  keypair(P, d) -> (privkey_octets, pubkey_octets)
pubkey_val(P, Q)            -> bool   in-range, on curve, not O, qQ = O
rand_nz_mod(q, tape)        -> int    how bee2 draws d, k in {1..q-1} from a gen_i (rejection sampling)
sign(P, hash, d, k)         -> sig octets | None if this k gives r = 0 or s = 0 (standard: pick new k)
sign_tape(P, hash, privkey_octets, tape) -> sig octets (errors: ValueError('BAD_PRIVKEY'))
verify(P, hash, sig, pubkey_octets_or_point, check_pubkey=True) -> bool
"""
import json
import os
import sys

sys.path.insert(0, os.path.dirname(os.path.abspath(__file__)))
import pri  # noqa: E402

# ---------------------------------------------------------------- tiny affine EC over GF(p)
O = None


def ec_on_curve(P, a, b, p):
    if P is O:
        return True
    x, y = P
    return 0 <= x < p and 0 <= y < p and (y * y - (x * x * x + a * x + b)) % p == 0


def ec_add(P, Q, a, p):
    if P is O:
        return Q
    if Q is O:
        return P
    x1, y1 = P
    x2, y2 = Q
    if x1 == x2:
        if (y1 + y2) % p == 0:
            return O
        lam = (3 * x1 * x1 + a) * pow(2 * y1, -1, p) % p
    else:
        lam = (y2 - y1) * pow(x2 - x1, -1, p) % p
    x3 = (lam * lam - x1 - x2) % p
    return x3, (lam * (x1 - x3) - y1) % p


def ec_mul(k, P, a, p):
    R = O
    while k > 0:
        if k & 1:
            R = ec_add(R, P, a, p)
        P = ec_add(P, P, a, p)
        k >>= 1
    return R


# ---------------------------------------------------------------- parameters
STD_NAMES = ["1.2.643.2.2.35.0", "1.2.643.2.2.35.1", "1.2.643.2.2.35.2", "1.2.643.2.2.35.3",
             "1.2.643.2.9.1.8.1", "1.2.643.7.1.2.1.2.0", "1.2.643.7.1.2.1.2.1", "1.2.643.7.1.2.1.2.2"]
_V = None


def _vectors():
    global _V
    if _V is None:
        with open(os.path.join(os.path.dirname(os.path.abspath(__file__)), 'vectors', 'g12s.json')) as f:
            _V = json.load(f)
    return _V


def params_std(name):
    t = _vectors()['params'].get(name)
    if t is None:
        raise KeyError(name)
    return {k: (int(v, 16) if isinstance(v, str) else v) for k, v in t.items() if k != 'title'}


def params_val(P):
    l, p, a, b, q, n, xP, yP = (P[k] for k in ('l', 'p', 'a', 'b', 'q', 'n', 'xP', 'yP'))
    if l not in (256, 512):
        return False
    if not (p > 3 and pri.is_prime(p)):
        return False
    if not (0 <= a < p and 0 <= b < p):
        return False
    if a == 0 or b == 0:  # J(E) = 0 or 1728
        return False
    if (4 * a ** 3 + 27 * b * b) % p == 0:
        return False
    lo, hi = (254, 256) if l == 256 else (508, 512)
    if not ((1 << lo) < q < (1 << hi) and pri.is_prime(q)):
        return False
    if n < 1:
        return False
    m = n * q
    # Hasse: |m - (p + 1)| <= 2 sqrt(p)
    if (m - (p + 1)) ** 2 > 4 * p:
        return False
    if m == p or q == p:
        return False
    B = 31 if l == 256 else 131
    if any(pow(p, t, q) == 1 for t in range(1, B + 1)):
        return False
    G = (xP, yP)
    if not ec_on_curve(G, a, b, p):
        return False
    if ec_mul(q, G, a, p) is not O:
        return False
    return True


def _sizes(P):
    return P['l'] // 8, (P['p'].bit_length() + 7) // 8


def pubkey_calc(P, d):
    if not 0 < d < P['q']:
        raise ValueError('BAD_PRIVKEY')
    return ec_mul(d, (P['xP'], P['yP']), P['a'], P['p'])


def keypair(P, d):
    mo, no = _sizes(P)
    x, y = pubkey_calc(P, d)
    return d.to_bytes(mo, 'little'), x.to_bytes(no, 'little') + y.to_bytes(no, 'little')


def pubkey_decode(P, pubkey):
    mo, no = _sizes(P)
    pubkey = bytes(pubkey)
    if len(pubkey) != 2 * no:
        raise ValueError('BAD_INPUT')
    return int.from_bytes(pubkey[:no], 'little'), int.from_bytes(pubkey[no:], 'little')


def pubkey_val(P, Q):
    if Q is O:
        return False
    return ec_on_curve(Q, P['a'], P['b'], P['p']) and ec_mul(P['q'], Q, P['a'], P['p']) is O


def rand_nz_mod(q, tape, tries=65):
    """bee2 zzRandNZMod: read ceil(bitlen(q)/8) octets (little-endian), keep the low bitlen(q) bits,
    accept iff 0 < a < q."""
    l = q.bit_length()
    for _ in range(tries):
        a = int.from_bytes(tape.read((l + 7) // 8), 'little') & ((1 << l) - 1)
        if 0 < a < q:
            return a
    raise ValueError('BAD_RNG')


def hash_to_e(P, h):
    mo, _ = _sizes(P)
    h = bytes(h)
    if len(h) != mo:
        raise ValueError('BAD_INPUT')
    e = int.from_bytes(h, 'big') % P['q']
    return e if e else 1


def sign(P, h, d, k):
    """Steps 2-6 of the signing algorithm with the one-time key k given."""
    q = P['q']
    mo, _ = _sizes(P)
    if not 0 < d < q:
        raise ValueError('BAD_PRIVKEY')
    if not 0 < k < q:
        raise ValueError('bad k')
    e = hash_to_e(P, h)
    C = ec_mul(k, (P['xP'], P['yP']), P['a'], P['p'])
    r = C[0] % q
    if r == 0:
        return None
    s = (r * d + k * e) % q
    if s == 0:
        return None
    return r.to_bytes(mo, 'big') + s.to_bytes(mo, 'big')


class _Tape:
    def __init__(self, data):
        self.data, self.pos = bytes(data), 0

    def read(self, n):
        if self.pos + n > len(self.data):
            raise EOFError
        self.pos += n
        return self.data[self.pos - n:self.pos]


def sign_tape(P, h, privkey, tape):
    mo, _ = _sizes(P)
    tape = tape if hasattr(tape, 'read') else _Tape(tape)
    if len(privkey) != mo:
        raise ValueError('BAD_INPUT')
    d = int.from_bytes(privkey, 'little')
    if not 0 < d < P['q']:
        raise ValueError('BAD_PRIVKEY')
    while True:
        k = rand_nz_mod(P['q'], tape)
        sig = sign(P, h, d, k)
        if sig is not None:
            return sig


def verify(P, h, sig, pubkey, check_pubkey=True):
    q = P['q']
    mo, _ = _sizes(P)
    sig = bytes(sig)
    if len(sig) != 2 * mo:
        raise ValueError('BAD_INPUT')
    Q = pubkey if isinstance(pubkey, tuple) else pubkey_decode(P, pubkey)
    if not (0 <= Q[0] < P['p'] and 0 <= Q[1] < P['p']):
        return False
    if check_pubkey and not ec_on_curve(Q, P['a'], P['b'], P['p']):
        return False
    r = int.from_bytes(sig[:mo], 'big')
    s = int.from_bytes(sig[mo:], 'big')
    if not (0 < r < q and 0 < s < q):
        return False
    e = hash_to_e(P, h)
    v = pow(e, -1, q)
    z1 = s * v % q
    z2 = -r * v % q
    C = ec_add(ec_mul(z1, (P['xP'], P['yP']), P['a'], P['p']), ec_mul(z2, Q, P['a'], P['p']), P['a'], P['p'])
    if C is O:
        return False
    return C[0] % q == r


# ---------------------------------------------------------------- selftest
def selftest(path=None):
    global _V
    if path:
        with open(path) as f:
            _V = json.load(f)
    V = _vectors()
    n = 0
    assert sorted(V['params']) == sorted(STD_NAMES)
    for name in STD_NAMES:
        assert params_val(params_std(name)), name
        n += 1
    for t in V['keypair']:
        P = params_std(t['params'])
        priv, pub = keypair(P, int.from_bytes(bytes.fromhex(t['privkey']), 'little'))
        assert priv.hex() == t['privkey'] and pub.hex() == t['pubkey'], t
        assert pubkey_val(P, pubkey_decode(P, pub))
        tp = _Tape(bytes.fromhex(t['tape']))
        assert rand_nz_mod(P['q'], tp).to_bytes(len(priv), 'little') == priv
        n += 1
    for t in V['sign']:
        P = params_std(t['params'])
        h, priv = bytes.fromhex(t['hash']), bytes.fromhex(t['privkey'])
        sig = sign_tape(P, h, priv, bytes.fromhex(t['tape']))
        assert sig.hex() == t['sig'], (t, sig.hex())
        pub = bytes.fromhex(t['pubkey'])
        assert verify(P, h, sig, pub)
        bad = bytes([sig[0] ^ 1]) + sig[1:]
        assert not verify(P, h, bad, pub)
        n += 2
    for t in V['params_invalid']:
        P = params_std(t['params'])
        P[t['field']] = int(t['value'], 16) if isinstance(t['value'], str) else t['value']
        assert not params_val(P), t
        n += 1
    print('OK %d vectors' % n)
    return 0


if __name__ == '__main__':
    if '--selftest' in sys.argv:
        sys.exit(selftest())
    print(__doc__)
