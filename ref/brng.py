#!/usr/bin/env python3
"""Specification-level reference model of STB 34.101.47 generators (brng) over belt-hash.

API
---
CTR(key32, iv32=None)               brng-ctr (algorithm 6.2.4) as a generator object
    .step(nbytes, prior=None) -> bytes   like brngCTRStepR(buf, nbytes): `prior` is the
                                         buffer's previous content (additional input X,
                                         zeros by default, len(prior) == nbytes)
    .get_iv()                 -> bytes[32]   like brngCTRStepG: current value of s
ctr_rand(key32, iv32, nbytes, buf=None) -> (bytes, iv32')   like brngCTRRand
HMAC(key, iv)                       brng-hmac (algorithm 6.3.4), any key / iv length
    .step(nbytes)             -> bytes
hmac_rand(key, iv, nbytes)  -> bytes  like brngHMACRand
selftest(path=None)         -> (ok, n)

Algorithm CTR: s <- S, r <- ~S; per 256-bit block  Y_t <- belt-hash(K || s || X_t || r),
s <- s [+] <1>_256 (a 256-bit little-endian number, modulo 2**256), r <- r ^ Y_t.
Algorithm HMAC: r <- hmac(K, S); per block  Y_t <- hmac(K, r || S), r <- hmac(K, r)
(this order is fixed by the appendix vector B.4).

Buffering (C API semantics, see `reserved` in brng.h): blocks are 32 octets; the unread
tail of the last block is returned first by the next step() and the corresponding
octets of `prior` are skipped (not used as X).  A ragged X_t is padded with zeros.
"""
try:
    from . import belt
except ImportError:
    import belt


class CTR:
    def __init__(self, key, iv=None):
        key = bytes(key)
        assert len(key) == 32
        iv = bytes(32) if iv is None else bytes(iv)
        assert len(iv) == 32
        self.key = key
        self.s = int.from_bytes(iv, 'little')
        self.r = self.s ^ (2 ** 256 - 1)
        self.tail = b''

    def _block(self, x):
        s, r = self.s.to_bytes(32, 'little'), self.r.to_bytes(32, 'little')
        y = belt.hash(self.key + s + x.ljust(32, b'\0') + r)
        self.s = (self.s + 1) % 2 ** 256
        self.r ^= int.from_bytes(y, 'little')
        return y

    def step(self, nbytes, prior=None):
        prior = bytes(nbytes) if prior is None else bytes(prior)
        assert len(prior) == nbytes
        out = self.tail[:nbytes]
        self.tail = self.tail[nbytes:]
        while len(out) < nbytes:
            x = prior[len(out):len(out) + 32]
            y = self._block(x)
            out += y[:len(x)]
            self.tail = y[len(x):]
        return out

    def get_iv(self):
        return self.s.to_bytes(32, 'little')


def ctr_rand(key, iv, nbytes, buf=None):
    g = CTR(key, iv)
    out = g.step(nbytes, buf)
    return out, g.get_iv()


class HMAC:
    def __init__(self, key, iv):
        self.key, self.iv = bytes(key), bytes(iv)
        self.r = belt.hmac(self.key, self.iv)
        self.tail = b''

    def step(self, nbytes):
        out = self.tail[:nbytes]
        self.tail = self.tail[nbytes:]
        while len(out) < nbytes:
            y = belt.hmac(self.key, self.r + self.iv)
            self.r = belt.hmac(self.key, self.r)
            take = nbytes - len(out)
            out += y[:take]
            self.tail = y[take:]
        return out


def hmac_rand(key, iv, nbytes):
    return HMAC(key, iv).step(nbytes)


def selftest(path=None):
    import json
    import os
    path = path or os.path.join(os.path.dirname(os.path.abspath(__file__)), 'vectors', 'brng.json')
    with open(path) as fp:
        doc = json.load(fp)
    hx = bytes.fromhex
    bad, n = [], 0
    if hx(doc['H']) != belt.H:
        bad.append('H')
    for v in doc['vectors']:
        a = v['in']
        data, ivs, pos = b'', [], 0
        if v['op'] == 'ctr':
            g, prior = CTR(hx(a['key']), hx(a['iv'])), hx(a['prior'])
            for st in a['steps']:
                if st == 'get_iv':
                    ivs.append(g.get_iv().hex())
                else:
                    data += g.step(st, prior[pos:pos + st])
                    pos += st
            whole = ctr_rand(hx(a['key']), hx(a['iv']), len(prior[:pos]), prior[:pos])[0]
        else:
            g = HMAC(hx(a['key']), hx(a['iv']))
            for st in a['steps']:
                data += g.step(st)
            whole = hmac_rand(hx(a['key']), hx(a['iv']), len(data))
        if data.hex() != v['out']['data'].lower() or [i.lower() for i in v['out'].get('iv', [])] != ivs:
            bad.append(v['id'])
        # B.2 uses only block-aligned steps and B.4 has no additional input: one-shot must agree
        if whole != data:
            bad.append(v['id'] + ':oneshot')
        n += 1
    for b in bad:
        print('FAIL', b)
    return not bad, n


if __name__ == '__main__':
    import sys
    if '--selftest' in sys.argv:
        ok, n = selftest()
        print(('OK %d vectors' if ok else 'FAILED (%d vectors)') % n)
        sys.exit(0 if ok else 1)
    print(__doc__)
