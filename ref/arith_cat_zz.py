"""C05 catalogue, part zz.h: multiple-precision unsigned integers, modular arithmetic, reductions, powers."""
import math
from arith_catalogue import *   # noqa

G = dict(group='zz')
def Bn(v, n=None):
    return 1 << ((v.n if n is None else n) * v.W)
AB = dict(a=D_num('n'), b=D_num('n'))
C3 = ('c=a', 'c=b', 'a=b', 'c=a=b')

def addc(t, n, W):
    return t & ((1 << (n * W)) - 1), t >> (n * W)
def subb(t, n, W):
    """value and borrow word of a difference t (may be negative): c - B^n * borrow == t"""
    m = 1 << (n * W)
    return t % m, (t % m - t) // m

Fn('zzIsEven', 'bool', 'a:in[n] n:len', rng(), dict(a=D_num('n')), f=lambda v: dict(ret=v.a % 2 == 0), **G)
Fn('zzIsOdd', 'bool', 'a:in[n] n:len', rng(), dict(a=D_num('n')), f=lambda v: dict(ret=v.a % 2 == 1), **G)

# ---- additive
def f_add(v): c, k = addc(v.a + v.b, v.n, v.W); return dict(c=c, ret=k)
Fn('zzAdd', 'word', 'c:out[n] a:in[n] b:in[n] n:len', rng(), AB, f=f_add, alias=C3, **G)
def f_add2(v): c, k = addc(v.a + v.b, v.n, v.W); return dict(b=c, ret=k)
Fn('zzAdd2', 'word', 'b:io[n] a:in[n] n:len', rng(), AB, f=f_add2, alias=('b=a',), **G)
def f_add3(v): c, k = addc(v.a + v.b, max(v.n, v.m), v.W); return dict(c=c, ret=k)
Fn('zzAdd3', 'word', 'c:out[max(n,m)] a:in[n] n:len b:in[m] m:len', rng2(), dict(a=D_num('n'), b=D_num('m')), f=f_add3,
   alias=('c=a', 'c=b', 'a=b', 'c=a=b'), **G)
def f_addw(v): c, k = addc(v.a + v.w, v.n, v.W); return dict(b=c, ret=k)
Fn('zzAddW', 'word', 'b:out[n] a:in[n] n:len w:w', rng(), dict(a=D_num('n'), w=D_word), f=f_addw, alias=('b=a',), **G)
def f_addw2(v): c, k = addc(v.a + v.w, v.n, v.W); return dict(a=c, ret=k)
Fn('zzAddW2', 'word', 'a:io[n] n:len w:w', rng(), dict(a=D_num('n'), w=D_word), f=f_addw2, **G)

def sum_dom(v, sh, W):
    n = sh['n']; m = (1 << (n * W)) - 1; s = v.a + v['b' if 'b' in v else 'w']
    r = [s & m, (s + 1) & m, (s - 1) & m, s ^ 1 if s <= m else 0, v.a, v.a ^ v.get('b', 0), 0, m]
    if n:
        r += [(s & m) ^ 1 << (n * W - 1), (s & m) ^ 1 << ((n - 1) * W), (s & m) ^ 1 << (n * W // 2)]
    return [x & m for x in r]
Fn('zzIsSumEq', 'bool', 'c:in[n] a:in[n] b:in[n] n:len', rng(), dict(a=D_num('n'), b=D_num('n'), c=D_list(sum_dom)),
   f=lambda v: dict(ret=v.a + v.b == v.c), alias=('a=b', 'c=a', 'c=b'), fast=True, **G)
Fn('zzIsSumWEq', 'bool', 'b:in[n] a:in[n] n:len w:w', rng(), dict(a=D_num('n'), w=D_word, b=D_list(sum_dom)),
   f=lambda v: dict(ret=v.a + v.w == v.b), alias=('b=a',), fast=True, **G)

def f_sub(v): c, k = subb(v.a - v.b, v.n, v.W); return dict(c=c, ret=k)
Fn('zzSub', 'word', 'c:out[n] a:in[n] b:in[n] n:len', rng(), AB, f=f_sub, alias=C3, **G)
def f_sub2(v): c, k = subb(v.b - v.a, v.n, v.W); return dict(b=c, ret=k)
Fn('zzSub2', 'word', 'b:io[n] a:in[n] n:len', rng(), AB, f=f_sub2, alias=('b=a',), **G)
def f_subw(v): c, k = subb(v.a - v.w, v.n, v.W); return dict(b=c, ret=k)
Fn('zzSubW', 'word', 'b:out[n] a:in[n] n:len w:w', rng(), dict(a=D_num('n'), w=D_word), f=f_subw, alias=('b=a',),
   note='borrow judged by the identity b - B^n * borrow == a - w (equals the predicate (a < w) for n >= 1)', **G)
def f_subw2(v): c, k = subb(v.a - v.w, v.n, v.W); return dict(a=c, ret=k)
Fn('zzSubW2', 'word', 'a:io[n] n:len w:w', rng(), dict(a=D_num('n'), w=D_word), f=f_subw2, **G)
Fn('zzNeg', 'void', 'b:out[n] a:in[n] n:len', rng(), dict(a=D_num('n')), f=lambda v: dict(b=-v.a % Bn(v)), alias=('b=a',), **G)

# ---- multiplicative
def f_mulw(v): c, k = addc(v.a * v.w, v.n, v.W); return dict(b=c, ret=k)
Fn('zzMulW', 'word', 'b:out[n] a:in[n] n:len w:w', rng(), dict(a=D_num('n'), w=D_word), f=f_mulw, alias=('b=a',), **G)
def f_addmulw(v): c, k = addc(v.b + v.a * v.w, v.n, v.W); return dict(b=c, ret=k)
Fn('zzAddMulW', 'word', 'b:io[n] a:in[n] n:len w:w', rng(), dict(a=D_num('n'), b=D_num('n'), w=D_word), f=f_addmulw, alias=('b=a',), **G)
def f_submulw(v): c, k = subb(v.b - v.a * v.w, v.n, v.W); return dict(b=c, ret=k)
Fn('zzSubMulW', 'word', 'b:io[n] a:in[n] n:len w:w', rng(), dict(a=D_num('n'), b=D_num('n'), w=D_word), f=f_submulw, alias=('b=a',),
   note='borrow WORD judged by the identity b\' - B^n * borrow == b - a * w', **G)
Fn('zzMul', 'void', 'c:out[n+m] a:in[n] n:len b:in[m] m:len stack:stack[zzMul_deep(n,m)]', rng2(), dict(a=D_num('n'), b=D_num('m')),
   f=lambda v: dict(c=v.a * v.b), alias=('a=b',), **G)
Fn('zzSqr', 'void', 'b:out[2*n] a:in[n] n:len stack:stack[zzSqr_deep(n)]', rng(), dict(a=D_num('n')), f=lambda v: dict(b=v.a * v.a), **G)

def sqrt_dom(v, sh, W):
    n = sh['n']; r = list(num_full(n, W)); top = 1 << (n * W)
    for x in num_core((n + 1) // 2, W) + [math.isqrt(top - 1), math.isqrt(top - 1) - 1, math.isqrt(top // 2), 3, (1 << W) - 1, 1 << W]:
        r += [x * x, x * x - 1, x * x + 1, x * x + 2 * x]
    return [x for x in r if 0 <= x < top]
Fn('zzSqrt', 'bool', 'b:out[(n+1)//2] a:in[n] n:len stack:stack[zzSqrt_deep(n)]', rng(), dict(a=D_list(sqrt_dom)),
   f=lambda v: dict(b=math.isqrt(v.a), ret=math.isqrt(v.a) ** 2 == v.a), **G)
Fn('zzDivW', 'word', 'q:out[n] a:in[n] n:len w:w', rng(), dict(a=D_num('n'), w=D_word_nz),
   f=lambda v: dict(q=v.a // v.w, ret=v.a % v.w), alias=('q=a',), **G)
Fn('zzModW', 'word', 'a:in[n] n:len w:w', rng(), dict(a=D_num('n'), w=D_word_nz), f=lambda v: dict(ret=v.a % v.w), **G)
Fn('zzModW2', 'word', 'a:in[n] n:len w:w', rng(), dict(a=D_num('n'), w=D_word_small), pre=lambda v: 0 < v.w and v.w * v.w <= v.B,
   f=lambda v: dict(ret=v.a % v.w), **G)

def div_dom(v, sh, W):
    """dividends that stress the quotient-digit estimate: multiples of b, b*q +- 1, maximal quotient digits"""
    n, m = sh['n'], sh['m']; b = v.b; top = 1 << (n * W); B = 1 << W
    r = list(num_full(n, W) if max(n, m) <= 4 else num_core(n, W)) + [top - 1, top // 2]
    for q in (1, 2, B - 1, B, B + 1, (top - 1) // b, (top - 1) // b - 1, (1 << max(0, (n - m) * W)) - 1, 1 << max(0, (n - m) * W), fint('dq', max(0, n - m + 1) * W)):
        for d in (0, 1, -1, b - 1, b // 2):
            r.append(q * b + d)
    # Knuth D: u = (b_top, b_top - 1, ...) makes the first estimate exceed B - 1
    if m >= 2 and n >= m:
        bt = b >> ((m - 1) * W)
        r.append((bt << ((n - 1) * W)) | ((1 << ((n - 1) * W)) - 1))
        r.append((b << ((n - m) * W)) - 1)
        r.append((b >> W) << ((n - m + 1) * W))
    # a partial remainder b - 1 (b - 2) at every word position j: when the normalised leading word of b is all ones the leading word of the
    # running remainder is all ones too -- quotient-digit estimate and multiply-subtract borrow both B - 1, the boundary of the corrective addition
    if m >= 1 and n > m:
        for j in range(1, n - m + 1):
            for s_ in (0, 1, B - 2):
                for r1 in (b - 1, b - 2):
                    if r1 >= 0:
                        hi = (s_ * b + r1) << (j * W)
                        r += [hi | ((1 << (j * W)) - 1), hi, hi | (b >> 1)]
    return [x for x in r if 0 <= x < top]
def divisor_dom(lenexpr):
    def d(v, sh, W, name):
        n = ev(lenexpr, sh, W); B = 1 << W; t = (n - 1) * W
        if n == 0:
            return [], []
        full = [x for x in num_full(n, W) if x >> t]
        full += [1 << t, (1 << t) + 1, (B // 2) << t, (B // 2) << t | ((1 << t) - 1), (B // 2 + 1) << t, (B - 1) << t, (1 << t) | ((1 << t) - 1),
                 ((B // 2) << t) + (1 << max(0, t - W)) * (B - 1) if n >= 2 else B // 2]
        full = list(dict.fromkeys(x for x in full if x >> t and x < 1 << (n * W)))
        return full, full
    d.outer = True
    return d
def f_div(v): q, r = divmod(v.a, v.b); return dict(q=q, r=r)
Fn('zzDiv', 'void', 'q:out[n-m+1] r:out[m] a:in[n] n:len b:in[m] m:len stack:stack[zzDiv_deep(n,m)]', rng2(1, 1, lambda n, m: n >= m),
   dict(b=divisor_dom('m'), a=D_list(div_dom)), f=f_div, alias=('r=a',), **G)
Fn('zzMod', 'void', 'r:out[m] a:in[n] n:len b:in[m] m:len stack:stack[zzMod_deep(n,m)]', rng2(0, 1),
   dict(b=divisor_dom('m'), a=D_list(div_dom)), f=lambda v: dict(r=v.a % v.b), alias=('r=a',), **G)

# ---- Euclid
def gcd_dom(other, lenexpr):
    def d(v, sh, W, name):
        n = ev(lenexpr, sh, W); top = 1 << (n * W)
        full = [x for x in num_full(n, W) if x]
        if other in v:
            o = v[other]
            full += [o, 2 * o, 3 * o, o // 2, o + 1, o - 1, o >> W, o << W, o * (1 << W) - o, math.gcd(o, 1 << 200) * 3]
        full += [pow3_below(top), 2 * pow3_below(top // 2) if n else 0, prime_below(n * W) if n else 0]
        full = list(dict.fromkeys(x for x in full if 0 < x < top))
        core = [x for x in num_core(n, W) if x] + full[-3:]
        return full, list(dict.fromkeys(core))
    return d
GD = dict(a=gcd_dom('-', 'n'), b=gcd_dom('a', 'm'))
Fn('zzGCD', 'void', 'd:out[min(n,m)] a:in[n] n:len b:in[m] m:len stack:stack[zzGCD_deep(n,m)]', rng2(1, 1), GD,
   pre=lambda v: v.a and v.b, f=lambda v: dict(d=math.gcd(v.a, v.b)), alias=('a=b',), **G)
Fn('zzIsCoprime', 'bool', 'a:in[n] n:len b:in[m] m:len stack:stack[zzIsCoprime_deep(n,m)]', rng2(),
   dict(a=D_num('n'), b=D_list(lambda v, sh, W: num_full(sh['m'], W) + [x for x in (v.a, v.a + 1, 2 * v.a, 3) if x < 1 << (sh['m'] * W)])),
   f=lambda v: dict(ret=math.gcd(v.a, v.b) == 1), **G)
Fn('zzLCM', 'void', 'd:out[n+m] a:in[n] n:len b:in[m] m:len stack:stack[zzLCM_deep(n,m)]', rng2(1, 1), GD,
   pre=lambda v: v.a and v.b, f=lambda v: dict(d=v.a * v.b // math.gcd(v.a, v.b)), alias=('a=b',), **G)
def ck_exgcd(v, got):
    d = math.gcd(v.a, v.b)
    if got['d'] != d:
        return 'd = %x, gcd = %x' % (got['d'], d)
    if got['da'] * v.a - got['db'] * v.b != d:
        return 'da * a - db * b != d (da = %x, db = %x, d = %x)' % (got['da'], got['db'], d)
    return None
Fn('zzExGCD', 'void', 'd:out[min(n,m)] da:out[m] db:out[n] a:in[n] n:len b:in[m] m:len stack:stack[zzExGCD_deep(n,m)]', rng2(1, 1), GD,
   pre=lambda v: v.a and v.b, check=ck_exgcd, alias=('a=b',), **G)

def jacobi(a, b):
    """Jacobi symbol by the reciprocity law (b odd, positive)"""
    assert b > 0 and b & 1
    a %= b; t = 1
    while a:
        while a % 2 == 0:
            a //= 2
            if b % 8 in (3, 5):
                t = -t
        a, b = b, a
        if a % 4 == 3 and b % 4 == 3:
            t = -t
        a %= b
    return t if b == 1 else 0
Fn('zzJacobi', 'int', 'a:in[n] n:len b:in[m] m:len stack:stack[zzJacobi_deep(n,m)]', rng2(0, 1),
   dict(b=D_list(lambda v, sh, W: [x | 1 for x in num_full(sh['m'], W)] + [3, 5, 7, 9, 15] + [x for x in (prime_below(sh['m'] * W), pow3_below(1 << sh['m'] * W)) if x & 1]),
        a=D_list(lambda v, sh, W: num_full(sh['n'], W) + [x for x in (v.b, v.b - 1, v.b + 1, 2 * v.b, v.b // 3, 3 * v.b) if x < 1 << (sh['n'] * W)])),
   pre=lambda v: v.b & 1 and v.b < 1 << (v.m * v.W), f=lambda v: dict(ret=jacobi(v.a, v.b)), **G)

# ---- modular arithmetic
MAB = dict(mod=D_mod(), a=D_lt(), b=D_lt())
MOAB = dict(mod=D_mod('odd'), a=D_lt(), b=D_lt())
Fn('zzAddMod', 'void', 'c:out[n] a:in[n] b:in[n] mod:in[n] n:len', rng(1), MAB, f=lambda v: dict(c=(v.a + v.b) % v.mod), alias=C3, fast=True, **G)
Fn('zzSubMod', 'void', 'c:out[n] a:in[n] b:in[n] mod:in[n] n:len', rng(1), MAB, f=lambda v: dict(c=(v.a - v.b) % v.mod), alias=C3, fast=True, **G)
Fn('zzAddWMod', 'void', 'b:out[n] a:in[n] w:w mod:in[n] n:len', rng(1), dict(mod=D_mod(), a=D_lt(), w=D_wlt()),
   f=lambda v: dict(b=(v.a + v.w) % v.mod), alias=('b=a',), fast=True, **G)
Fn('zzSubWMod', 'void', 'b:out[n] a:in[n] w:w mod:in[n] n:len', rng(1), dict(mod=D_mod(), a=D_lt(), w=D_wlt()),
   f=lambda v: dict(b=(v.a - v.w) % v.mod), alias=('b=a',), fast=True, **G)
Fn('zzNegMod', 'void', 'b:out[n] a:in[n] mod:in[n] n:len', rng(1), dict(mod=D_mod(), a=D_lt()),
   f=lambda v: dict(b=-v.a % v.mod), alias=('b=a',), fast=True, **G)
Fn('zzDoubleMod', 'void', 'b:out[n] a:in[n] mod:in[n] n:len', rng(1), dict(mod=D_mod(), a=D_lt()),
   f=lambda v: dict(b=2 * v.a % v.mod), alias=('b=a',), fast=True, **G)
Fn('zzHalfMod', 'void', 'b:out[n] a:in[n] mod:in[n] n:len', rng(1), dict(mod=D_mod('odd'), a=D_lt()),
   f=lambda v: dict(b=v.a * pow(2, -1, v.mod) % v.mod), alias=('b=a',), fast=True, **G)
Fn('zzMulMod', 'void', 'c:out[n] a:in[n] b:in[n] mod:in[n] n:len stack:stack[zzMulMod_deep(n)]', rng(1), MAB,
   f=lambda v: dict(c=v.a * v.b % v.mod), alias=('a=b',), **G)
Fn('zzMulWMod', 'void', 'b:out[n] a:in[n] w:w mod:in[n] n:len stack:stack[zzMulWMod_deep(n)]', rng(1), dict(mod=D_mod(), a=D_lt(), w=D_word),
   f=lambda v: dict(b=v.a * v.w % v.mod), **G)
Fn('zzSqrMod', 'void', 'b:out[n] a:in[n] mod:in[n] n:len stack:stack[zzSqrMod_deep(n)]', rng(1), dict(mod=D_mod(), a=D_lt()),
   f=lambda v: dict(b=v.a * v.a % v.mod), **G)
def inv_or_0(a, mod):
    return pow(a, -1, mod) if math.gcd(a, mod) == 1 else None
def f_invmod(v):
    i = inv_or_0(v.a, v.mod)
    return dict(b=0 if i is None else i)
def f_divmod(v):
    i = inv_or_0(v.a, v.mod)
    return dict(b=0 if i is None else v.divident * i % v.mod)
Fn('zzInvMod', 'void', 'b:out[n] a:in[n] mod:in[n] n:len stack:stack[zzInvMod_deep(n)]', rng(1), dict(mod=D_mod('odd'), a=D_lt()),
   f=f_invmod, risky=lambda v: v.a == 0, **G)
Fn('zzDivMod', 'void', 'b:out[n] divident:in[n] a:in[n] mod:in[n] n:len stack:stack[zzDivMod_deep(n)]', rng(1),
   dict(mod=D_mod('odd'), a=D_lt(), divident=D_lt()), f=f_divmod, alias=('divident=a',), risky=lambda v: v.a == 0, **G)
def ck_almost(v, got):
    l = v.mod.bit_length(); k = got['ret']
    if math.gcd(v.a, v.mod) != 1:
        return None if got['b'] == 0 else 'gcd(a, mod) != 1 but b = %x (header: b <- 0)' % got['b']
    if not l <= k <= 2 * l:
        return 'k = %d outside [%d, %d]' % (k, l, 2 * l)
    want = pow(v.a, -1, v.mod) * pow(2, k, v.mod) % v.mod
    return None if got['b'] == want else 'b = %x, a^-1 2^k mod mod = %x (k = %d)' % (got['b'], want, k)
Fn('zzAlmostInvMod', 'size', 'b:out[n] a:in[n] mod:in[n] n:len stack:stack[zzAlmostInvMod_deep(n)]', rng(1), dict(mod=D_mod('odd'), a=D_lt()),
   pre=lambda v: 0 < v.a < v.mod, check=ck_almost, **G)

# ---- reductions (a is [2n] on input, the residue is [n]a; the upper n words are unspecified afterwards)
def D_red(mont=False):
    def d(v, sh, W, name):
        n = sh['n']; bound = v.mod << (n * W) if mont else 1 << (2 * n * W)
        r = red_inputs(v.mod, n, W, bound)
        return r, r
    return d
def lo(v, x):
    return ('lo', v.n, x)          # only the low n words are specified
Fn('zzRed', 'void', 'a:io[2*n] mod:in[n] n:len stack:stack[zzRed_deep(n)]', rng(1), dict(mod=D_mod(), a=D_red()),
   f=lambda v: dict(a=lo(v, v.a % v.mod)), **G)
Fn('zzRedCrand', 'void', 'a:io[2*n] mod:in[n] n:len stack:stack[zzRedCrand_deep(n)]', rng(2), dict(mod=D_mod('crand'), a=D_red()),
   f=lambda v: dict(a=lo(v, v.a % v.mod)), fast=True, **G)
Fn('zzRedBarrStart', 'void', 'barr_param:out[n+2] mod:in[n] n:len stack:stack[zzRedBarrStart_deep(n)]', rng(1), dict(mod=D_mod()),
   f=lambda v: dict(barr_param=(1 << (2 * v.n * v.W)) // v.mod), **G)
Fn('zzRedBarr', 'void', 'a:io[2*n] mod:in[n] n:len barr_param:in[n+2] stack:stack[zzRedBarr_deep(n)]', rng(1),
   dict(mod=D_mod(), barr_param=D_list(lambda v, sh, W: [(1 << (2 * sh['n'] * W)) // v.mod]), a=D_red()),
   f=lambda v: dict(a=lo(v, v.a % v.mod)), fast=True, **G)
def f_mont(v):
    return dict(a=lo(v, v.a * pow(Bn(v), -1, v.mod) % v.mod))
def mp_dom(v, sh, W):
    return [-pow(v.mod, -1, 1 << W) % (1 << W)]          # wordNegInv(mod[0])
Fn('zzRedMont', 'void', 'a:io[2*n] mod:in[n] n:len mont_param:w stack:stack[zzRedMont_deep(n)]', rng(1),
   dict(mod=D_mod('odd'), mont_param=D_list(mp_dom), a=D_red(True)), pre=lambda v: v.a < v.mod << (v.n * v.W), f=f_mont, fast=True, **G)
Fn('zzRedCrandMont', 'void', 'a:io[2*n] mod:in[n] n:len mont_param:w stack:stack[zzRedCrandMont_deep(n)]', rng(2),
   dict(mod=D_mod('crandodd'), mont_param=D_list(mp_dom), a=D_red(True)), pre=lambda v: v.a < v.mod << (v.n * v.W), f=f_mont, fast=True, **G)

# ---- powers
def exp_dom(v, sh, W):
    m = sh['m']; r = list(num_core(m, W)) + [2, 3, 4, 5, 7, 8, 0xAB, 1 << W // 2]
    r += [v.mod - 1, v.mod - 2, v.mod, (v.mod - 1) // 2, fint('ex%d' % m, m * W), fint('ex%d' % m, m * W) | 1 << max(0, m * W - 1), (1 << (m * W)) - 1]
    return [x for x in r if 0 <= x < 1 << (m * W)]
Fn('zzPowerMod', 'void', 'c:out[n] a:in[n] n:len b:in[m] m:len mod:in[n] stack:stack[zzPowerMod_deep(n,m)]',
   lambda N, W: [dict(n=n, m=m) for n in range(1, N + 1) for m in (0, 1, 2, 3, 4, 5) if m <= 2 or n <= 6],
   dict(mod=D_mod(), a=D_list(lambda v, sh, W: elems(v.mod, sh['n'], W)[:12]), b=D_list(exp_dom)),
   f=lambda v: dict(c=pow(v.a, v.b, v.mod)), **G)
def pw_mod_dom(v, sh, W):
    return [m for m in moduli(1, W) ] + [1]
Fn('zzPowerModW', 'word', 'a:w b:w mod:w stack:stack[zzPowerModW_deep()]', lambda N, W: [dict()],
   dict(mod=D_list(pw_mod_dom), a=D_list(lambda v, sh, W: [x for x in elems(v.mod, 1, W)] + [v.mod, v.mod + 1, (1 << W) - 1]),
        b=D_list(lambda v, sh, W: word_full(W) + list(range(3, 40)) + [v.mod - 1, v.mod - 2])),
   pre=lambda v: v.mod != 0 and 0 <= v.a < v.B and 0 <= v.b < v.B, f=lambda v: dict(ret=pow(v.a, v.b, v.mod)), **G)

def selftest():
    # Jacobi against Euler's criterion on primes and multiplicativity on composites
    ps = [3, 5, 7, 11, 13, 101, 65537]
    for p in ps:
        for a in range(0, 3 * p, max(1, p // 50)):
            e = pow(a, (p - 1) // 2, p); e = -1 if e == p - 1 else e
            assert jacobi(a, p) == e
    for p in ps[:5]:
        for q in ps[:5]:
            for a in range(60):
                assert jacobi(a, p * q) == jacobi(a, p) * jacobi(a, q)
    assert subb(-5, 0, 64) == (0, 5) and subb(3 - 5, 1, 64) == ((1 << 64) - 2, 1) and addc(7, 0, 64) == (0, 7)

# classes of inputs (keys of violations group by them)
def _cls_inv(v):
    if v.a == 0: return 'a=0'
    if math.gcd(v.a, v.mod) != 1: return 'gcd(a,mod)!=1'
    return None
for _n in ('zzInvMod', 'zzDivMod', 'zzAlmostInvMod'):
    CAT[_n].cls = _cls_inv
CAT['zzJacobi'].cls = lambda v: 'n<m' if v.n < v.m else None
CAT['zzPowerModW'].cls = lambda v: 'a>=mod' if v.a >= v.mod else ('mod=1' if v.mod == 1 else None)
CAT['zzSubW'].cls = CAT['zzSubW2'].cls = lambda v: 'n=0' if v.n == 0 else None
for _n in ('zzGCD', 'zzLCM', 'zzExGCD', 'zzIsCoprime', 'zzJacobi', 'zzInvMod', 'zzDivMod', 'zzAlmostInvMod'):
    CAT[_n].weight = 3
CAT['zzPowerMod'].weight = 8
