"""C05 catalogue, part ww.h: words of arbitrary length (bit strings in machine words)."""
from arith_catalogue import *   # noqa

def M(v, n=None):
    return (1 << ((v.n if n is None else n) * v.W)) - 1

G = dict(group='ww')
AB = dict(a=D_num('n'), b=D_num('n'))

Fn('wwCopy', 'void', 'b:out[n] a:in[n] n:len', rng(), dict(a=D_num('n')), f=lambda v: dict(b=v.a), alias=('b=a',), **G)
Fn('wwSwap', 'void', 'a:io[n] b:io[n] n:len', rng(), AB, f=lambda v: dict(a=v.b, b=v.a), **G)
Fn('wwEq', 'bool', 'a:in[n] b:in[n] n:len', rng(), AB, f=lambda v: dict(ret=v.a == v.b), alias=('a=b',), fast=True, **G)
Fn('wwCmp', 'int', 'a:in[n] b:in[n] n:len', rng(), AB, f=lambda v: dict(ret=sgn(v.a - v.b)), alias=('a=b',), fast=True, **G)
Fn('wwCmp2', 'int', 'a:in[n] n:len b:in[m] m:len', rng2(), dict(a=D_num('n'), b=D_num('m')),
   f=lambda v: dict(ret=sgn(v.a - v.b)), fast=True, **G)
Fn('wwCmpW', 'int', 'a:in[n] n:len w:w', rng(), dict(a=D_list(lambda v, sh, W: num_full(sh['n'], W) + word_full(W)[:8 if sh['n'] else 0]), w=D_word),
   pre=lambda v: v.a < (1 << (v.n * v.W)),
   f=lambda v: dict(ret=sgn(v.a - v.w)), fast=True, **G)
Fn('wwXor', 'void', 'c:out[n] a:in[n] b:in[n] n:len', rng(), AB, f=lambda v: dict(c=v.a ^ v.b),
   alias=('c=a', 'c=b', 'a=b', 'c=a=b'), **G)
Fn('wwXor2', 'void', 'b:io[n] a:in[n] n:len', rng(), AB, f=lambda v: dict(b=v.a ^ v.b), alias=('b=a',), **G)
Fn('wwSetZero', 'void', 'a:io[n] n:len', rng(), dict(a=D_num('n')), f=lambda v: dict(a=0), **G)
Fn('wwSetW', 'void', 'a:io[n] n:len w:w', rng(), dict(a=D_list(lambda v, sh, W: num_core(sh['n'], W)), w=D_word),
   pre=lambda v: v.n > 0 or v.w == 0, f=lambda v: dict(a=v.w if v.n else 0), **G)
Fn('wwRepW', 'void', 'a:io[n] n:len w:w', rng(), dict(a=D_list(lambda v, sh, W: num_core(sh['n'], W)), w=D_word),
   pre=lambda v: v.n > 0 or v.w == 0, f=lambda v: dict(a=sum(v.w << (i * v.W) for i in range(v.n))), **G)
Fn('wwIsZero', 'bool', 'a:in[n] n:len', rng(), dict(a=D_num('n')), f=lambda v: dict(ret=v.a == 0), fast=True, **G)
Fn('wwIsW', 'bool', 'a:in[n] n:len w:w', rng(), dict(a=D_num('n'), w=D_word), f=lambda v: dict(ret=v.a == v.w), fast=True, **G)

def rep_dom(v, sh, W):
    n = sh['n']
    r = list(num_full(n, W))
    for w in word_alpha(W):
        x = sum(w << (i * W) for i in range(n))
        r.append(x)
        for i in range(n):
            r.append(x ^ (1 << (i * W))); r.append(x ^ (1 << (i * W + W - 1)))
    return r
Fn('wwIsRepW', 'bool', 'a:in[n] n:len w:w', rng(), dict(a=D_list(rep_dom), w=D_word),
   f=lambda v: dict(ret=v.a == sum(v.w << (i * v.W) for i in range(v.n)) if v.n else v.w == 0), fast=True, **G)
Fn('wwWordSize', 'size', 'a:in[n] n:len', rng(), dict(a=D_num('n')), f=lambda v: dict(ret=(v.a.bit_length() + v.W - 1) // v.W), **G)
Fn('wwOctetSize', 'size', 'a:in[n] n:len', rng(), dict(a=D_num('n')), f=lambda v: dict(ret=(v.a.bit_length() + 7) // 8), **G)
Fn('wwLoZeroBits', 'size', 'a:in[n] n:len', rng(), dict(a=D_num('n')),
   f=lambda v: dict(ret=(v.a & -v.a).bit_length() - 1 if v.a else v.n * v.W), **G)
Fn('wwHiZeroBits', 'size', 'a:in[n] n:len', rng(), dict(a=D_num('n')), f=lambda v: dict(ret=v.n * v.W - v.a.bit_length()), **G)
Fn('wwBitSize', 'size', 'a:in[n] n:len', rng(), dict(a=D_num('n')), f=lambda v: dict(ret=v.a.bit_length()), **G)

# ---- bit access: the buffer has exactly W_OF_B(pos + 1) resp. W_OF_B(pos + width) words (shape variable n)
def pos_dom(v, sh, W):
    n = sh['n']
    return [(n - 1) * W + o for o in (0, 1, W // 2 - 1, W // 2, W - 2, W - 1)]
D_pos = D_list(pos_dom)
Fn('wwTestBit', 'bool', 'a:in[n] pos:sz', rng(1), dict(a=D_num('n'), pos=D_pos), f=lambda v: dict(ret=v.a >> v.pos & 1), **G)
Fn('wwSetBit', 'void', 'a:io[n] pos:sz val:sz', rng(1), dict(a=D_num('n'), pos=D_pos, val=D_list(lambda v, sh, W: [0, 1])),
   f=lambda v: dict(a=v.a & ~(1 << v.pos) | v.val << v.pos), **G)
Fn('wwFlipBit', 'void', 'a:io[n] pos:sz', rng(1), dict(a=D_num('n'), pos=D_pos), f=lambda v: dict(a=v.a ^ 1 << v.pos), **G)

def pw_dom(v, sh, W):
    """(pos, width) with W_OF_B(pos + width) == n, width <= W; width 0 only where no word beyond the buffer is addressed"""
    n = sh['n']; r = []
    for width in (0, 1, 2, W // 2, W - 1, W):
        for end in ((n - 1) * W + 1, (n - 1) * W + 2, (n - 1) * W + W // 2, n * W - 1, n * W):
            pos = end - width
            if pos >= 0 and (pos + width + W - 1) // W == n and not (width == 0 and pos % W == 0):
                r.append(pos << 8 | width)
    return r
Fn('wwGetBits', 'word', 'a:in[n] pos:sz width:sz', rng(1), dict(a=D_num('n'), pw=D_list(pw_dom)),
   f=lambda v: dict(ret=v.a >> v.pos & ((1 << v.width) - 1)), note='pw', **G)
Fn('wwSetBits', 'void', 'a:io[n] pos:sz width:sz val:w', rng(1), dict(a=D_num('n'), pw=D_list(pw_dom), val=D_word),
   f=lambda v: dict(a=v.a & ~(((1 << v.width) - 1) << v.pos) | (v.val & ((1 << v.width) - 1)) << v.pos), note='pw', **G)

# ---- shifts
Fn('wwShLo', 'void', 'a:io[n] n:len shift:sz', rng(), dict(a=D_num('n'), shift=D_shift), f=lambda v: dict(a=v.a >> v.shift), **G)
Fn('wwShHi', 'void', 'a:io[n] n:len shift:sz', rng(), dict(a=D_num('n'), shift=D_shift), f=lambda v: dict(a=v.a << v.shift & M(v)), **G)
def f_shlocarry(v):
    t = v.a | v.carry << (v.n * v.W)                       # the vacated (high) positions are filled from carry
    return dict(a=(t >> v.shift) & M(v), ret=((t << v.W) >> v.shift) & (v.B - 1))
def f_shhicarry(v):
    t = (v.a << v.W | v.carry) << v.shift                  # the vacated (low) positions are filled from carry
    return dict(a=(t >> v.W) & M(v), ret=(t >> ((v.n + 1) * v.W)) & (v.B - 1))
Fn('wwShLoCarry', 'word', 'a:io[n] n:len shift:sz carry:w', rng(), dict(a=D_num('n'), shift=D_shift, carry=D_word), f=f_shlocarry, **G)
Fn('wwShHiCarry', 'word', 'a:io[n] n:len shift:sz carry:w', rng(), dict(a=D_num('n'), shift=D_shift, carry=D_word), f=f_shhicarry, **G)
Fn('wwTrimLo', 'void', 'a:io[n] n:len pos:sz', rng(), dict(a=D_num('n'), pos=D_shift),
   f=lambda v: dict(a=v.a >> min(v.pos, v.n * v.W) << min(v.pos, v.n * v.W)), **G)
Fn('wwTrimHi', 'void', 'a:io[n] n:len pos:sz', rng(), dict(a=D_num('n'), pos=D_shift), f=lambda v: dict(a=v.a & ((1 << v.pos) - 1)), **G)

# ---- NAF (ww.h: window NAF, the suffix rule of the fourth remark, the bit encoding of the third remark)
def naf_ref(a, w):
    """-> (symbols a_0.., code as integer)"""
    if a == 0:
        return [], 0
    d = []
    x = a
    while x:
        if x & 1:
            s = x & ((1 << w) - 1)
            if s >= 1 << (w - 1):
                s -= 1 << w
            x -= s
        else:
            s = 0
        d.append(s); x >>= 1
    # suffix alpha, 0 (w-1 times), 1 with alpha < 0  ->  beta, 0 (w-2 times), 1 with beta = 2^(w-1) + alpha
    if len(d) >= w + 1 and d[-1] == 1 and all(t == 0 for t in d[-w:-1]) and d[-w - 1] < 0:
        d[-w - 1] += 1 << (w - 1)
        d = d[:-1]; d[-1] = 1
        # the moved leading 1 now sits w-1 places above beta
    code = 0
    for s in d:                     # the code of a_{l-1} occupies the first (= lowest, ww.h numbering) positions, that of a_0 the last
        if s == 0:
            code <<= 1
        else:
            code = code << w | (abs(s) | (1 << (w - 1) if s < 0 else 0))
    return d, code
def f_naf(v):
    d, code = naf_ref(v.a, v.w)
    assert sum(s << i for i, s in enumerate(d)) == v.a
    return dict(ret=len(d), naf=code)
Fn('wwNAF', 'size', 'naf:out[2*n+1] a:in[n] n:len w:sz', rng(), dict(a=D_num('n'), w=D_list(lambda v, sh, W: [2, 3, 4, 5, 6, W // 2, W - 2, W - 1])),
   f=f_naf, **G)
CAT['wwSetBits'].cls = lambda v: 'width=0' if v.width == 0 else None
