#!/usr/bin/env python3
"""Specification-level reference model of STB 34.101.45 (bign) as exposed by bee2
(bign.h, bign96.h): key generation, signatures (7.1), deterministic nonce (6.3.3),
Diffie-Hellman, key transport (7.2), identity-based signatures (annex B/V).

Pure stdlib + the sibling models ecp.py (curve arithmetic, parameter sets) and belt.py
(belt-hash, belt-wblock, belt-keywrap, belt-block).  Python ints, affine points, true
modular arithmetic -- NOT a transliteration of src/crypto/bign/*.c.

Conventions (as the library lays data out)
-------------------------------------------
l               security level 128 / 192 / 256 (96 for the experimental bign96)
no = l/4        octets of a field element / private key / hash value (2l bits)
numbers         little-endian octet strings  (<u>_{2l})
public key Q    <x_Q>_{2l} || <y_Q>_{2l}                      (l/2 octets)
signature       S0 || S1, |S0| = l bits (l/8 octets), |S1| = 2l bits   (3l/8 octets)
hash            ANY 2l-bit string; \\bar H is its little-endian value, NOT reduced
tape            octet string the "random" generator returns piece by piece; every random
                number costs l/4 octets per attempt (rejection sampling)

API
---
params(l)                               -> dict p,a,b,q,yG,seed,(xG=0,l,oid,name)
oid_to_der(str) / oid_der_is_valid(der)    DER of the hash-algorithm OID, e.g. "1.2.112.0.2.0.34.101.31.81"
enc_int(l,u) / dec_int(b)                  <u>_{2l}
enc_point(l,P) / dec_point(l,b)            <x>||<y>; dec_point -> (x,y) or None if a coordinate >= p
privkey_is_valid(l,d) / pubkey_is_valid(l,Q)
pubkey_calc(l,d)                        -> (x,y)                   [bignPubkeyCalc]
keypair_gen(l,tape)                     -> (d,(x,y),consumed)      [bignKeypairGen, alg. 6.2.2]
keypair_val(l,d,Q)                      -> 'OK'|'BAD_PRIVKEY'|'BAD_PUBKEY'
rand_nz(l,tape,pos=0,max_tries=65)      -> (k,newpos) | (None,newpos)   k <-R {1..q-1}
sign(l,oid_der,hash,d,tape)             -> sig                     [bignSign, alg. 7.1.3]
sign_k(l,oid_der,hash,d,k)              -> sig     (same with the one-time key k given)
gen_k(l,oid_der,d,hash,t=None)          -> k                       [alg. 6.3.3]
sign2(l,oid_der,hash,d,t=None)          -> sig                     [bignSign2]
verify(l,oid_der,hash,sig,Q)            -> bool                    [bignVerify, alg. 7.1.4]
verify_ex(...)                          -> 'OK'|'BAD_SIG'|'BAD_PUBKEY'|'BAD_OID'|'BAD_INPUT'
dh(l,d,Q,nbytes)                        -> bytes                   [bignDH]
key_wrap(l,key,header,Q,tape)           -> token                   [bignKeyWrap, alg. 7.2.3]
key_wrap_k(l,key,header,Q,k)            -> token
key_unwrap(l,token,header,d)            -> key | None              [bignKeyUnwrap, alg. 7.2.4]
id_extract(l,oid_der,id_hash,sig,Q)     -> (e,(xR,yR)) | None      [bignIdExtract]
id_sign(l,oid_der,id_hash,hash,e,tape)  -> id_sig                  [bignIdSign]
id_sign_k(l,oid_der,id_hash,hash,e,k)   -> id_sig
id_sign2(l,oid_der,id_hash,hash,e,t)    -> id_sig                  [bignIdSign2]
id_verify(l,oid_der,id_hash,hash,id_sig,R,Q) -> bool               [bignIdVerify]
bign96_*                                   keypair_gen / sign / sign2 / verify of bign96.h
last_consumed                              octets of tape used by the last tape-taking call

Errors: BignError(code) with code in BAD_PRIVKEY, BAD_PUBKEY, BAD_OID, BAD_RNG, BAD_INPUT,
BAD_SHAREDKEY.

`python3 bign.py --selftest` checks the model against vectors/bign.json ONLY.
"""
import json
import os
import sys

sys.path.insert(0, os.path.dirname(os.path.abspath(__file__)))
import ecp    # noqa: E402
import belt   # noqa: E402

last_consumed = 0
MAX_TRIES = 65        # zzRandNZMod gives up after B_PER_IMPOSSIBLE + 1 = 65 attempts


class BignError(Exception):
    def __init__(self, code):
        Exception.__init__(self, code)
        self.code = code


# --------------------------------------------------------------------------
# parameters, encodings
# --------------------------------------------------------------------------

def params(l):
    if l not in (96, 128, 192, 256):
        raise BignError("BAD_PARAMS")
    return ecp.params_by_level(l)


def _ctx(l):
    ps = params(l)
    return ps, ecp.Curve(ps["p"], ps["a"], ps["b"]), (0, ps["yG"]), ps["q"], l // 4


def enc_int(l, u):
    return int(u).to_bytes(l // 4, "little")


def dec_int(b):
    return int.from_bytes(bytes(b), "little")


def enc_point(l, P):
    return enc_int(l, P[0]) + enc_int(l, P[1])


def dec_point(l, b):
    """Octets -> (x, y); None if the length is wrong or a coordinate is not < p."""
    no = l // 4
    b = bytes(b)
    if len(b) != 2 * no:
        return None
    x, y = dec_int(b[:no]), dec_int(b[no:])
    p = params(l)["p"]
    if x >= p or y >= p:
        return None
    return (x, y)


def _as_int(l, d):
    if isinstance(d, (bytes, bytearray)):
        if len(d) != l // 4:
            raise BignError("BAD_INPUT")
        return dec_int(d)
    return int(d)


def _as_point(l, Q):
    """-> (x, y) with arbitrary ints (no range check) or None for malformed octets."""
    if isinstance(Q, (bytes, bytearray)):
        no = l // 4
        if len(Q) != 2 * no:
            raise BignError("BAD_INPUT")
        return (dec_int(Q[:no]), dec_int(Q[no:]))
    return (int(Q[0]), int(Q[1]))


def _hash_octets(l, h):
    h = bytes(h)
    if len(h) != l // 4:
        raise BignError("BAD_INPUT")
    return h


# ---- OID (bign.h: arcs d1.d2...dn, d1 <= 2, d2 < 40 if d1 < 2, di <= 2^32 - 1, n >= 2) ----

def oid_to_der(oid):
    arcs = [int(s) for s in oid.split(".")]
    for s in oid.split("."):
        if not s.isdigit() or (len(s) > 1 and s[0] == "0"):
            raise BignError("BAD_OID")
    if len(arcs) < 2 or arcs[0] > 2 or (arcs[0] < 2 and arcs[1] >= 40) or max(arcs) > 0xFFFFFFFF:
        raise BignError("BAD_OID")
    first = 40 * arcs[0] + arcs[1]
    body = b""
    for v in [first] + arcs[2:]:
        grp = [v & 0x7F]
        v >>= 7
        while v:
            grp.append(0x80 | (v & 0x7F))
            v >>= 7
        body += bytes(reversed(grp))
    n = len(body)
    if n < 128:
        hdr = bytes([n])
    else:
        nb = n.to_bytes((n.bit_length() + 7) // 8, "big")
        hdr = bytes([0x80 | len(nb)]) + nb
    return b"\x06" + hdr + body


def oid_from_der(der):
    """DER -> dotted string, or None if der is not exactly one valid OID code."""
    der = bytes(der)
    if len(der) < 3 or der[0] != 0x06:
        return None
    if der[1] < 0x80:
        n, off = der[1], 2
    else:
        k = der[1] & 0x7F
        if k == 0 or k > 8 or len(der) < 2 + k or der[2] == 0:
            return None
        n, off = int.from_bytes(der[2:2 + k], "big"), 2 + k
        if n < 128:
            return None
    body = der[off:]
    if n == 0 or len(body) != n or body[-1] & 0x80:
        return None
    vals, v, start = [], 0, True
    for o in body:
        if start and o == 0x80:
            return None
        start = False
        v = v << 7 | (o & 0x7F)
        if not o & 0x80:
            vals.append(v)
            v, start = 0, True
    d1 = min(vals[0] // 40, 2)
    arcs = [d1, vals[0] - 40 * d1] + vals[1:]
    if max(arcs) > 0xFFFFFFFF:
        return None
    return ".".join(str(a) for a in arcs)


def oid_der_is_valid(der):
    return oid_from_der(der) is not None


def _check_oid(oid_der):
    oid_der = bytes(oid_der)
    if not oid_der_is_valid(oid_der):
        raise BignError("BAD_OID")
    return oid_der


# --------------------------------------------------------------------------
# keys
# --------------------------------------------------------------------------

def privkey_is_valid(l, d):
    return 0 < _as_int(l, d) < params(l)["q"]


def pubkey_is_valid(l, Q):
    """Alg. 6.2.3: coordinates in [0, p) and the point is on the curve (Q != O by format)."""
    ps, E, G, q, no = _ctx(l)
    Q = _as_point(l, Q)
    return Q is not None and E.is_on(Q)


def pubkey_calc(l, d):
    ps, E, G, q, no = _ctx(l)
    d = _as_int(l, d)
    if not 0 < d < q:
        raise BignError("BAD_PRIVKEY")
    return E.mul(d, G)


def rand_nz(l, tape, pos=0, max_tries=MAX_TRIES, modulus=None):
    """u <-R {1, ..., q-1}: read l/4 octets as a little-endian number until it fits.

    Returns (u, newpos); (None, newpos) when the tape runs dry or after max_tries misses.
    """
    q = params(l)["q"] if modulus is None else modulus
    no = l // 4
    tape = bytes(tape)
    for _ in range(max_tries):
        chunk = tape[pos:pos + no]
        if len(chunk) < no:
            return None, pos
        pos += no
        u = dec_int(chunk)
        if 0 < u < q:
            return u, pos
    return None, pos


def keypair_gen(l, tape):
    """Alg. 6.2.2: d <-R {1..q-1}, Q = dG.  -> (d, Q, octets of tape consumed)."""
    global last_consumed
    ps, E, G, q, no = _ctx(l)
    d, pos = rand_nz(l, tape)
    last_consumed = pos
    if d is None:
        raise BignError("BAD_RNG")
    return d, E.mul(d, G), pos


def keypair_val(l, d, Q):
    ps, E, G, q, no = _ctx(l)
    d = _as_int(l, d)
    if not 0 < d < q:
        return "BAD_PRIVKEY"
    return "OK" if E.mul(d, G) == _as_point(l, Q) else "BAD_PUBKEY"


def dh(l, d, Q, nbytes):
    """First nbytes octets of <dQ>_{4l} (bignDH): nbytes <= l/2."""
    ps, E, G, q, no = _ctx(l)
    if nbytes > 2 * no:
        raise BignError("BAD_SHAREDKEY")
    d = _as_int(l, d)
    if not 0 < d < q:
        raise BignError("BAD_PRIVKEY")
    Q = _as_point(l, Q)
    if not E.is_on(Q):
        raise BignError("BAD_PUBKEY")
    K = E.mul(d, Q)
    assert K is not None          # prime order group, 0 < d < q
    return enc_point(l, K)[:nbytes]


# --------------------------------------------------------------------------
# signature (7.1)
# --------------------------------------------------------------------------

def _s0(l, oid_der, R, *hashes, s0_octets=None):
    n = l // 8 if s0_octets is None else s0_octets
    return belt.hash(oid_der + enc_int(l, R[0]) + b"".join(hashes))[:n]


def sign_k(l, oid_der, hash, d, k):
    """Alg. 7.1.3 with the one-time private key k in {1..q-1} given."""
    ps, E, G, q, no = _ctx(l)
    oid_der = _check_oid(oid_der)
    H = _hash_octets(l, hash)
    d = _as_int(l, d)
    if not 0 < d < q:
        raise BignError("BAD_PRIVKEY")
    if not 0 < k < q:
        raise BignError("BAD_RNG")
    R = E.mul(k, G)
    S0 = _s0(l, oid_der, R, H)
    s1 = (k - dec_int(H) - (dec_int(S0) + 2 ** l) * d) % q
    return S0 + enc_int(l, s1)


def sign(l, oid_der, hash, d, tape):
    global last_consumed
    ps, E, G, q, no = _ctx(l)
    _check_oid(oid_der)
    _hash_octets(l, hash)
    if not 0 < _as_int(l, d) < q:
        raise BignError("BAD_PRIVKEY")
    k, pos = rand_nz(l, tape)
    last_consumed = pos
    if k is None:
        raise BignError("BAD_RNG")
    return sign_k(l, oid_der, hash, d, k)


def gen_k(l, oid_der, d, hash, t=None):
    """Alg. 6.3.3: theta = belt-hash(OID || <d>_{2l} || t); r = H; rounds of belt-wblock with a
    running round counter i = 1, 2, ...; after every 2n rounds (n = l/64 blocks, i.e. one full
    belt-wblock pass) r is tested: k = \\bar r in {1..q-1} -> return k."""
    ps, E, G, q, no = _ctx(l)
    oid_der = bytes(oid_der)
    theta = belt.hash(oid_der + enc_int(l, _as_int(l, d)) + (b"" if t is None else bytes(t)))
    r = _hash_octets(l, hash)
    n = no // 16
    j = 0
    while True:
        r = belt.wbl_encr(theta, r, first_round=2 * n * j + 1)
        j += 1
        k = dec_int(r)
        if 0 < k < q:
            return k


def sign2(l, oid_der, hash, d, t=None):
    ps, E, G, q, no = _ctx(l)
    oid_der = _check_oid(oid_der)
    d = _as_int(l, d)
    _hash_octets(l, hash)
    if not 0 < d < q:
        raise BignError("BAD_PRIVKEY")
    return sign_k(l, oid_der, hash, d, gen_k(l, oid_der, d, hash, t))


def verify_ex(l, oid_der, hash, sig, Q):
    """Alg. 7.1.4 plus the input expectations of bign.h (valid OID, valid public key)."""
    ps, E, G, q, no = _ctx(l)
    if not oid_der_is_valid(oid_der):
        return "BAD_OID"
    oid_der, H, sig = bytes(oid_der), bytes(hash), bytes(sig)
    if len(H) != no or len(sig) != no + no // 2:
        return "BAD_INPUT"
    Q = _as_point(l, Q)
    if not (0 <= Q[0] < ps["p"] and 0 <= Q[1] < ps["p"]) or not E.is_on(Q):
        return "BAD_PUBKEY"
    S0, s1 = sig[:no // 2], dec_int(sig[no // 2:])
    if s1 >= q:
        return "BAD_SIG"
    R = E.add(E.mul((s1 + dec_int(H)) % q, G), E.mul(dec_int(S0) + 2 ** l, Q))
    if R is None:
        return "BAD_SIG"
    return "OK" if _s0(l, oid_der, R, H) == S0 else "BAD_SIG"


def verify(l, oid_der, hash, sig, Q):
    return verify_ex(l, oid_der, hash, sig, Q) == "OK"


# --------------------------------------------------------------------------
# key transport (7.2)
# --------------------------------------------------------------------------

def key_wrap_k(l, key, header, Q, k):
    ps, E, G, q, no = _ctx(l)
    key = bytes(key)
    if len(key) < 16 or (header is not None and len(header) != 16):
        raise BignError("BAD_INPUT")
    Q = _as_point(l, Q)
    if not (0 <= Q[0] < ps["p"] and 0 <= Q[1] < ps["p"]) or not E.is_on(Q):
        raise BignError("BAD_PUBKEY")
    if not 0 < k < q:
        raise BignError("BAD_RNG")
    R = E.mul(k, G)
    theta = enc_int(l, E.mul(k, Q)[0])[:32]          # <kQ>_256
    return enc_int(l, R[0]) + belt.kwp_wrap(theta, key, header)


def key_wrap(l, key, header, Q, tape):
    """Alg. 7.2.3: token = <R>_{2l} || belt-keywrap(X, I, <kQ>_256), R = kG."""
    global last_consumed
    if len(bytes(key)) < 16 or (header is not None and len(header) != 16):
        raise BignError("BAD_INPUT")
    k, pos = rand_nz(l, tape)
    last_consumed = pos
    if k is None:
        raise BignError("BAD_RNG")
    return key_wrap_k(l, key, header, Q, k)


def key_unwrap(l, token, header, d):
    """Alg. 7.2.4 -> key, or None when the token is rejected (ERR_BAD_KEYTOKEN)."""
    ps, E, G, q, no = _ctx(l)
    token = bytes(token)
    if header is not None and len(header) != 16:
        raise BignError("BAD_INPUT")
    if len(token) < no + 32:
        return None
    d = _as_int(l, d)
    if not 0 < d < q:
        raise BignError("BAD_PRIVKEY")
    x = dec_int(token[:no])
    if x >= ps["p"]:
        return None
    pts = E.lift_x(x)
    if not pts:
        return None
    theta = enc_int(l, E.mul(d, pts[0])[0])[:32]     # x(dR) does not depend on the sign of y_R
    return belt.kwp_unwrap(theta, token[no:], header)


# --------------------------------------------------------------------------
# identity-based signature (bign.h section bign-ibs)
# --------------------------------------------------------------------------

def id_extract(l, oid_der, id_hash, sig, Q):
    """Verify the trusted party's signature sig of id_hash and extract (e, R):
    R = (S1 + H0) G + (S0 + 2^l) Q,   e = (S1 + H0) mod q.   None if sig is invalid."""
    ps, E, G, q, no = _ctx(l)
    oid_der = _check_oid(oid_der)
    H0, sig = _hash_octets(l, id_hash), bytes(sig)
    if len(sig) != no + no // 2:
        raise BignError("BAD_INPUT")
    Q = _as_point(l, Q)
    if not (0 <= Q[0] < ps["p"] and 0 <= Q[1] < ps["p"]) or not E.is_on(Q):
        raise BignError("BAD_PUBKEY")
    S0, s1 = sig[:no // 2], dec_int(sig[no // 2:])
    if s1 >= q:
        return None
    e = (s1 + dec_int(H0)) % q
    R = E.add(E.mul(e, G), E.mul(dec_int(S0) + 2 ** l, Q))
    if R is None or _s0(l, oid_der, R, H0) != S0:
        return None
    return e, R


def id_sign_k(l, oid_der, id_hash, hash, e, k):
    ps, E, G, q, no = _ctx(l)
    oid_der = _check_oid(oid_der)
    H0, H = _hash_octets(l, id_hash), _hash_octets(l, hash)
    e = _as_int(l, e)
    if not 0 <= e < q:
        raise BignError("BAD_PRIVKEY")
    if not 0 < k < q:
        raise BignError("BAD_RNG")
    V = E.mul(k, G)
    S0 = _s0(l, oid_der, V, H0, H)
    s1 = (k - dec_int(H) - (dec_int(S0) + 2 ** l) * e) % q
    return S0 + enc_int(l, s1)


def id_sign(l, oid_der, id_hash, hash, e, tape):
    global last_consumed
    ps, E, G, q, no = _ctx(l)
    _check_oid(oid_der)
    if not 0 <= _as_int(l, e) < q:
        raise BignError("BAD_PRIVKEY")
    k, pos = rand_nz(l, tape)
    last_consumed = pos
    if k is None:
        raise BignError("BAD_RNG")
    return id_sign_k(l, oid_der, id_hash, hash, e, k)


def id_sign2(l, oid_der, id_hash, hash, e, t=None):
    ps, E, G, q, no = _ctx(l)
    oid_der = _check_oid(oid_der)
    e = _as_int(l, e)
    if not 0 <= e < q:
        raise BignError("BAD_PRIVKEY")
    return id_sign_k(l, oid_der, id_hash, hash, e, gen_k(l, oid_der, e, hash, t))


def id_verify_ex(l, oid_der, id_hash, hash, id_sig, R, Q):
    """V = (S1 + H) G + (S0 + 2^l) R - (t + 2^l)(S0 + 2^l) Q,  t = <belt-hash(OID||<R>_{2l}||H0)>_l;
    accept iff V != O and S0 == <belt-hash(OID || <V>_{2l} || H0 || H)>_l."""
    ps, E, G, q, no = _ctx(l)
    if not oid_der_is_valid(oid_der):
        return "BAD_OID"
    oid_der, H0, H, sig = bytes(oid_der), bytes(id_hash), bytes(hash), bytes(id_sig)
    if len(H0) != no or len(H) != no or len(sig) != no + no // 2:
        return "BAD_INPUT"
    R, Q = _as_point(l, R), _as_point(l, Q)
    for P in (R, Q):
        if not (0 <= P[0] < ps["p"] and 0 <= P[1] < ps["p"]) or not E.is_on(P):
            return "BAD_PUBKEY"
    S0, s1 = sig[:no // 2], dec_int(sig[no // 2:])
    if s1 >= q:
        return "BAD_SIG"
    t = dec_int(_s0(l, oid_der, R, H0))
    u = dec_int(S0) + 2 ** l
    V = E.mul_add(((s1 + dec_int(H)) % q, G), (u, R), ((-(t + 2 ** l) * u) % q, Q))
    if V is None:
        return "BAD_SIG"
    return "OK" if _s0(l, oid_der, V, H0, H) == S0 else "BAD_SIG"


def id_verify(l, oid_der, id_hash, hash, id_sig, R, Q):
    return id_verify_ex(l, oid_der, id_hash, hash, id_sig, R, Q) == "OK"


# --------------------------------------------------------------------------
# bign96 (experimental, bign96.h): l = 96, |S0| = 80 bits, one-time key by belt-32block.
# There is no standard text; the header says "S0 + 2^l".  The test vectors of
# bign96_test.c are only reproduced with the constant 2^103 (octets 10, 11 of the 13-octet
# multiplier are 00 and octet 12 is 0x80), so that is what the model uses: BIGN96_TOP.
# --------------------------------------------------------------------------

BIGN96_TOP = 2 ** 103


def bign96_keypair_gen(tape):
    return keypair_gen(96, tape)


def bign96_sign_k(oid_der, hash, d, k):
    ps, E, G, q, no = _ctx(96)
    oid_der = _check_oid(oid_der)
    H = _hash_octets(96, hash)
    d = _as_int(96, d)
    if not 0 < d < q:
        raise BignError("BAD_PRIVKEY")
    if not 0 < k < q:
        raise BignError("BAD_RNG")
    R = E.mul(k, G)
    S0 = _s0(96, oid_der, R, H, s0_octets=10)
    s1 = (k - dec_int(H) - (dec_int(S0) + BIGN96_TOP) * d) % q
    return S0 + enc_int(96, s1)


def bign96_sign(oid_der, hash, d, tape):
    global last_consumed
    _check_oid(oid_der)
    if not 0 < _as_int(96, d) < params(96)["q"]:
        raise BignError("BAD_PRIVKEY")
    k, pos = rand_nz(96, tape)
    last_consumed = pos
    if k is None:
        raise BignError("BAD_RNG")
    return bign96_sign_k(oid_der, hash, d, k)


def _belt32block(key, x, rnd):
    """belt-32block (STB 34.101.31-2020, helper of belt-fmt) on a 192-bit block with round
    numbers rnd, rnd+1, rnd+2.  x = x1 || x2 || x3 (64-bit thirds)."""
    x1, x2, x3 = x[0:8], x[8:16], x[16:24]

    def xor(a, b):
        return bytes(u ^ v for u, v in zip(a, b))

    def step(u, v, w, i):
        t = belt.block_encr(key, u + v)
        u = xor(t[:8], i.to_bytes(8, "little"))
        return u, t[8:], xor(w, u)

    x2, x3, x1 = step(x2, x3, x1, rnd)
    x3, x1, x2 = step(x3, x1, x2, rnd + 1)
    x1, x2, x3 = step(x1, x2, x3, rnd + 2)
    return x1 + x2 + x3


def bign96_gen_k(oid_der, d, hash, t=None):
    q = params(96)["q"]
    theta = belt.hash(bytes(oid_der) + enc_int(96, _as_int(96, d)) + (b"" if t is None else bytes(t)))
    r, rnd = _hash_octets(96, hash), 1
    while True:
        r = _belt32block(theta, r, rnd)
        rnd += 3
        k = dec_int(r)
        if 0 < k < q:
            return k


def bign96_sign2(oid_der, hash, d, t=None):
    oid_der = _check_oid(oid_der)
    d = _as_int(96, d)
    if not 0 < d < params(96)["q"]:
        raise BignError("BAD_PRIVKEY")
    return bign96_sign_k(oid_der, hash, d, bign96_gen_k(oid_der, d, hash, t))


def bign96_verify_ex(oid_der, hash, sig, Q):
    ps, E, G, q, no = _ctx(96)
    if not oid_der_is_valid(oid_der):
        return "BAD_OID"
    oid_der, H, sig = bytes(oid_der), bytes(hash), bytes(sig)
    if len(H) != 24 or len(sig) != 34:
        return "BAD_INPUT"
    Q = _as_point(96, Q)
    if not (0 <= Q[0] < ps["p"] and 0 <= Q[1] < ps["p"]) or not E.is_on(Q):
        return "BAD_PUBKEY"
    S0, s1 = sig[:10], dec_int(sig[10:])
    if s1 >= q:
        return "BAD_SIG"
    R = E.add(E.mul((s1 + dec_int(H)) % q, G), E.mul(dec_int(S0) + BIGN96_TOP, Q))
    if R is None:
        return "BAD_SIG"
    return "OK" if _s0(96, oid_der, R, H, s0_octets=10) == S0 else "BAD_SIG"


def bign96_verify(oid_der, hash, sig, Q):
    return bign96_verify_ex(oid_der, hash, sig, Q) == "OK"


# --------------------------------------------------------------------------
# selftest against vectors/bign.json ONLY
# --------------------------------------------------------------------------

def _hx(s):
    return bytes.fromhex(s)


def selftest(path=None, verbose=False):
    if path is None:
        path = os.path.join(os.path.dirname(os.path.abspath(__file__)), "vectors", "bign.json")
    with open(path) as f:
        doc = json.load(f)
    n = 0
    for v in doc["vectors"]:
        kind, l = v["kind"], v.get("l", 128)
        if kind == "params":
            ps = params(l)
            for fld in ("p", "a", "b", "q", "yG"):
                assert dec_int(_hx(v[fld])) == ps[fld], (l, fld)
            assert _hx(v["seed"]) == ps["seed"]
            assert ecp.validate_params(ps, belt_hash=belt.hash) == [], (l,)
        elif kind == "oid":
            assert oid_to_der(v["oid"]) == _hx(v["der"])
            assert oid_from_der(_hx(v["der"])) == v["oid"]
        elif kind == "keypair_gen":
            f = bign96_keypair_gen if l == 96 else (lambda t: keypair_gen(l, t))
            d, Q, used = f(_hx(v["tape"]))
            assert enc_int(l, d) == _hx(v["privkey"]) and enc_point(l, Q) == _hx(v["pubkey"])
            assert used == v["consumed"]
            assert keypair_val(l, d, Q) == "OK" and pubkey_is_valid(l, Q)
            assert enc_point(l, pubkey_calc(l, d)) == _hx(v["pubkey"])
        elif kind == "dh":
            assert dh(l, _hx(v["privkey"]), _hx(v["pubkey"]), v["nbytes"]) == _hx(v["key"])
        elif kind == "sign":
            if l == 96:
                sig = bign96_sign(_hx(v["oid_der"]), _hx(v["hash"]), _hx(v["privkey"]), _hx(v["tape"]))
                ok = bign96_verify
            else:
                sig = sign(l, _hx(v["oid_der"]), _hx(v["hash"]), _hx(v["privkey"]), _hx(v["tape"]))
                ok = lambda *a: verify(l, *a)      # noqa: E731
            assert sig == _hx(v["sig"]), (v["name"], sig.hex())
            assert last_consumed == v["consumed"]
            pub = _hx(v["pubkey"])
            assert ok(_hx(v["oid_der"]), _hx(v["hash"]), sig, pub)
            bad = bytes([sig[0] ^ 1]) + sig[1:]
            assert not ok(_hx(v["oid_der"]), _hx(v["hash"]), bad, pub)
            badpub = bytes([pub[0] ^ 1]) + pub[1:]
            assert not ok(_hx(v["oid_der"]), _hx(v["hash"]), sig, badpub)
        elif kind == "sign2":
            t = _hx(v["t"]) if v.get("t") is not None else None
            if l == 96:
                sig = bign96_sign2(_hx(v["oid_der"]), _hx(v["hash"]), _hx(v["privkey"]), t)
                assert bign96_verify(_hx(v["oid_der"]), _hx(v["hash"]), sig, _hx(v["pubkey"]))
            else:
                k = gen_k(l, _hx(v["oid_der"]), _hx(v["privkey"]), _hx(v["hash"]), t)
                if "k" in v:
                    assert enc_int(l, k) == _hx(v["k"]), (v["name"], enc_int(l, k).hex())
                sig = sign2(l, _hx(v["oid_der"]), _hx(v["hash"]), _hx(v["privkey"]), t)
                assert verify(l, _hx(v["oid_der"]), _hx(v["hash"]), sig, _hx(v["pubkey"]))
            if "sig" in v:
                assert sig == _hx(v["sig"]), (v["name"], sig.hex())
        elif kind == "verify":
            f = (lambda *a: bign96_verify_ex(*a)) if l == 96 else (lambda *a: verify_ex(l, *a))
            r = f(_hx(v["oid_der"]), _hx(v["hash"]), _hx(v["sig"]), _hx(v["pubkey"]))
            assert (r == "OK") == v["valid"], (v["name"], r)
        elif kind == "key_wrap":
            hdr = _hx(v["header"]) if v.get("header") is not None else None
            tok = key_wrap(l, _hx(v["key"]), hdr, _hx(v["pubkey"]), _hx(v["tape"]))
            if v.get("token") is not None:
                assert tok == _hx(v["token"]), (v["name"], tok.hex())
            assert last_consumed == v["consumed"]
            assert key_unwrap(l, tok, hdr, _hx(v["privkey"])) == _hx(v["key"])
            bad = tok[:-1] + bytes([tok[-1] ^ 1])
            assert key_unwrap(l, bad, hdr, _hx(v["privkey"])) is None
        elif kind == "id_extract":
            r = id_extract(l, _hx(v["oid_der"]), _hx(v["id_hash"]), _hx(v["sig"]), _hx(v["pubkey"]))
            assert r is not None
            assert enc_int(l, r[0]) == _hx(v["id_privkey"]) and enc_point(l, r[1]) == _hx(v["id_pubkey"])
        elif kind == "id_sign":
            sig = id_sign(l, _hx(v["oid_der"]), _hx(v["id_hash"]), _hx(v["hash"]), _hx(v["id_privkey"]),
                          _hx(v["tape"]))
            assert sig == _hx(v["id_sig"]), (v["name"], sig.hex())
            args = (_hx(v["oid_der"]), _hx(v["id_hash"]), _hx(v["hash"]))
            R, Q = _hx(v["id_pubkey"]), _hx(v["pubkey"])
            assert id_verify(l, *args, sig, R, Q)
            assert not id_verify(l, *args, bytes([sig[0] ^ 1]) + sig[1:], R, Q)
            assert not id_verify(l, *args, sig, bytes([R[0] ^ 1]) + R[1:], Q)
            s2 = id_sign2(l, *args, _hx(v["id_privkey"]), None)
            assert id_verify(l, *args, s2, R, Q)
        else:
            raise AssertionError("unknown vector kind " + kind)
        n += 1
        if verbose:
            print("ok", kind, v.get("name", ""))
    return n


if __name__ == "__main__":
    if "--selftest" in sys.argv:
        print("OK %d vectors" % selftest(verbose="-v" in sys.argv))
        sys.exit(0)
    print(__doc__)
