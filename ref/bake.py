#!/usr/bin/env python3
"""Specification-level reference model of STB 34.101.66 (bake) as exposed by bee2 (bake.h):
bakeKDF, bakeSWU and the protocols BMQV, BSTS, BPACE as pure functions.

Every protocol is a set of step functions (numbered as in the standard, the same numbers
bee2 uses: B acts on even steps, A on odd ones) working on plain dict states, and a run_*
function that plays both sides and returns every message M1..M4, both keys and the
ephemeral values, so that a recorded C run can be compared message by message.

Pure stdlib + sibling models ecp.py, belt.py, bign.py.  Python ints, affine points.

Conventions
-----------
l, no = l/4     as in bign.py;  <P>_{4l} = <x>_{2l} || <y>_{2l},  <P>_{2l} = <x>_{2l}
tape            octets the side's generator returns, consumed in the order of the standard:
                BMQV/BSTS: u (l/4 octets per attempt, rejection sampling into {1..q-1});
                BPACE:     R (l/8 octets, used as is), then u
certificates    opaque octet strings; `certval(l, cert) -> <Q>_{4l} | None` extracts the public
                key (default: the last l/2 octets, the convention of bake_test.c).  The protocol
                itself checks that Q is on the curve (ERR_BAD_CERT otherwise).
hello           helloa / hellob: octet strings or None (None and b"" hash the same)
keys            K0 (returned key), K1 (confirmation), K2 (BSTS encryption) =
                belt-keyrep(K, 1^96, <i>_128, 256), i = 0, 1, 2
tags            Ta = belt-mac(0^128, K1), Tb = belt-mac(1^128, K1)   (BMQV, BPACE)

API
---
kdf(secret, iv, num)                                   -> 32 octets        [bakeKDF, 6.1.3]
swu(l, msg)                                            -> <W>_{4l}         [bakeSWU, 6.2.3]
swu_point(l, msg)                                      -> (x, y)
bmqv_step2(st) / bmqv_step3(st, M1) / bmqv_step4(st, M2) / bmqv_step5(st, M3)
bsts_step2 / bsts_step3 / bsts_step4 / bsts_step5
bsts_seal(st, side, s, cert[, Va])                     -> M2 (side A) / M3 (side B) carrying a CHOSEN s and certificate,
                                                          encrypted under K2 and tagged under K1 of the state (what a party
                                                          that holds the session keys can send)
bauth_t_start / bauth_ct_start, bauth_step2(ct, certt) / bauth_step3(t, M1) / bauth_step4(ct, M2) / bauth_step5(t, M3),
bauth_seal(st, s, cert), run_bauth(...)                BAUTH of STB 34.101.79 (T = terminal = side A, CT = token = side B)
bpace_step2 / bpace_step3 / bpace_step4 / bpace_step5 / bpace_step6
bmqv_start(l, side, d, cert, cert_peer, tape, ...)     -> state dict       (see docstrings)
run_bmqv(l, da, db, certa, certb, tapea, tapeb, helloa=None, hellob=None, kca=True, kcb=True)
run_bsts(l, da, db, certa, certb, tapea, tapeb, helloa=None, hellob=None)
run_bpace(l, pwd, tapea, tapeb, helloa=None, hellob=None, kca=True, kcb=True)
run_bauth(l, dt, dct, certt, certct, tapet, tapect, helloa=None, hellob=None, kcb=True)
        -> dict(M1=.., M2=.., M3=.., [M4=..], keya=.., keyb=.., ua=.., ub=.., useda=.., usedb=..)
BakeError(code): BAD_POINT, BAD_CERT, AUTH, BAD_RNG, BAD_INPUT, BAD_LOGIC

`python3 bake.py --selftest` checks the model against vectors/bake.json ONLY.  BAUTH has no vector there (btok_test.c
only checks that both keys agree): the BAUTH model is validated by the same self-consistency (run_bauth: both keys
agree, M3 accepted) and, in the C04 explorer, message by message against the transcripts of the real code.
"""
import json
import os
import sys

sys.path.insert(0, os.path.dirname(os.path.abspath(__file__)))
import ecp    # noqa: E402
import belt   # noqa: E402
import bign   # noqa: E402

ONES12 = b"\xff" * 12
ZERO16 = bytes(16)
ONES16 = b"\xff" * 16


class BakeError(Exception):
    def __init__(self, code):
        Exception.__init__(self, code)
        self.code = code


def _ctx(l):
    if l not in (128, 192, 256):
        raise BakeError("BAD_PARAMS")
    ps = bign.params(l)
    return ps, ecp.Curve(ps["p"], ps["a"], ps["b"]), (0, ps["yG"]), ps["q"], l // 4


def _le(l, u):
    return int(u).to_bytes(l // 4, "little")


def _int(b):
    return int.from_bytes(bytes(b), "little")


def _pt(l, P):
    return _le(l, P[0]) + _le(l, P[1])


def _hello(st):
    return (st["helloa"] or b"") + (st["hellob"] or b"")


def _krp(K, i):
    return belt.krp(K, ONES12, int(i).to_bytes(16, "little"), 32)


def default_certval(l, cert):
    cert = bytes(cert)
    return cert[-(l // 2):] if len(cert) >= l // 2 else None


# --------------------------------------------------------------------------
# bakeKDF, bakeSWU
# --------------------------------------------------------------------------

def kdf(secret, iv, num):
    """6.1.3: Y = belt-hash(secret || iv); key = belt-keyrep(Y, 1^96, <num>_128, 256)."""
    return _krp(belt.hash(bytes(secret) + bytes(iv)), num)


def swu_point(l, msg):
    """6.2.3: H = belt-wblock(X || 0^128, 0^256); s = \\bar H mod p; W = SWU(s)."""
    ps, E, G, q, no = _ctx(l)
    msg = bytes(msg)
    if len(msg) != no:
        raise BakeError("BAD_INPUT")
    H = belt.wbl_encr(bytes(32), msg + ZERO16)
    return ecp.swu(E, _int(H) % ps["p"])


def swu(l, msg):
    return _pt(l, swu_point(l, msg))


# --------------------------------------------------------------------------
# common pieces
# --------------------------------------------------------------------------

def _draw_u(st):
    u, pos = bign.rand_nz(st["l"], st["tape"], st["pos"])
    st["pos"] = pos
    if u is None:
        raise BakeError("BAD_RNG")
    return u


def _draw_raw(st, n):
    chunk = st["tape"][st["pos"]:st["pos"] + n]
    if len(chunk) < n:
        raise BakeError("BAD_RNG")
    st["pos"] += n
    return chunk


def _point_in(l, b, code="BAD_POINT"):
    """<P>_{4l} -> affine point of E* (coordinates < p, on the curve)."""
    ps, E, G, q, no = _ctx(l)
    P = bign.dec_point(l, b)
    if P is None or not E.is_on(P):
        raise BakeError(code)
    return P


def _cert_key(st, cert):
    pub = st["certval"](st["l"], cert)
    if pub is None:
        raise BakeError("BAD_CERT")
    return _point_in(st["l"], pub, "BAD_CERT")


def _t(l, Va, Vb):
    """t = <belt-hash(<Va>_{2l} || <Vb>_{2l})>_l as a number."""
    return _int(belt.hash(_le(l, Va[0]) + _le(l, Vb[0]))[:l // 8])


def _start(l, side, tape, helloa, hellob, kca, kcb, certval):
    assert side in "AB"
    _ctx(l)
    return {"l": l, "side": side, "tape": bytes(tape), "pos": 0,
            "helloa": None if helloa is None else bytes(helloa),
            "hellob": None if hellob is None else bytes(hellob),
            "kca": bool(kca), "kcb": bool(kcb), "certval": certval or default_certval}


# --------------------------------------------------------------------------
# BMQV
# --------------------------------------------------------------------------

def bmqv_start(l, side, d, cert, tape, helloa=None, hellob=None, kca=True, kcb=True, certval=None):
    """State of one side: own private key d (int or octets), own certificate."""
    st = _start(l, side, tape, helloa, hellob, kca, kcb, certval)
    st["d"] = bign._as_int(l, d)
    st["cert"] = bytes(cert)
    _cert_key(st, st["cert"])            # own certificate must be valid and carry a curve point
    return st


def bmqv_step2(st):
    """B: ub <-R {1..q-1}, Vb = ub G, M1 = <Vb>_{4l}."""
    ps, E, G, q, no = _ctx(st["l"])
    st["u"] = _draw_u(st)
    st["Vb"] = E.mul(st["u"], G)
    return _pt(st["l"], st["Vb"])


def _bmqv_key(st, u, V_own_first, V_peer, Q_peer, certa, certb, Va, Vb):
    l = st["l"]
    ps, E, G, q, no = _ctx(l)
    t = _t(l, Va, Vb)
    s = (u - (2 ** l + t) * st["d"]) % q
    K = E.mul(s, E.sub(V_peer, E.mul(2 ** l + t, Q_peer)))
    if K is None:
        K = G
    K = belt.hash(_le(l, K[0]) + certa + certb + _hello(st))
    st["K0"] = _krp(K, 0)
    if st["kca"] or st["kcb"]:
        st["K1"] = _krp(K, 1)
    st["t"], st["s"] = t, s


def bmqv_step3(st, M1, certb):
    """A: check certb and Vb, ua, Va = ua G, t, sa = (ua - (2^l + t) da) mod q,
    K = sa (Vb - (2^l + t) Qb) (K = O -> G), keys, M2 = <Va>_{4l} [|| Ta]."""
    l = st["l"]
    ps, E, G, q, no = _ctx(l)
    M1 = bytes(M1)
    if len(M1) != 2 * no:
        raise BakeError("BAD_INPUT")
    Qb = _cert_key(st, certb)
    Vb = _point_in(l, M1)
    st["u"] = _draw_u(st)
    Va = E.mul(st["u"], G)
    _bmqv_key(st, st["u"], Va, Vb, Qb, st["cert"], bytes(certb), Va, Vb)
    out = _pt(l, Va)
    if st["kca"]:
        out += belt.mac(st["K1"], ZERO16)
    st["Va"], st["Vb"] = Va, Vb
    return out


def bmqv_step4(st, M2, certa):
    """B: check certa and Va, t, sb, K = sb (Va - (2^l + t) Qa), keys, check Ta, M3 = Tb (if kcb)."""
    l = st["l"]
    ps, E, G, q, no = _ctx(l)
    M2 = bytes(M2)
    if len(M2) != 2 * no + (8 if st["kca"] else 0):
        raise BakeError("BAD_INPUT")
    Qa = _cert_key(st, certa)
    Va = _point_in(l, M2[:2 * no])
    _bmqv_key(st, st["u"], st["Vb"], Va, Qa, bytes(certa), st["cert"], Va, st["Vb"])
    if st["kca"] and belt.mac(st["K1"], ZERO16) != M2[2 * no:]:
        raise BakeError("AUTH")
    st["Va"] = Va
    return belt.mac(st["K1"], ONES16) if st["kcb"] else b""


def bmqv_step5(st, M3):
    """A: check Tb."""
    if not st["kcb"]:
        raise BakeError("BAD_LOGIC")
    if belt.mac(st["K1"], ONES16) != bytes(M3):
        raise BakeError("AUTH")


def run_bmqv(l, da, db, certa, certb, tapea, tapeb, helloa=None, hellob=None, kca=True, kcb=True,
             certval=None):
    B = bmqv_start(l, "B", db, certb, tapeb, helloa, hellob, kca, kcb, certval)
    A = bmqv_start(l, "A", da, certa, tapea, helloa, hellob, kca, kcb, certval)
    out = {}
    out["M1"] = bmqv_step2(B)
    out["M2"] = bmqv_step3(A, out["M1"], certb)
    out["M3"] = bmqv_step4(B, out["M2"], certa)
    if kcb:
        bmqv_step5(A, out["M3"])
    out.update(keya=A["K0"], keyb=B["K0"], ua=A["u"], ub=B["u"], useda=A["pos"], usedb=B["pos"],
               sa=A["s"], sb=B["s"], t=A["t"])
    return out


# --------------------------------------------------------------------------
# BSTS
# --------------------------------------------------------------------------

def bsts_start(l, side, d, cert, tape, helloa=None, hellob=None, certval=None):
    st = _start(l, side, tape, helloa, hellob, True, True, certval)
    st["d"] = bign._as_int(l, d)
    st["cert"] = bytes(cert)
    _cert_key(st, st["cert"])
    return st


def bsts_step2(st):
    """B: ub, Vb = ub G, M1 = <Vb>_{4l}."""
    ps, E, G, q, no = _ctx(st["l"])
    st["u"] = _draw_u(st)
    st["Vb"] = E.mul(st["u"], G)
    return _pt(st["l"], st["Vb"])


def _bsts_keys(st, K):
    l = st["l"]
    K = belt.hash(_le(l, K[0]) + _hello(st))
    st["K0"], st["K1"], st["K2"] = _krp(K, 0), _krp(K, 1), _krp(K, 2)


def bsts_seal(st, side, s, cert, Va=None):
    """The authenticated part of M2 (side A: Ya || Ta, preceded by <Va>_{4l}) resp. M3 (side B: Yb || Tb) for a
    chosen number s in {0..2^{2l}-1} and a chosen certificate, under the session keys K1, K2 of the state:
        Y = belt-cfb(<s>_{2l} || cert, K2, I),  T = belt-mac(Y || I, K1),  I = 0^128 (A) / 1^128 (B)."""
    l = st["l"]
    iv = ZERO16 if side == "A" else ONES16
    Y = belt.cfb_encr(st["K2"], iv, _le(l, s) + bytes(cert))
    T = belt.mac(st["K1"], Y + iv)
    return (_pt(l, Va) if side == "A" else b"") + Y + T


def bsts_step3(st, M1):
    """A: check Vb; ua, Va = ua G; t; sa = (ua - (2^l + t) da) mod q; K = ua Vb; keys;
    Ya = belt-cfb(<sa>_{2l} || certa, K2, 0^128); Ta = belt-mac(Ya || 0^128, K1);
    M2 = <Va>_{4l} || Ya || Ta."""
    l = st["l"]
    ps, E, G, q, no = _ctx(l)
    M1 = bytes(M1)
    if len(M1) != 2 * no:
        raise BakeError("BAD_INPUT")
    Vb = _point_in(l, M1)
    st["u"] = _draw_u(st)
    Va = E.mul(st["u"], G)
    t = _t(l, Va, Vb)
    sa = (st["u"] - (2 ** l + t) * st["d"]) % q
    _bsts_keys(st, E.mul(st["u"], Vb))
    st.update(Va=Va, Vb=Vb, t=t, s=sa)
    return bsts_seal(st, "A", sa, st["cert"], Va)


def bsts_step4(st, M2):
    """B: check Va; K = ub Va; keys; check Ta; sa || certa = decrypt(Ya); sa < q; certa -> Qa;
    t; check sa G + (2^l + t) Qa == Va; sb; Yb = belt-cfb(<sb>_{2l} || certb, K2, 1^128);
    Tb = belt-mac(Yb || 1^128, K1); M3 = Yb || Tb."""
    l = st["l"]
    ps, E, G, q, no = _ctx(l)
    M2 = bytes(M2)
    if len(M2) <= 3 * no + 8:
        raise BakeError("BAD_INPUT")
    Va = _point_in(l, M2[:2 * no])
    _bsts_keys(st, E.mul(st["u"], Va))
    Ya, Ta = M2[2 * no:-8], M2[-8:]
    if belt.mac(st["K1"], Ya + ZERO16) != Ta:
        raise BakeError("AUTH")
    x = belt.cfb_decr(st["K2"], ZERO16, Ya)
    sa, certa = _int(x[:no]), x[no:]
    if sa >= q:
        raise BakeError("AUTH")
    Qa = _cert_key(st, certa)
    t = _t(l, Va, st["Vb"])
    if E.add(E.mul(sa, G), E.mul(2 ** l + t, Qa)) != Va:
        raise BakeError("AUTH")
    sb = (st["u"] - (2 ** l + t) * st["d"]) % q
    st.update(Va=Va, t=t, s=sb, peer_cert=certa)
    return bsts_seal(st, "B", sb, st["cert"])


def bsts_step5(st, M3):
    """A: check Tb; sb || certb = decrypt(Yb); sb < q; certb -> Qb; check sb G + (2^l + t) Qb == Vb."""
    l = st["l"]
    ps, E, G, q, no = _ctx(l)
    M3 = bytes(M3)
    if len(M3) <= no + 8:
        raise BakeError("BAD_INPUT")
    Yb, Tb = M3[:-8], M3[-8:]
    if belt.mac(st["K1"], Yb + ONES16) != Tb:
        raise BakeError("AUTH")
    x = belt.cfb_decr(st["K2"], ONES16, Yb)
    sb, certb = _int(x[:no]), x[no:]
    if sb >= q:
        raise BakeError("AUTH")
    Qb = _cert_key(st, certb)
    if E.add(E.mul(sb, G), E.mul(2 ** l + st["t"], Qb)) != st["Vb"]:
        raise BakeError("AUTH")
    st["peer_cert"] = certb


def run_bsts(l, da, db, certa, certb, tapea, tapeb, helloa=None, hellob=None, certval=None):
    B = bsts_start(l, "B", db, certb, tapeb, helloa, hellob, certval)
    A = bsts_start(l, "A", da, certa, tapea, helloa, hellob, certval)
    out = {}
    out["M1"] = bsts_step2(B)
    out["M2"] = bsts_step3(A, out["M1"])
    out["M3"] = bsts_step4(B, out["M2"])
    bsts_step5(A, out["M3"])
    out.update(keya=A["K0"], keyb=B["K0"], ua=A["u"], ub=B["u"], useda=A["pos"], usedb=B["pos"],
               sa=A["s"], sb=B["s"], t=A["t"])
    return out


# --------------------------------------------------------------------------
# BPACE
# --------------------------------------------------------------------------

def bpace_start(l, side, pwd, tape, helloa=None, hellob=None, kca=True, kcb=True):
    st = _start(l, side, tape, helloa, hellob, kca, kcb, None)
    st["K2"] = belt.hash(bytes(pwd))
    return st


def bpace_step2(st):
    """B: Rb <-R {0,1}^l; M1 = Yb = belt-ecb(Rb, K2)."""
    no = st["l"] // 4
    st["Rb"] = _draw_raw(st, no // 2)
    return belt.ecb_encr(st["K2"], st["Rb"])


def _bpace_keys(st, K, Va, Vb):
    l = st["l"]
    Y = belt.hash(_le(l, K[0]) + _le(l, Va[0]) + _le(l, Vb[0]) + _hello(st))
    st["K0"] = _krp(Y, 0)
    if st["kca"] or st["kcb"]:
        st["K1"] = _krp(Y, 1)


def bpace_step3(st, M1):
    """A: Rb = decrypt(Yb); Ra <-R {0,1}^l; Ya = belt-ecb(Ra, K2); W = bakeSWU(Ra || Rb);
    ua; Va = ua W; M2 = Ya || <Va>_{4l}."""
    l = st["l"]
    ps, E, G, q, no = _ctx(l)
    M1 = bytes(M1)
    if len(M1) != no // 2:
        raise BakeError("BAD_INPUT")
    st["Rb"] = belt.ecb_decr(st["K2"], M1)
    st["Ra"] = _draw_raw(st, no // 2)
    Ya = belt.ecb_encr(st["K2"], st["Ra"])
    st["W"] = swu_point(l, st["Ra"] + st["Rb"])
    st["u"] = _draw_u(st)
    st["Va"] = E.mul(st["u"], st["W"])
    return Ya + _pt(l, st["Va"])


def bpace_step4(st, M2):
    """B: check Va; Ra = decrypt(Ya); W; ub; K = ub Va; Vb = ub W; keys; M3 = <Vb>_{4l} [|| Tb]."""
    l = st["l"]
    ps, E, G, q, no = _ctx(l)
    M2 = bytes(M2)
    if len(M2) != no // 2 + 2 * no:
        raise BakeError("BAD_INPUT")
    Va = _point_in(l, M2[no // 2:])
    st["Ra"] = belt.ecb_decr(st["K2"], M2[:no // 2])
    st["W"] = swu_point(l, st["Ra"] + st["Rb"])
    st["u"] = _draw_u(st)
    K = E.mul(st["u"], Va)
    Vb = E.mul(st["u"], st["W"])
    _bpace_keys(st, K, Va, Vb)
    st.update(Va=Va, Vb=Vb)
    out = _pt(l, Vb)
    if st["kcb"]:
        out += belt.mac(st["K1"], ONES16)
    return out


def bpace_step5(st, M3):
    """A: check Vb; K = ua Vb; keys; check Tb; M4 = Ta (if kca)."""
    l = st["l"]
    ps, E, G, q, no = _ctx(l)
    M3 = bytes(M3)
    if len(M3) != 2 * no + (8 if st["kcb"] else 0):
        raise BakeError("BAD_INPUT")
    Vb = _point_in(l, M3[:2 * no])
    _bpace_keys(st, E.mul(st["u"], Vb), st["Va"], Vb)
    if st["kcb"] and belt.mac(st["K1"], ONES16) != M3[2 * no:]:
        raise BakeError("AUTH")
    st["Vb"] = Vb
    return belt.mac(st["K1"], ZERO16) if st["kca"] else b""


def bpace_step6(st, M4):
    """B: check Ta."""
    if not st["kca"]:
        raise BakeError("BAD_LOGIC")
    if belt.mac(st["K1"], ZERO16) != bytes(M4):
        raise BakeError("AUTH")


def run_bpace(l, pwd, tapea, tapeb, helloa=None, hellob=None, kca=True, kcb=True):
    B = bpace_start(l, "B", pwd, tapeb, helloa, hellob, kca, kcb)
    A = bpace_start(l, "A", pwd, tapea, helloa, hellob, kca, kcb)
    out = {}
    out["M1"] = bpace_step2(B)
    out["M2"] = bpace_step3(A, out["M1"])
    out["M3"] = bpace_step4(B, out["M2"])
    out["M4"] = bpace_step5(A, out["M3"])
    if kca:
        bpace_step6(B, out["M4"])
    out.update(keya=A["K0"], keyb=B["K0"], ua=A["u"], ub=B["u"], useda=A["pos"], usedb=B["pos"],
               Ra=A["Ra"], Rb=B["Rb"], W=A["W"])
    return out


# --------------------------------------------------------------------------
# BAUTH (STB 34.101.79; bee2: btokBAuthT* / btokBAuthCT*).  T = terminal (side A of bake_settings), CT = token (side B).
# T always confirms the key (kca), CT authenticates itself when kcb.
#   2 (CT): Rct <-R {0,1}^l, uct <-R {1..q-1}, Vct = uct G, K = <uct Qt>_256, M1 = <Vct>_{4l} || belt-keywrap(Rct, 0^128, K)
#   3 (T):  Vct in E*, K = <dt Vct>_256, Rct = belt-keyunwrap(.., 0^128, K); [Rt <-R {0,1}^128];
#           Y = belt-hash(Rct [|| Rt] || helloa || hellob), K0, K1 [, K2] = belt-keyrep(Y, 1^96, <i>_128, 256);
#           Tt = belt-mac(0^128, K1), M2 = Tt [|| Rt]
#   4 (CT): Y, keys, check Tt; [t = <belt-hash(<Vct>_{2l} || Rt)>_l, sct = (uct - (2^l + t) dct) mod q,
#           Zct = belt-cfb(<sct>_{2l} || certct, K2, 0^128), Tct = belt-mac(Zct, K1), M3 = Zct || Tct]
#   5 (T):  check Tct; sct || certct = decrypt(Zct); sct in {0..q-1}; certct -> Qct in E*; sct G + (2^l + t) Qct == Vct
# tapes: CT: Rct (l/8 octets) then uct;  T: Rt (16 octets, only when kcb).
# --------------------------------------------------------------------------

def _bauth_start(l, side, d, cert, tape, helloa, hellob, kcb, certval):
    st = _start(l, side, tape, helloa, hellob, True, kcb, certval)
    st["d"] = bign._as_int(l, d)
    st["cert"] = bytes(cert)
    _cert_key(st, st["cert"])
    return st


def bauth_t_start(l, dt, certt, tape, helloa=None, hellob=None, kcb=True, certval=None):
    return _bauth_start(l, "A", dt, certt, tape, helloa, hellob, kcb, certval)


def bauth_ct_start(l, dct, certct, tape, helloa=None, hellob=None, kcb=True, certval=None):
    return _bauth_start(l, "B", dct, certct, tape, helloa, hellob, kcb, certval)


def _bauth_keys(st, Rct, Rt):
    Y = belt.hash(Rct + (Rt if st["kcb"] else b"") + _hello(st))
    st["K0"], st["K1"] = _krp(Y, 0), _krp(Y, 1)
    if st["kcb"]:
        st["K2"] = _krp(Y, 2)


def bauth_step2(st, certt):
    l = st["l"]
    ps, E, G, q, no = _ctx(l)
    Qt = _cert_key(st, certt)
    st["Rct"] = _draw_raw(st, no // 2)
    st["u"] = _draw_u(st)
    st["Vct"] = E.mul(st["u"], G)
    K = E.mul(st["u"], Qt)
    return _pt(l, st["Vct"]) + belt.kwp_wrap(_le(l, K[0])[:32], st["Rct"], ZERO16)


def bauth_step3(st, M1):
    l = st["l"]
    ps, E, G, q, no = _ctx(l)
    M1 = bytes(M1)
    if len(M1) != 2 * no + no // 2 + 16:
        raise BakeError("BAD_INPUT")
    Vct = _point_in(l, M1[:2 * no])
    K = E.mul(st["d"], Vct)
    Rct = belt.kwp_unwrap(_le(l, K[0])[:32], M1[2 * no:], ZERO16)
    if Rct is None:
        raise BakeError("AUTH")
    Rt = _draw_raw(st, 16) if st["kcb"] else b""
    _bauth_keys(st, Rct, Rt)
    st.update(Vct=Vct, Rt=Rt)
    return belt.mac(st["K1"], ZERO16) + Rt


def bauth_seal(st, s, cert):
    """M3 = Zct || Tct for a chosen number s in {0..2^{2l}-1} and a chosen certificate under the session keys of the state."""
    Z = belt.cfb_encr(st["K2"], ZERO16, _le(st["l"], s) + bytes(cert))
    return Z + belt.mac(st["K1"], Z)


def bauth_step4(st, M2):
    l = st["l"]
    ps, E, G, q, no = _ctx(l)
    M2 = bytes(M2)
    if len(M2) != 8 + (16 if st["kcb"] else 0):
        raise BakeError("BAD_INPUT")
    Rt = M2[8:]
    _bauth_keys(st, st["Rct"], Rt)
    if belt.mac(st["K1"], ZERO16) != M2[:8]:
        raise BakeError("AUTH")
    if not st["kcb"]:
        return b""
    t = _int(belt.hash(_le(l, st["Vct"][0]) + Rt)[:l // 8])
    st["t"] = t
    st["s"] = (st["u"] - (2 ** l + t) * st["d"]) % q
    return bauth_seal(st, st["s"], st["cert"])


def bauth_step5(st, M3):
    l = st["l"]
    ps, E, G, q, no = _ctx(l)
    if not st["kcb"]:
        raise BakeError("BAD_LOGIC")
    M3 = bytes(M3)
    if len(M3) < no + 8:
        raise BakeError("BAD_INPUT")
    Z, T = M3[:-8], M3[-8:]
    if belt.mac(st["K1"], Z) != T:
        raise BakeError("AUTH")
    x = belt.cfb_decr(st["K2"], ZERO16, Z)
    s, cert = _int(x[:no]), x[no:]
    if s >= q:
        raise BakeError("AUTH")
    Qct = _cert_key(st, cert)
    t = _int(belt.hash(_le(l, st["Vct"][0]) + st["Rt"])[:l // 8])
    if E.add(E.mul(s, G), E.mul(2 ** l + t, Qct)) != st["Vct"]:
        raise BakeError("AUTH")
    st["peer_cert"] = cert


def run_bauth(l, dt, dct, certt, certct, tapet, tapect, helloa=None, hellob=None, kcb=True, certval=None):
    CT = bauth_ct_start(l, dct, certct, tapect, helloa, hellob, kcb, certval)
    T = bauth_t_start(l, dt, certt, tapet, helloa, hellob, kcb, certval)
    out = {}
    out["M1"] = bauth_step2(CT, certt)
    out["M2"] = bauth_step3(T, out["M1"])
    out["M3"] = bauth_step4(CT, out["M2"])
    if kcb:
        bauth_step5(T, out["M3"])
    out.update(keya=T["K0"], keyb=CT["K0"], ub=CT["u"], useda=T["pos"], usedb=CT["pos"], sb=CT.get("s"))
    return out


# --------------------------------------------------------------------------
# selftest against vectors/bake.json ONLY
# --------------------------------------------------------------------------

def selftest(path=None, verbose=False):
    if path is None:
        path = os.path.join(os.path.dirname(os.path.abspath(__file__)), "vectors", "bake.json")
    with open(path) as f:
        doc = json.load(f)
    n = 0
    for v in doc["vectors"]:
        h = lambda k: None if v.get(k) is None else bytes.fromhex(v[k])   # noqa: E731
        kind = v["kind"]
        if kind == "kdf":
            assert kdf(h("secret"), h("iv"), v["num"]) == h("key"), v["name"]
        elif kind == "swu":
            assert swu(v["l"], h("msg")) == h("pt"), v["name"]
        elif kind in ("bmqv", "bsts", "bpace"):
            if kind == "bmqv":
                r = run_bmqv(v["l"], h("da"), h("db"), h("certa"), h("certb"), h("randa"), h("randb"),
                             h("helloa"), h("hellob"), v["kca"], v["kcb"])
            elif kind == "bsts":
                r = run_bsts(v["l"], h("da"), h("db"), h("certa"), h("certb"), h("randa"), h("randb"),
                             h("helloa"), h("hellob"))
            else:
                r = run_bpace(v["l"], h("pwd"), h("randa"), h("randb"), h("helloa"), h("hellob"),
                              v["kca"], v["kcb"])
            assert r["keya"] == r["keyb"] == h("key"), (v["name"], r["keya"].hex())
            for m in ("M1", "M2", "M3", "M4"):
                if v.get(m) is not None:
                    assert r[m] == h(m), (v["name"], m, r[m].hex())
        else:
            raise AssertionError("unknown vector kind " + kind)
        n += 1
        if verbose:
            print("ok", kind, v.get("name", ""))
    return n


if __name__ == "__main__":
    if "--selftest" in sys.argv:
        print("OK %d vectors" % selftest(verbose="-v" in sys.argv))
        sys.exit(0)
    print(__doc__)
