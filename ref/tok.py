#!/usr/bin/env python3
"""tok.py -- specification-level reference model of the token layer (STB 34.101.79 btok, STB 34.101.78 bpki)

Written from the documented grammars (include/bee2/crypto/btok.h, bpki.h, the ASN.1 outlines of the
standards) on top of the other references: codec.py (DER, APDU), bign.py (signatures), belt.py
(hash, CFB, MAC, KRP, KWP, PBKDF2), bash.py (bash384/512), dates.py.  Bytes in, bytes out; no state.

CV certificates (btok.h, section btok-cvc)
------------------------------------------
  content = dict(authority, holder: bytes (the C strings without NUL), pubkey: bytes, from_, until: 6 octets,
                 hat_eid: 5 octets, hat_esign: 2 octets, sig: bytes)
  cvc_check(c)              -> None | 'BAD_NAME' | 'BAD_DATE' | 'BAD_PUBKEY'      (btokCVCCheck)
  cvc_check2(c, ca)         -> None | error class                                 (btokCVCCheck2)
  cvc_body(c)               -> DER of CertificateBody
  cvc_wrap(c, privkey)      -> (cert, content with pubkey/sig filled in) | error class   (btokCVCWrap)
  cvc_dec(cert)             -> (content, body octets) | None   (grammar only, any of the 4 signature lengths)
  cvc_unwrap(cert, pubkey)  -> ('OK', content) | (error class, None); pubkey: None (no verification),
                               'self' (the certificate's own key) or octets          (btokCVCUnwrap)
  cvc_val(cert, certa, date)-> 'OK' | error class                                  (btokCVCVal / Val2)
  cvc_iss(c, certa, privkeya) -> (cert, content) | error class                     (btokCVCIss)
  tok_sign(data, privkey) / tok_verify(data, sig, pubkey): bign-sign over belt-hash (l = 96: truncated to 24
  octets, l = 128), bash384 (l = 192), bash512 (l = 256); deterministic mode with empty t.

Secure messaging (btok.h, section btok-sm; STB 34.101.79 12.3)
---------------------------------------------------------------
  sm_keys(key) -> (key1 [mac], key2 [cfb]);  ctr is an int (the 128-bit counter, little-endian octets as IV)
  sm_cmd_wrap(keys, ctr, (cla, ins, p1, p2, cdf, rdf_len)) -> protected APDU | 'BAD_APDU' | 'BAD_LOGIC'
  sm_resp_wrap(keys, ctr, (sw1, sw2, rdf))                 -> protected APDU | 'BAD_APDU' | 'BAD_LOGIC'

Key containers (bpki.h; PKCS#8 EncryptedPrivateKeyInfo with PBES2 = PBKDF2[hmac-hbelt] + belt-kwp256)
-------------------------------------------------------------------------------------------------------
  pki_privkey(key) / pki_share(share) -> PrivateKeyInfo DER ; epki(pki, pwd, salt, iter) -> container
  epki_open(container, pwd) -> ('OK', 'privkey'|'share', key) | (error class, None, None)
  csr_make(name_der, attrs_der, privkey, t) -> CSR ; csr_parse(csr) -> dict | None ; csr_verify(csr) -> pubkey|None
  csr_rewrap(csr, privkey) -> CSR (bpkiCSRRewrap with no process RNG: t = the old signature octets)

python3 tok.py --selftest  runs the vectors of STB 34.101.79 (SM example of btok_test.c) and the bee2evp CSR.
"""
import functools
import os
import sys

sys.path.insert(0, os.path.dirname(os.path.abspath(__file__)))
import codec as D      # noqa: E402
import belt            # noqa: E402
import bash            # noqa: E402
import bign            # noqa: E402
import dates           # noqa: E402

OID = dict(
    bign_pubkey='1.2.112.0.2.0.34.101.45.2.1', eid_access='1.2.112.0.2.0.34.101.79.6.1',
    esign_access='1.2.112.0.2.0.34.101.79.6.2', esign_auth_ext='1.2.112.0.2.0.34.101.79.8.1',
    belt_hash='1.2.112.0.2.0.34.101.31.81', bash384='1.2.112.0.2.0.34.101.77.12', bash512='1.2.112.0.2.0.34.101.77.13',
    curve192='1.2.112.0.2.0.34.101.45.3.0', curve256='1.2.112.0.2.0.34.101.45.3.1', curve384='1.2.112.0.2.0.34.101.45.3.2',
    curve512='1.2.112.0.2.0.34.101.45.3.3', bign_with_hbelt='1.2.112.0.2.0.34.101.45.12',
    bels_share='1.2.112.0.2.0.34.101.60.11', bels_m0128='1.2.112.0.2.0.34.101.60.2.1', bels_m0192='1.2.112.0.2.0.34.101.60.2.2',
    bels_m0256='1.2.112.0.2.0.34.101.60.2.3', pbes2='1.2.840.113549.1.5.13', pbkdf2='1.2.840.113549.1.5.12',
    belt_kwp256='1.2.112.0.2.0.34.101.31.73', hmac_hbelt='1.2.112.0.2.0.34.101.47.12')

LEVEL = {24: 96, 32: 128, 48: 192, 64: 256}        # private key length -> security level
SIGLEN = {24: 34, 32: 48, 48: 72, 64: 96}          # private key length -> signature length


# ======================================================================================= signatures
def _hash(l, data):
    if l == 96:
        return belt.hash(data)[:24], OID['belt_hash']
    if l == 128:
        return belt.hash(data), OID['belt_hash']
    if l == 192:
        return bash.bash_hash(192, data), OID['bash384']
    return bash.bash_hash(256, data), OID['bash512']


@functools.lru_cache(maxsize=4096)
def pubkey_of(privkey):
    l = LEVEL[len(privkey)]
    return bytes(bign.enc_point(l, bign.pubkey_calc(l, bytes(privkey))))


@functools.lru_cache(maxsize=8192)
def tok_sign(data, privkey, t=None):
    """deterministic bign signature (t empty unless given) of data under the profile's hash"""
    l = LEVEL[len(privkey)]
    h, oid = _hash(l, data)
    oid = bign.oid_to_der(oid)
    if l == 96:
        return bytes(bign.bign96_sign2(oid, h, bytes(privkey), t))
    return bytes(bign.sign2(l, oid, h, bytes(privkey), t))


@functools.lru_cache(maxsize=8192)
def tok_verify(data, sig, pubkey):
    """-> 'OK' | 'BAD_SIG' | 'BAD_PUBKEY' | 'BAD_INPUT'"""
    if len(pubkey) // 2 not in LEVEL or len(pubkey) % 2:
        return 'BAD_INPUT'
    l = LEVEL[len(pubkey) // 2]
    h, oid = _hash(l, data)
    oid = bign.oid_to_der(oid)
    if l == 96:
        return bign.bign96_verify_ex(oid, h, sig, pubkey)
    return bign.verify_ex(l, oid, h, sig, pubkey)


@functools.lru_cache(maxsize=4096)
def pubkey_is_valid(pubkey):
    if len(pubkey) % 2 or len(pubkey) // 2 not in LEVEL:
        return False
    l = LEVEL[len(pubkey) // 2]
    return bign.dec_point(l, bytes(pubkey)) is not None and bool(bign.pubkey_is_valid(l, bytes(pubkey)))


def keypair_is_valid(privkey, pubkey):
    if len(privkey) not in LEVEL or len(pubkey) != 2 * len(privkey):
        return False
    l = LEVEL[len(privkey)]
    d = int.from_bytes(privkey, 'little')
    if not 0 < d < bign.params(l)['q']:
        return False
    return pubkey_of(bytes(privkey)) == bytes(pubkey)


# ======================================================================================= CV certificates
def name_is_valid(name):
    return 8 <= len(name) <= 12 and b'\0' not in name and D.str_is_printable(name)


def cvc_check(c):
    if not name_is_valid(c['authority']) or not name_is_valid(c['holder']):
        return 'BAD_NAME'
    if not dates.date6_is_valid(c['from_']) or not dates.date6_is_valid(c['until']) or bytes(c['from_']) > bytes(c['until']):
        return 'BAD_DATE'
    if len(c['pubkey']) not in (48, 64, 96, 128) or not pubkey_is_valid(bytes(c['pubkey'])):
        return 'BAD_PUBKEY'
    return None


def cvc_check2(c, ca):
    e = cvc_check(c)
    if e:
        return e
    if bytes(c['authority']) != bytes(ca['holder']):
        return 'BAD_NAME'
    if not dates.date6_is_valid(ca['from_']) or not dates.date6_is_valid(ca['until']) or \
            not (bytes(ca['from_']) <= bytes(c['from_']) <= bytes(ca['until'])):
        return 'BAD_DATE'
    return None


def cvc_body(c):
    """CertificateBody: the encoder works for any octets in the fields (used to build malformed certificates too)"""
    out = D.der_tsize_enc(0x5F29, 0)
    out += D.der_enc(0x42, bytes(c['authority']))
    out += D.der_enc(0x7F49, D.der_oid_enc(OID['bign_pubkey']) + D.der_bit_enc(bytes(c['pubkey']), 8 * len(c['pubkey'])))
    out += D.der_enc(0x5F20, bytes(c['holder']))
    if any(c['hat_eid']) or c.get('force_eid'):
        out += D.der_enc(0x7F4C, D.der_oid_enc(OID['eid_access']) + D.der_oct_enc(bytes(c['hat_eid'])))
    out += D.der_enc(0x5F25, bytes(c['from_'])) + D.der_enc(0x5F24, bytes(c['until']))
    if any(c['hat_esign']) or c.get('force_esign'):
        hat = D.der_enc(0x7F4C, D.der_oid_enc(OID['esign_access']) + D.der_oct_enc(bytes(c['hat_esign'])))
        out += D.der_enc(0x65, D.der_enc(0x73, D.der_oid_enc(OID['esign_auth_ext']) + hat))
    return D.der_enc(0x7F4E, out)


def cvc_enc(c, sig):
    return D.der_enc(0x7F21, cvc_body(c) + D.der_enc(0x5F37, bytes(sig)))


def cvc_wrap(c, privkey):
    """btokCVCWrap: pubkey empty -> derived from privkey; content checked; body signed by privkey"""
    if len(privkey) not in LEVEL:
        return 'BAD_INPUT'
    c = dict(c)
    if len(c['pubkey']) == 0:
        d = int.from_bytes(privkey, 'little')
        if not 0 < d < bign.params(LEVEL[len(privkey)])['q']:
            return 'BAD_PRIVKEY'
        c['pubkey'] = pubkey_of(bytes(privkey))
    e = cvc_check(c)
    if e:
        return e
    d = int.from_bytes(privkey, 'little')
    if not 0 < d < bign.params(LEVEL[len(privkey)])['q']:
        return 'BAD_PRIVKEY'
    c['sig'] = tok_sign(cvc_body(c), bytes(privkey))
    return cvc_enc(c, c['sig']), c


def _seq(data, tag):
    """-> (content, consumed) of a constructed TLV at the start of data"""
    return D.der_dec2(data, tag)


def cvc_body_dec(body):
    """body: the complete TLV of CertificateBody -> content dict (without sig) | None"""
    r = _seq(body, 0x7F4E)
    if r is None or r[1] != len(body):
        return None
    p = r[0]
    c = dict(hat_eid=bytes(5), hat_esign=bytes(2))
    n = D.der_tsize_dec2(p, 0x5F29, 0)
    if n is None:
        return None
    p = p[n:]
    r = D.der_tpstr_dec(p, 0x42)
    if r is None or not 8 <= len(r[0]) <= 12:
        return None
    c['authority'] = r[0].encode('latin1'); p = p[r[1]:]
    r = _seq(p, 0x7F49)
    if r is None:
        return None
    q, p = r[0], p[r[1]:]
    n = D.der_oid_dec2(q, OID['bign_pubkey'])
    if n is None:
        return None
    q = q[n:]
    r = D.der_bit_dec(q)
    if r is None or r[1] not in (384, 512, 768, 1024) or r[2] != len(q):
        return None
    c['pubkey'] = bytes(r[0])
    r = D.der_tpstr_dec(p, 0x5F20)
    if r is None or not 8 <= len(r[0]) <= 12:
        return None
    c['holder'] = r[0].encode('latin1'); p = p[r[1]:]
    if D.der_starts_with(p, 0x7F4C):
        r = _seq(p, 0x7F4C)
        if r is None:
            return None
        q, p = r[0], p[r[1]:]
        n = D.der_oid_dec2(q, OID['eid_access'])
        if n is None:
            return None
        q = q[n:]
        r = D.der_oct_dec2(q, 5)
        if r is None or r[1] != len(q):
            return None
        c['hat_eid'] = bytes(r[0])
    r = D.der_toct_dec2(p, 0x5F25, 6)
    if r is None:
        return None
    c['from_'] = bytes(r[0]); p = p[r[1]:]
    r = D.der_toct_dec2(p, 0x5F24, 6)
    if r is None:
        return None
    c['until'] = bytes(r[0]); p = p[r[1]:]
    if D.der_starts_with(p, 0x65):
        r = _seq(p, 0x65)
        if r is None:
            return None
        q, p = r[0], p[r[1]:]
        r = _seq(q, 0x73)
        if r is None or r[1] != len(q):
            return None
        q = r[0]
        n = D.der_oid_dec2(q, OID['esign_auth_ext'])
        if n is None:
            return None
        q = q[n:]
        r = _seq(q, 0x7F4C)
        if r is None or r[1] != len(q):
            return None
        q = r[0]
        n = D.der_oid_dec2(q, OID['esign_access'])
        if n is None:
            return None
        q = q[n:]
        r = D.der_oct_dec2(q, 2)
        if r is None or r[1] != len(q):
            return None
        c['hat_esign'] = bytes(r[0])
    if p:
        return None
    return c


def cvc_dec(cert):
    """grammar of CVCertificate -> (content incl. sig, body TLV) | None"""
    r = _seq(bytes(cert), 0x7F21)
    if r is None or r[1] != len(cert):
        return None
    p = r[0]
    tl = D.der_dec(p)
    if tl is None or tl[0] != 0x7F4E:
        return None
    body, p = p[:tl[2]], p[tl[2]:]
    c = cvc_body_dec(body)
    if c is None:
        return None
    r = D.der_toct_dec(p, 0x5F37)
    if r is None or r[1] != len(p) or len(r[0]) not in (34, 48, 72, 96):
        return None
    c['sig'] = bytes(r[0])
    return c, body


def cvc_unwrap(cert, pubkey=None):
    r = cvc_dec(cert)
    if r is None:
        return 'BAD_FORMAT', None
    c, body = r
    if pubkey == 'self':
        pubkey = c['pubkey']
    if pubkey is not None:
        if len(pubkey) not in (48, 64, 96, 128):
            return 'BAD_INPUT', None
        if len(c['sig']) != SIGLEN[len(pubkey) // 2]:
            return 'BAD_FORMAT', None
        v = tok_verify(bytes(body), bytes(c['sig']), bytes(pubkey))
        if v != 'OK':
            return v, None
    e = cvc_check(c)
    if e:
        return e, None
    return 'OK', c


def cvc_val(cert, certa, date=None):
    """btokCVCVal: certa parses (its signature is not verified), cert verifies under certa's key,
    names chain, cert.from lies in certa's period, date (if given) is valid and lies in cert's period"""
    st, ca = cvc_unwrap(certa, None)
    if st != 'OK':
        return st
    return cvc_val2(cert, ca, date)[0]


def cvc_val2(cert, ca, date=None):
    if len(ca['pubkey']) not in (48, 64, 96, 128):
        return 'BAD_INPUT', None
    st, c = cvc_unwrap(cert, bytes(ca['pubkey']))
    if st != 'OK':
        return st, None
    e = cvc_check2(c, ca)
    if e:
        return e, None
    if date is not None:
        if not dates.date6_is_valid(date):
            return 'BAD_DATE', None
        if not bytes(c['from_']) <= bytes(date) <= bytes(c['until']):
            return 'OUTOFRANGE', None
    return 'OK', c


def cvc_iss(c, certa, privkeya):
    st, ca = cvc_unwrap(certa, None)
    if st != 'OK':
        return st
    e = cvc_check2(c, ca)
    if e:
        return e
    if not keypair_is_valid(bytes(privkeya), bytes(ca['pubkey'])):
        return 'BAD_KEYPAIR'
    return cvc_wrap(c, privkeya)


# ======================================================================================= secure messaging
def sm_keys(key):
    """key1 = belt-keyrep(key, 0, <1>, 256), key2 = belt-keyrep(key, 0, <2>, 256)"""
    return (belt.krp(key, bytes(12), (1).to_bytes(16, 'little'), 32), belt.krp(key, bytes(12), (2).to_bytes(16, 'little'), 32))


def _le_field(cdf_len, rdf_len):
    """the Le field of the unprotected command (apdu.h rules 4, 5)"""
    if rdf_len == 0:
        return b''
    if cdf_len < 256 and rdf_len <= 256:
        return bytes([rdf_len & 0xFF])
    if cdf_len:
        return (rdf_len & 0xFFFF).to_bytes(2, 'big')
    return b'\0' + (rdf_len & 0xFFFF).to_bytes(2, 'big')


def sm_cmd_wrap(keys, ctr, cmd):
    cla, ins, p1, p2, cdf, rdf_len = cmd
    cdf = bytes(cdf)
    if not D.apdu_cmd_is_valid(len(cdf), rdf_len) or cla & 0x04:
        return 'BAD_APDU'
    if ctr % 2 != 1:
        return 'BAD_LOGIC'
    iv = (ctr % (1 << 128)).to_bytes(16, 'little')
    hdr = bytes([cla | 0x04, ins, p1, p2])
    body = b''
    if cdf:
        body += D.der_enc(0x87, b'\x02' + belt.cfb_encr(keys[1], iv, cdf))
    if rdf_len:
        body += D.der_enc(0x97, _le_field(len(cdf), rdf_len))
    body += D.der_enc(0x8E, belt.mac(keys[0], hdr + body))
    # Lc* / Le*: Le* absent iff no response data is expected; short forms iff both fit
    if rdf_len == 0:
        lc = bytes([len(body)]) if len(body) < 256 else b'\0' + len(body).to_bytes(2, 'big')
        le = b''
    elif rdf_len <= 256 and len(body) < 256:
        lc, le = bytes([len(body)]), b'\0'
    else:
        lc, le = b'\0' + len(body).to_bytes(2, 'big'), b'\0\0'
    return hdr + lc + body + le


def sm_resp_wrap(keys, ctr, resp):
    sw1, sw2, rdf = resp
    rdf = bytes(rdf)
    if not D.apdu_resp_is_valid(len(rdf)):
        return 'BAD_APDU'
    if ctr % 2 != 0:
        return 'BAD_LOGIC'
    iv = (ctr % (1 << 128)).to_bytes(16, 'little')
    body = b''
    if rdf:
        body += D.der_enc(0x87, b'\x02' + belt.cfb_encr(keys[1], iv, rdf))
    body += D.der_enc(0x8E, belt.mac(keys[0], body + bytes([sw1, sw2])))
    return body + bytes([sw1, sw2])


# ======================================================================================= key containers
_CURVE = {24: 'curve192', 32: 'curve256', 48: 'curve384', 64: 'curve512'}
_BELS = {17: 'bels_m0128', 25: 'bels_m0192', 33: 'bels_m0256'}


def pki_privkey(key):
    alg = D.der_seq_enc(D.der_oid_enc(OID['bign_pubkey']) + D.der_oid_enc(OID[_CURVE[len(key)]]))
    return D.der_seq_enc(D.der_size_enc(0) + alg + D.der_oct_enc(bytes(key)))


def pki_share(share):
    alg = D.der_seq_enc(D.der_oid_enc(OID['bels_share']) + D.der_oid_enc(OID[_BELS[len(share)]]))
    return D.der_seq_enc(D.der_size_enc(0) + alg + D.der_oct_enc(bytes(share)))


_PBKDF2_KNOWN = {}     # (pwd, iter, salt) -> key: filled by callers with reference values computed once (10000 iterations cost ~8 s)


def pbkdf2(pwd, iter, salt):
    k = (bytes(pwd), iter, bytes(salt))
    if k not in _PBKDF2_KNOWN:
        _PBKDF2_KNOWN[k] = belt.pbkdf2(bytes(pwd), iter, bytes(salt))
    return _PBKDF2_KNOWN[k]


def epki_enc(edata, salt, iter):
    prf = D.der_seq_enc(D.der_oid_enc(OID['hmac_hbelt']) + D.der_null_enc())
    kdf = D.der_seq_enc(D.der_oid_enc(OID['pbkdf2']) + D.der_seq_enc(D.der_oct_enc(bytes(salt)) + D.der_size_enc(iter) + prf))
    enc = D.der_seq_enc(D.der_oid_enc(OID['belt_kwp256']) + D.der_null_enc())
    alg = D.der_seq_enc(D.der_oid_enc(OID['pbes2']) + D.der_seq_enc(kdf + enc))
    return D.der_seq_enc(alg + D.der_oct_enc(bytes(edata)))


def epki(pki, pwd, salt, iter):
    return epki_enc(belt.kwp_wrap(pbkdf2(pwd, iter, salt), bytes(pki), None), salt, iter)


def _exact(r, data):
    return r is not None and r[1] == len(data)


def epki_dec(data):
    """-> (edata, salt, iter) | None"""
    data = bytes(data)
    r = D.der_seq_dec(data)
    if not _exact(r, data):
        return None
    p = r[0]
    r = D.der_seq_dec(p)
    if r is None:
        return None
    alg, p = r[0], p[r[1]:]
    r = D.der_oct_dec(p)
    if not _exact(r, p):
        return None
    edata = bytes(r[0])
    n = D.der_oid_dec2(alg, OID['pbes2'])
    if n is None:
        return None
    alg = alg[n:]
    r = D.der_seq_dec(alg)
    if not _exact(r, alg):
        return None
    p = r[0]
    r = D.der_seq_dec(p)
    if r is None:
        return None
    kdf, enc = r[0], p[r[1]:]
    n = D.der_oid_dec2(kdf, OID['pbkdf2'])
    if n is None:
        return None
    kdf = kdf[n:]
    r = D.der_seq_dec(kdf)
    if not _exact(r, kdf):
        return None
    q = r[0]
    r = D.der_oct_dec2(q, 8)
    if r is None:
        return None
    salt, q = bytes(r[0]), q[r[1]:]
    r = D.der_size_dec(q)
    if r is None:
        return None
    iter, q = r[0], q[r[1]:]
    if q != D.der_seq_enc(D.der_oid_enc(OID['hmac_hbelt']) + D.der_null_enc()):
        return None
    if enc != D.der_seq_enc(D.der_oid_enc(OID['belt_kwp256']) + D.der_null_enc()):
        return None
    return edata, salt, iter


def pki_dec(pki):
    """PrivateKeyInfo -> ('privkey'|'share', key) | None"""
    pki = bytes(pki)
    r = D.der_seq_dec(pki)
    if not _exact(r, pki):
        return None
    p = r[0]
    n = D.der_size_dec(p)
    if n is None or n[0] != 0:
        return None
    p = p[n[1]:]
    r = D.der_seq_dec(p)
    if r is None:
        return None
    alg, p = r[0], p[r[1]:]
    r = D.der_oct_dec(p)
    if not _exact(r, p):
        return None
    key = bytes(r[0])
    for kind, head, table in (('privkey', 'bign_pubkey', _CURVE), ('share', 'bels_share', _BELS)):
        for n, name in table.items():
            if alg == D.der_oid_enc(OID[head]) + D.der_oid_enc(OID[name]) and len(key) == n:
                return kind, key
    return None


def epki_open(data, pwd):
    r = epki_dec(data)
    if r is None:
        return 'BAD_FORMAT', None, None
    edata, salt, iter = r
    if iter < 1:
        return 'BAD_INPUT', None, None
    if len(edata) < 32:
        return 'BAD_INPUT', None, None
    pki = belt.kwp_unwrap(pbkdf2(pwd, iter, salt), edata, None)
    if pki is None:
        return 'BAD_KEYTOKEN', None, None
    r = pki_dec(pki)
    if r is not None:
        return 'OK', r[0], r[1]
    return 'BAD_FORMAT', None, None


# ======================================================================================= CSR (STB 34.101.17 / PKCS#10 profile of bpki.h)
def csr_info(name_der, pubkey, attrs_der):
    spki = D.der_seq_enc(D.der_seq_enc(D.der_oid_enc(OID['bign_pubkey']) + D.der_oid_enc(OID['curve256'])) + D.der_bit_enc(bytes(pubkey), 512))
    return D.der_seq_enc(D.der_size_enc(0) + bytes(name_der) + spki + bytes(attrs_der))


def csr_enc(info, sig):
    return D.der_seq_enc(bytes(info) + D.der_seq_enc(D.der_oid_enc(OID['bign_with_hbelt']) + D.der_null_enc()) + D.der_bit_enc(bytes(sig), 384))


def csr_make(name_der, attrs_der, privkey, t=None):
    info = csr_info(name_der, pubkey_of(bytes(privkey)), attrs_der)
    return csr_enc(info, tok_sign(info, bytes(privkey), t))


def csr_parse(csr):
    csr = bytes(csr)
    r = D.der_seq_dec(csr)
    if not _exact(r, csr):
        return None
    p = r[0]
    tl = D.der_dec(p)
    if tl is None or tl[0] != 0x30:
        return None
    info, p = p[:tl[2]], p[tl[2]:]
    alg = D.der_seq_enc(D.der_oid_enc(OID['bign_with_hbelt']) + D.der_null_enc())
    if not p.startswith(alg):
        return None
    p = p[len(alg):]
    r = D.der_tbit_dec2(p, 0x03, 384)
    if r is None or r[1] != len(p):
        return None
    sig = bytes(r[0])
    q = tl[1]
    n = D.der_tsize_dec2(q, 0x02, 0)
    if n is None:
        return None
    q = q[n:]
    r = D.der_dec2(q, 0x30)
    if r is None:
        return None
    name, q = q[:r[1]], q[r[1]:]
    r = D.der_seq_dec(q)
    if r is None:
        return None
    spki, q = r[0], q[r[1]:]
    algid = D.der_seq_enc(D.der_oid_enc(OID['bign_pubkey']) + D.der_oid_enc(OID['curve256']))
    if not spki.startswith(algid):
        return None
    r = D.der_tbit_dec2(spki[len(algid):], 0x03, 512)
    if r is None or r[1] != len(spki) - len(algid):
        return None
    pubkey = bytes(r[0])
    r = D.der_dec2(q, 0xA0)
    if r is None or r[1] != len(q):
        return None
    return dict(info=info, name=name, pubkey=pubkey, attrs=q, sig=sig)


def csr_verify(csr):
    c = csr_parse(csr)
    if c is None:
        return None
    return c['pubkey'] if tok_verify(c['info'], c['sig'], c['pubkey']) == 'OK' else None


def csr_rewrap(csr, privkey):
    c = csr_parse(csr)
    if c is None:
        return None
    info = csr_info(c['name'], pubkey_of(bytes(privkey)), c['attrs'])
    return csr_enc(info, tok_sign(info, bytes(privkey), c['sig']))


# ======================================================================================= DER navigation (reports)
def der_path(data, j, _base=0):
    """human-readable position of octet j inside a DER structure: 'tag/tag/.. (T|L|V+off)'"""
    data = bytes(data)
    p = 0
    while p < len(data):
        t = D.der_t_dec(data[p:])
        tl = D.der_tl_dec(data[p:])
        if t is None or tl is None or tl[2] + tl[1] > len(data) - p:
            return '?+%d' % (j - p)
        tag, ln, c = tl
        if p <= j < p + c + ln:
            name = '%X' % tag
            if j < p + t[1]:
                return name + ':T'
            if j < p + c:
                return name + ':L'
            info = D.der_tag_info(tag)
            if info and info[1]:
                return name + '/' + der_path(data[p + c:p + c + ln], j - p - c)
            return name + ':V+%d' % (j - p - c)
        p += c + ln
    return '?'


# ======================================================================================= self-test
BELT_H32 = bytes.fromhex('B194BAC80A08F53B366D008E584A5DE48504FA9D1BB6C7AC252E72C202FDCE0D')
CSR_BEE2EVP = bytes.fromhex(
    '3082017A30820134020100305F3115301306035504030C0C524F4245525420534D495448310E300C06035504040C05534D495448310F300D060355042A0C06524F'
    '42455254311830160603550405130F50415347422D353333333234343238310B3009060355040613024742305D3018060A2A7000020022652D0201060A2A700002'
    '0022652D0301034100F64CDDFFE4D546EF484471583FAEBA9A38061084E280BF996F90BA6AF0DB6620F59ABAA7AD29D4E7D1CA0C21DD9E32D485F9E740841F4317'
    'CA9481503D1F1B50A06F301F06092A864886F70D01090731120C102F494E464F3A65726970323334313233304C06092A864886F70D01090E313F303D3017060355'
    '1D200410300E300C060A2A7000020022654E023D30220603551D11041B30198117726F626572742E736D697468406578616D706C652E756B300D06092A70000200'
    '22652D0C050003310082B4F9F934E3FD457F5DF06AE63A88E722E35D35F565551535BA94CEF9243011999DF2159E4F4BAC22AD8C3135A3BD26')


def selftest():
    n = 0
    keys = sm_keys(BELT_H32)
    a = sm_cmd_wrap(keys, 1, (0x00, 0xA4, 0x04, 0x04, bytes.fromhex('54657374'), 256))
    assert a == bytes.fromhex('04A4040414' '8705020C4C0BFB' '970100' '8E08FBD50AD6814F90A9' '00'), a.hex(); n += 1
    r = sm_resp_wrap(keys, 2, (0x90, 0x00, bytes.fromhex('E012C00401FF8010C00402FF8010C00403FF8010')))
    assert r == bytes.fromhex('8715022A9042A60A85E50FAB446AC80B75F144B67EBD6D' '8E082C4DE31DFAA17635' '9000'), r.hex(); n += 1
    assert sm_cmd_wrap(keys, 2, (0, 0xA4, 4, 4, b'', 0)) == 'BAD_LOGIC' and sm_cmd_wrap(keys, 1, (4, 0xA4, 4, 4, b'', 0)) == 'BAD_APDU'; n += 1
    # the CSR produced by OpenSSL[bee2evp] (bpki_test.c) verifies; re-issued under the key of bign test G.1 it carries that key's public key
    pk = csr_verify(CSR_BEE2EVP)
    assert pk == bytes.fromhex('F64CDDFFE4D546EF484471583FAEBA9A38061084E280BF996F90BA6AF0DB6620F59ABAA7AD29D4E7D1CA0C21DD9E32D485F9E740841F4317CA9481503D1F1B50'); n += 1
    d = bytes.fromhex('1F66B5B84B7339674533F0329C74F21834281FED0732429E0C79235FC273E269')
    c2 = csr_rewrap(CSR_BEE2EVP, d)
    assert len(c2) == len(CSR_BEE2EVP) and csr_verify(c2) == bytes.fromhex(
        'BD1A5650179D79E03FCEE49D4C2BD5DDF54CE46D0CF11E4FF87BF7A890857FD07AC6A60361E8C8173491686D461B2826190C2EDA5909054A9AB84D2AB9D99A90'); n += 1
    # certificates: wrap / parse / validate round trips for every key length
    for kl in (24, 32, 48, 64):
        d = bytes(range(1, kl + 1))
        c = dict(authority=b'BYCA0000', holder=b'BYCA0000', pubkey=b'', from_=bytes([2, 2, 0, 7, 0, 7]), until=bytes([9, 9, 0, 7, 0, 7]),
                 hat_eid=bytes.fromhex('EEEEEEEEEE'), hat_esign=bytes.fromhex('7777'))
        cert, full = cvc_wrap(c, d)
        st, back = cvc_unwrap(cert, 'self')
        assert st == 'OK' and back == full, (st, kl)
        assert cvc_unwrap(cert[:-1] + bytes([cert[-1] ^ 1]), 'self')[0] == 'BAD_SIG'
        d2 = bytes(range(2, 34))
        c1 = dict(authority=b'BYCA0000', holder=b'BYCA1000xyz', pubkey=pubkey_of(d2), from_=bytes([2, 2, 0, 7, 0, 7]), until=bytes([3, 0, 0, 1, 0, 1]),
                  hat_eid=bytes(5), hat_esign=bytes(2))
        cert1, full1 = cvc_iss(c1, cert, d)
        assert cvc_val(cert1, cert, bytes([2, 5, 0, 1, 0, 1])) == 'OK' and cvc_val(cert1, cert, bytes([3, 0, 0, 1, 0, 2])) == 'OUTOFRANGE'
        n += 1
    # containers
    for key in (bytes(range(24)), bytes(range(64))):
        e = epki(pki_privkey(key), b'zed', bytes(8), 2)
        assert epki_open(e, b'zed') == ('OK', 'privkey', key) and epki_open(e, b'zee')[0] == 'BAD_KEYTOKEN'; n += 1
    sh = b'\x05' + bytes(range(32))
    assert epki_open(epki(pki_share(sh), b'', b'12345678', 1), b'') == ('OK', 'share', sh); n += 1
    print('OK %d vectors' % n)
    return 0


if __name__ == '__main__':
    if '--selftest' in sys.argv:
        sys.exit(selftest())
