#!/usr/bin/env python3
# -*- coding: utf-8 -*-
"""
codec_st.py -- specification-level models of the DER *structures* handled by bee2
===============================================================================

Built on the primitives of codec.py (DER grammar with the library's documented limits).
Written from the ASN.1 type definitions quoted in the public headers / standards
(STB 34.101.45 D.11 ECParameters; STB 34.101.79 CV certificates and secure messaging;
STB 34.101.78 / PKCS#8 EncryptedPrivateKeyInfo), NOT from the decoding code: every
container is parsed *nested* (the contents octets of a SEQUENCE are cut out first and
must be consumed exactly), while the library walks one flat buffer with anchors.

Conventions: decoders take the whole buffer ([count]der: exact fit is required by all
high-level functions) and return a dict of fields or None (= "format error").
Encoders return the canonical code.

  ecparams_dec(der) / ecparams_enc(fields)             bignParamsDec / bignParamsEnc
  cvc_dec(der) / cvc_enc(fields) / cvc_body_enc        btokCVCUnwrap (format part) / btokCVCWrap
  cvc_check(fields) -> 'OK'|'BAD_NAME'|'BAD_DATE'|'BAD_PUBKEY'   btokCVCCheck
  pki_dec(der, kind) / pki_enc(key, kind)              PrivateKeyInfo (bign key / bels share)
  epki_dec(der) / epki_enc(salt, iter, edata)          EncryptedPrivateKeyInfo (PBES2 + belt-kwp)
  sm_cmd_parse(apdu) / sm_resp_parse(apdu)             format of SM-protected APDUs (btokSMCmdUnwrap /
                                                       btokSMRespUnwrap with a null output pointer)
  sm_cmd_wrap / sm_cmd_unwrap / sm_resp_wrap / sm_resp_unwrap   complete protection with belt-cfb / belt-mac

`python3 codec_st.py --selftest` round-trips the models on their own canonical codes.
"""
import os
import sys

sys.path.insert(0, os.path.dirname(os.path.abspath(__file__)))
import codec as C      # noqa: E402

OID_BIGN_PRIMEFIELD = "1.2.112.0.2.0.34.101.45.4.1"
OID_BIGN_PUBKEY = "1.2.112.0.2.0.34.101.45.2.1"
OID_CURVES = {24: "1.2.112.0.2.0.34.101.45.3.0", 32: "1.2.112.0.2.0.34.101.45.3.1",
              48: "1.2.112.0.2.0.34.101.45.3.2", 64: "1.2.112.0.2.0.34.101.45.3.3"}
OID_BELS_SHARE = "1.2.112.0.2.0.34.101.60.11"
OID_BELS_M = {17: "1.2.112.0.2.0.34.101.60.2.1", 25: "1.2.112.0.2.0.34.101.60.2.2",
              33: "1.2.112.0.2.0.34.101.60.2.3"}
OID_PBES2 = "1.2.840.113549.1.5.13"
OID_PBKDF2 = "1.2.840.113549.1.5.12"
OID_BELT_KWP256 = "1.2.112.0.2.0.34.101.31.73"
OID_HMAC_HBELT = "1.2.112.0.2.0.34.101.47.12"
OID_EID_ACCESS = "1.2.112.0.2.0.34.101.79.6.1"
OID_ESIGN_ACCESS = "1.2.112.0.2.0.34.101.79.6.2"
OID_ESIGN_AUTH_EXT = "1.2.112.0.2.0.34.101.79.8.1"


class _Reject(Exception):
    pass


def _size_dec2(data, val):
    return C.der_tsize_dec2(data, 0x02, val)


def _uint_dec2(data, length):
    return C.der_tuint_dec2(data, 0x02, length)


def _bit_dec2(data, bitlen):
    return C.der_tbit_dec2(data, 0x03, bitlen)


class _Cur:
    """sequential reader over the contents octets of one container"""

    def __init__(self, data):
        self.d = bytes(data)
        self.pos = 0

    def rest(self):
        return self.d[self.pos:]

    def take(self, dec, *args):
        """dec(rest, *args) -> tuple ending with the consumed length | int consumed | None"""
        r = dec(self.rest(), *args)
        if r is None:
            raise _Reject()
        if isinstance(r, tuple):
            self.pos += r[-1]
            return r[:-1] if len(r) > 2 else r[0]
        self.pos += r
        return None

    def seq(self, tag=0x30):
        """cut out the contents of a constructed element -> cursor over them"""
        return _Cur(self.take(C.der_tseq_dec, tag))

    def next_tag(self):
        t = C.der_t_dec(self.rest())
        return None if t is None else t[0]

    def end(self):
        if self.pos != len(self.d):
            raise _Reject()


def _top(der, tag):
    """the whole buffer is exactly one constructed element -> cursor over its contents"""
    der = bytes(der)
    r = C.der_tseq_dec(der, tag)
    if r is None or r[1] != len(der):
        raise _Reject()
    return _Cur(r[0])


def _wrap(f):
    def g(*a, **k):
        try:
            return f(*a, **k)
        except _Reject:
            return None
    g.__name__ = f.__name__
    g.__doc__ = f.__doc__
    return g


# =============================================================================
# ECParameters (STB 34.101.45, D.11)
# =============================================================================

@_wrap
def ecparams_dec(der):
    """-> dict(l, p, a, b, seed, yG, q (little-endian octets of l/4), cofactor: bool) | None"""
    c = _top(der, 0x30)
    c.take(_size_dec2, 1)                       # version
    f = c.seq()                                      # FieldID
    f.take(C.der_oid_dec2, OID_BIGN_PRIMEFIELD)
    p = f.take(C.der_uint_dec)
    f.end()
    n = len(p)
    if n not in (32, 48, 64):
        raise _Reject()
    cv = c.seq()                                     # Curve
    a = cv.take(C.der_oct_dec2, n)
    b = cv.take(C.der_oct_dec2, n)
    seed = cv.take(_bit_dec2, 64)
    cv.end()
    yG = c.take(C.der_oct_dec2, n)                   # base
    q = c.take(_uint_dec2, n)                   # order: exactly n significant octets
    cof = False
    if c.rest():
        c.take(_size_dec2, 1)                   # cofactor OPTIONAL
        cof = True
    c.end()
    return dict(l=4 * n, p=p, a=a, b=b, seed=seed, yG=yG, q=q, cofactor=cof)


def ecparams_enc(f, cofactor=False):
    field = C.der_seq_enc(C.der_oid_enc(OID_BIGN_PRIMEFIELD) + C.der_uint_enc(f['p']))
    curve = C.der_seq_enc(C.der_oct_enc(f['a']) + C.der_oct_enc(f['b']) + C.der_bit_enc(f['seed'], 64))
    body = C.der_size_enc(1) + field + curve + C.der_oct_enc(f['yG']) + C.der_uint_enc(f['q'])
    if cofactor:
        body += C.der_size_enc(1)
    return C.der_seq_enc(body)


# =============================================================================
# CV certificates (STB 34.101.79)
# =============================================================================

def _name_ok(s):
    return 8 <= len(s) <= 12 and C.str_is_printable(s)


def _cvc_body(c):
    f = {}
    c.take(C.der_tsize_dec2, 0x5F29, 0)              # version 0
    f['authority'] = c.take(C.der_tpstr_dec, 0x42)
    if not 8 <= len(f['authority']) <= 12:
        raise _Reject()
    pk = c.seq(0x7F49)
    pk.take(C.der_oid_dec2, OID_BIGN_PUBKEY)
    val, bits = pk.take(C.der_bit_dec)
    pk.end()
    if bits not in (384, 512, 768, 1024):
        raise _Reject()
    f['pubkey'] = val
    f['holder'] = c.take(C.der_tpstr_dec, 0x5F20)
    if not 8 <= len(f['holder']) <= 12:
        raise _Reject()
    f['hat_eid'] = bytes(5)
    f['hat_esign'] = bytes(2)
    if c.next_tag() == 0x7F4C:
        h = c.seq(0x7F4C)
        h.take(C.der_oid_dec2, OID_EID_ACCESS)
        f['hat_eid'] = h.take(C.der_oct_dec2, 5)
        h.end()
    f['from'] = c.take(C.der_toct_dec2, 0x5F25, 6)
    f['until'] = c.take(C.der_toct_dec2, 0x5F24, 6)
    if c.next_tag() == 0x65:
        e = c.seq(0x65)
        d = e.seq(0x73)
        d.take(C.der_oid_dec2, OID_ESIGN_AUTH_EXT)
        h = d.seq(0x7F4C)
        h.take(C.der_oid_dec2, OID_ESIGN_ACCESS)
        f['hat_esign'] = h.take(C.der_oct_dec2, 2)
        h.end()
        d.end()
        e.end()
    c.end()
    return f


@_wrap
def cvc_dec(der, sig_len=None):
    """format of CVCertificate -> fields (+ 'body': the signed octets, 'sig') | None.
    sig_len: expected signature length (None: any of 34, 48, 72, 96)."""
    c = _top(der, 0x7F21)
    start = c.pos
    f = _cvc_body(c.seq(0x7F4E))
    f['body'] = c.d[start:c.pos]
    sig = c.take(C.der_toct_dec, 0x5F37)
    if (sig_len is None and len(sig) not in (34, 48, 72, 96)) or (sig_len is not None and len(sig) != sig_len):
        raise _Reject()
    f['sig'] = sig
    c.end()
    return f


def cvc_body_enc(f):
    body = C.der_tsize_enc(0x5F29, 0) + C.der_tpstr_enc(0x42, f['authority'])
    body += C.der_tseq_enc(0x7F49, C.der_oid_enc(OID_BIGN_PUBKEY) + C.der_bit_enc(f['pubkey'], 8 * len(f['pubkey'])))
    body += C.der_tpstr_enc(0x5F20, f['holder'])
    if any(f.get('hat_eid', b'')):
        body += C.der_tseq_enc(0x7F4C, C.der_oid_enc(OID_EID_ACCESS) + C.der_oct_enc(f['hat_eid']))
    body += C.der_toct_enc(0x5F25, f['from']) + C.der_toct_enc(0x5F24, f['until'])
    if any(f.get('hat_esign', b'')):
        hat = C.der_tseq_enc(0x7F4C, C.der_oid_enc(OID_ESIGN_ACCESS) + C.der_oct_enc(f['hat_esign']))
        body += C.der_tseq_enc(0x65, C.der_tseq_enc(0x73, C.der_oid_enc(OID_ESIGN_AUTH_EXT) + hat))
    return C.der_tseq_enc(0x7F4E, body)


def cvc_enc(f):
    return C.der_tseq_enc(0x7F21, cvc_body_enc(f) + C.der_toct_enc(0x5F37, f['sig']))


def cvc_check(f):
    """btokCVCCheck on decoded fields -> 'OK' | 'BAD_NAME' | 'BAD_DATE' | 'BAD_PUBKEY'"""
    import dates
    import bign
    if not _name_ok(f['authority']) or not _name_ok(f['holder']):
        return 'BAD_NAME'
    if not dates.date6_is_valid(f['from']) or not dates.date6_is_valid(f['until']) or bytes(f['from']) > bytes(f['until']):
        return 'BAD_DATE'
    l = {48: 96, 64: 128, 96: 192, 128: 256}.get(len(f['pubkey']))
    if l is None:
        return 'BAD_INPUT'
    return 'OK' if bign.pubkey_is_valid(l, f['pubkey']) else 'BAD_PUBKEY'


# =============================================================================
# PrivateKeyInfo / EncryptedPrivateKeyInfo (STB 34.101.78)
# =============================================================================

@_wrap
def pki_dec(der, kind='privkey'):
    """-> key octets | None.  kind: 'privkey' (bign key of 24/32/48/64 octets) or 'share' (17/25/33)"""
    c = _top(der, 0x30)
    c.take(_size_dec2, 0)
    a = c.seq()
    a.take(C.der_oid_dec2, OID_BIGN_PUBKEY if kind == 'privkey' else OID_BELS_SHARE)
    o = a.take(C.der_oid_dec)
    a.end()
    table = OID_CURVES if kind == 'privkey' else OID_BELS_M
    n = [k for k, v in table.items() if v == o]
    if not n:
        raise _Reject()
    key = c.take(C.der_oct_dec2, n[0])
    c.end()
    return key


def pki_enc(key, kind='privkey'):
    if kind == 'privkey':
        alg = C.der_oid_enc(OID_BIGN_PUBKEY) + C.der_oid_enc(OID_CURVES[len(key)])
    else:
        alg = C.der_oid_enc(OID_BELS_SHARE) + C.der_oid_enc(OID_BELS_M[len(key)])
    return C.der_seq_enc(C.der_size_enc(0) + C.der_seq_enc(alg) + C.der_oct_enc(key))


@_wrap
def epki_dec(der):
    """-> dict(salt, iter, edata) | None"""
    c = _top(der, 0x30)
    ea = c.seq()                                     # EncryptionAlgorithmIdentifier
    ea.take(C.der_oid_dec2, OID_PBES2)
    p2 = ea.seq()                                    # PBES2-params
    kd = p2.seq()                                    # PBKDF2AlgorithmIdentifier
    kd.take(C.der_oid_dec2, OID_PBKDF2)
    kp = kd.seq()                                    # PBKDF2-params
    salt = kp.take(C.der_oct_dec2, 8)
    it = kp.take(C.der_size_dec)
    prf = kp.seq()
    prf.take(C.der_oid_dec2, OID_HMAC_HBELT)
    prf.take(C.der_null_dec)
    prf.end()
    kp.end()
    kd.end()
    kw = p2.seq()                                    # BeltKwpAlgorithmIdentifier
    kw.take(C.der_oid_dec2, OID_BELT_KWP256)
    kw.take(C.der_null_dec)
    kw.end()
    p2.end()
    ea.end()
    edata = c.take(C.der_oct_dec)
    c.end()
    return dict(salt=salt, iter=it, edata=edata)


def epki_enc(salt, it, edata):
    prf = C.der_seq_enc(C.der_oid_enc(OID_HMAC_HBELT) + C.der_null_enc())
    kp = C.der_seq_enc(C.der_oct_enc(salt) + C.der_size_enc(it) + prf)
    kd = C.der_seq_enc(C.der_oid_enc(OID_PBKDF2) + kp)
    kw = C.der_seq_enc(C.der_oid_enc(OID_BELT_KWP256) + C.der_null_enc())
    ea = C.der_seq_enc(C.der_oid_enc(OID_PBES2) + C.der_seq_enc(kd + kw))
    return C.der_seq_enc(ea + C.der_oct_enc(edata))


_kdf_cache = {}


def epki_key(pwd, salt, it):
    import belt
    k = (bytes(pwd), bytes(salt), it)
    if k not in _kdf_cache:
        _kdf_cache[k] = belt.pbkdf2(bytes(pwd), it, bytes(salt))
    return _kdf_cache[k]


def epki_unwrap(der, pwd, kind='privkey', key=None):
    """-> ('OK', key octets) | ('BAD_FORMAT'|'BAD_INPUT'|'BAD_KEYTOKEN', None)
    key: the PBKDF2 output if the caller has it already (10000 iterations are slow here)"""
    import belt
    e = epki_dec(der)
    if e is None:
        return 'BAD_FORMAT', None
    if e['iter'] < 1:
        return 'BAD_INPUT', None                     # beltPBKDF2: iter >= 1
    if len(e['edata']) < 32:
        return 'BAD_INPUT', None                     # beltKWPUnwrap: at least 32 octets
    k = key if key is not None else epki_key(pwd, e['salt'], e['iter'])
    pki = belt.kwp_unwrap(k, e['edata'], None)
    if pki is None:
        return 'BAD_KEYTOKEN', None
    x = pki_dec(pki, kind)
    if x is None:
        return 'BAD_FORMAT', None
    return 'OK', x


def epki_wrap(secret, pwd, salt, it, kind='privkey', key=None):
    import belt
    k = key if key is not None else epki_key(pwd, salt, it)
    return epki_enc(salt, it, belt.kwp_wrap(k, pki_enc(secret, kind), None))


# =============================================================================
# Secure messaging (STB 34.101.79, 12): format and protection of APDUs
#   command:  CLA* INS P1 P2 Lc* CDF* Le*,  CDF* = [87 L 02 Y] [97 L Le] 8E 08 T
#   response: RDF* SW1 SW2,                 RDF* = [87 L 02 Y] 8E 08 T
# =============================================================================

def _le_octets(cdf_len, rdf_len):
    """the Le field of the unprotected command (apdu.h item 5), carried in DO 97"""
    if rdf_len == 0:
        return b''
    if cdf_len < 256 and rdf_len <= 256:
        return bytes([rdf_len & 255])
    if cdf_len:
        return (rdf_len & 0xFFFF).to_bytes(2, 'big')
    return b'\x00' + (rdf_len & 0xFFFF).to_bytes(2, 'big')


@_wrap
def sm_cmd_parse(apdu, canonical=True):
    """format of a protected command -> dict(hdr, y (cryptogram), cdf_len, rdf_len, mac, maced) | None.
    canonical: Lc*/Le* in the forms the standard prescribes (short iff |CDF*| < 256 and |RDF| <= 256)."""
    apdu = bytes(apdu)
    if len(apdu) < 15 or not (apdu[0] & 0x04):
        raise _Reject()
    if apdu[4] != 0:
        lcl, n = 1, apdu[4]
    else:
        lcl, n = 3, int.from_bytes(apdu[5:7], 'big')
        if n == 0:
            raise _Reject()
    body = apdu[4 + lcl:4 + lcl + n]
    tail = apdu[4 + lcl + n:]
    if len(body) != n:
        raise _Reject()
    c = _Cur(body)
    y = b''
    if c.next_tag() == 0x87:
        v = c.take(C.der_toct_dec, 0x87)
        if len(v) < 2 or v[0] != 0x02:
            raise _Reject()
        y = v[1:]
    rdf_len = 0
    if c.next_tag() == 0x97:
        le = c.take(C.der_toct_dec, 0x97)
        if len(le) == 1:
            rdf_len = le[0] or 256
        elif len(le) == 2:
            rdf_len = int.from_bytes(le, 'big') or 65536
        elif len(le) == 3 and le[0] == 0:
            rdf_len = int.from_bytes(le[1:], 'big') or 65536
        else:
            raise _Reject()
        if le != _le_octets(len(y), rdf_len):
            raise _Reject()                          # Le of the plain command must be in its own proper form
    maced = c.pos
    mac = c.take(C.der_toct_dec2, 0x8E, 8)
    c.end()
    short = n < 256 and rdf_len <= 256
    if rdf_len == 0:
        want_tail = b''
    else:
        want_tail = b'\x00' if short else b'\x00\x00'
    if tail != want_tail:
        raise _Reject()
    if canonical and (lcl == 1) != short:
        raise _Reject()
    if not canonical and rdf_len and (lcl == 1) != short:
        raise _Reject()                              # form of Le* must match the form of Lc*
    return dict(hdr=apdu[:4], y=y, cdf_len=len(y), rdf_len=rdf_len, mac=mac, maced=apdu[:4] + body[:maced], lc_len=lcl)


@_wrap
def sm_resp_parse(apdu):
    apdu = bytes(apdu)
    if len(apdu) < 12:
        raise _Reject()
    c = _Cur(apdu[:-2])
    y = b''
    if c.next_tag() == 0x87:
        v = c.take(C.der_toct_dec, 0x87)
        if len(v) < 2 or v[0] != 0x02:
            raise _Reject()
        y = v[1:]
    maced = c.pos
    mac = c.take(C.der_toct_dec2, 0x8E, 8)
    c.end()
    return dict(y=y, rdf_len=len(y), mac=mac, maced=apdu[:maced] + apdu[-2:], sw=apdu[-2:])


def sm_keys(key):
    import belt
    hdr = lambda i: bytes([i]) + bytes(15)        # key_i = belt-keyrep(key, D = 0, I = <i>_128, 256)
    return belt.krp(key, bytes(12), hdr(1), 32), belt.krp(key, bytes(12), hdr(2), 32)


def sm_cmd_wrap(key, ctr, cla, ins, p1, p2, cdf, rdf_len):
    """ctr: value of the SM counter at the moment of protection (odd)"""
    import belt
    k1, k2 = sm_keys(key)
    iv = int(ctr).to_bytes(16, 'little')
    hdr = bytes([cla | 0x04, ins, p1, p2])
    body = b''
    if cdf:
        body += C.der_enc(0x87, b'\x02' + belt.cfb_encr(k2, iv, cdf))
    if rdf_len:
        body += C.der_enc(0x97, _le_octets(len(cdf), rdf_len))
    t = belt.mac(k1, hdr + body)
    body += C.der_enc(0x8E, t)
    if len(body) > 65535:
        return None                                  # the protected data field has no Lc* representation
    short = len(body) < 256 and rdf_len <= 256
    lc = bytes([len(body)]) if short else b'\x00' + len(body).to_bytes(2, 'big')
    tail = b'' if rdf_len == 0 else (b'\x00' if short else b'\x00\x00')
    return hdr + lc + body + tail


def sm_cmd_unwrap(key, ctr, apdu):
    """-> ('OK', (cla, ins, p1, p2, cdf, rdf_len)) | ('BAD_APDU'|'BAD_MAC', None)"""
    import belt
    f = sm_cmd_parse(apdu, canonical=False)
    if f is None:
        return 'BAD_APDU', None
    k1, k2 = sm_keys(key)
    if belt.mac(k1, f['maced']) != f['mac']:
        return 'BAD_MAC', None
    iv = int(ctr).to_bytes(16, 'little')
    h = f['hdr']
    return 'OK', (h[0] & 0xFB, h[1], h[2], h[3], belt.cfb_decr(k2, iv, f['y']), f['rdf_len'])


def sm_resp_wrap(key, ctr, sw1, sw2, rdf):
    import belt
    k1, k2 = sm_keys(key)
    iv = int(ctr).to_bytes(16, 'little')
    body = b''
    if rdf:
        body += C.der_enc(0x87, b'\x02' + belt.cfb_encr(k2, iv, rdf))
    t = belt.mac(k1, body + bytes([sw1, sw2]))
    return body + C.der_enc(0x8E, t) + bytes([sw1, sw2])


def sm_resp_unwrap(key, ctr, apdu):
    import belt
    f = sm_resp_parse(apdu)
    if f is None:
        return 'BAD_APDU', None
    k1, k2 = sm_keys(key)
    if belt.mac(k1, f['maced']) != f['mac']:
        return 'BAD_MAC', None
    iv = int(ctr).to_bytes(16, 'little')
    return 'OK', (f['sw'][0], f['sw'][1], belt.cfb_decr(k2, iv, f['y']))


# =============================================================================
# self-test: the models invert themselves on their canonical codes
# =============================================================================

def selftest(path=None):
    import bign
    n = 0
    for l in (128, 192, 256):
        ps = bign.params(l)
        no = l // 4
        f = dict(p=ps['p'].to_bytes(no, 'little'), a=ps['a'].to_bytes(no, 'little'), b=ps['b'].to_bytes(no, 'little'),
                 q=ps['q'].to_bytes(no, 'little'), yG=ps['yG'].to_bytes(no, 'little'),
                 seed=bytes(ps['seed']) if isinstance(ps['seed'], (bytes, bytearray)) else int(ps['seed']).to_bytes(8, 'little'))
        for cof in (False, True):
            e = ecparams_enc(f, cof)
            d = ecparams_dec(e)
            assert d is not None and d['cofactor'] == cof and all(d[k] == f[k] for k in f), l
            assert ecparams_dec(e + b'\0') is None and ecparams_dec(e[:-1]) is None
            n += 3
    cv = dict(authority='BYCA0000', holder='BYCA1000xyz', pubkey=bytes(range(64)), hat_eid=bytes.fromhex('EEEEEEEEEE'),
              hat_esign=bytes.fromhex('7777'), until=bytes([2, 2, 0, 7, 0, 7]), sig=bytes(48))
    cv['from'] = bytes([2, 2, 0, 7, 0, 7])
    for he in (cv['hat_eid'], bytes(5)):
        for hs in (cv['hat_esign'], bytes(2)):
            g = dict(cv, hat_eid=he, hat_esign=hs)
            e = cvc_enc(g)
            d = cvc_dec(e)
            assert d is not None and all(d[k] == g[k] for k in g), (he, hs)
            assert cvc_dec(e + b'\0') is None and cvc_dec(e[:-1]) is None and cvc_dec(e, 72) is None
            n += 4
    for key in (bytes(range(24)), bytes(range(32)), bytes(range(48)), bytes(range(64))):
        assert pki_dec(pki_enc(key)) == key
        n += 1
    for sh in (bytes(range(1, 18)), bytes(range(1, 26)), bytes(range(1, 34))):
        assert pki_dec(pki_enc(sh, 'share'), 'share') == sh and pki_dec(pki_enc(sh, 'share')) is None
        n += 2
    e = epki_enc(bytes(8), 10000, bytes(60))
    assert epki_dec(e) == dict(salt=bytes(8), iter=10000, edata=bytes(60)) and epki_dec(e[:-1]) is None
    n += 2
    key = bytes(range(32))
    for cl in (0, 1, 200, 255, 256):
        for rl in (0, 1, 256, 257, 65536):
            cdf = bytes((7 * i + 1) & 255 for i in range(cl))
            w = sm_cmd_wrap(key, 1, 0x00, 0xA4, 4, 12, cdf, rl)
            assert sm_cmd_parse(w) is not None, (cl, rl)
            assert sm_cmd_unwrap(key, 1, w) == ('OK', (0x00, 0xA4, 4, 12, cdf, rl)), (cl, rl)
            bad = bytearray(w); bad[-3 if rl else -1] ^= 1
            assert sm_cmd_unwrap(key, 1, bytes(bad))[0] in ('BAD_MAC', 'BAD_APDU')
            n += 3
        rdf = bytes((3 * i + 2) & 255 for i in range(cl))
        w = sm_resp_wrap(key, 2, 0x90, 0x00, rdf)
        assert sm_resp_unwrap(key, 2, w) == ('OK', (0x90, 0x00, rdf))
        n += 1
    print('OK %d checks' % n)
    return 0


if __name__ == '__main__':
    if len(sys.argv) >= 2 and sys.argv[1] == '--selftest':
        sys.exit(selftest())
    print(__doc__)
    sys.exit(2)
