#!/usr/bin/env python3
"""Declarative catalogue of the arithmetic layer of bee2 (ww.h, zz.h, pp.h and the qr_o rings of zm.h/gfp.h/gf2.h)
for property C05.  Specification level: every entry is written from the header text (\\pre, \\return, formula),
results are Python ints (integers, or GF(2)[x] through polys.py).  Nothing here touches the library.

An entry (class Fn) states
  name      public symbol; fast=True: an irregular edition `name_fast` exists and obeys the same contract
  ret       'void' | 'word' | 'bool' | 'int' | 'size'
  args      list of Arg in C order: kind 'out'/'in'/'io' (word arrays of `length` words, length = expression over
            the shape variables), 'w' (word scalar), 'len' (shape variable passed as size_t), 'sz' (size_t scalar that is
            a value, e.g. a shift), 'st' (struct of size_t built from shape variables), 'stack' (scratch of exactly
            xxx_deep(...) octets)
  shapes    (N, W) -> list of dicts of shape variables (operand lengths etc.) for the bound N
  dom       per input name the value domain (a generator function of this module: it sees the inputs chosen so far)
  pre       documented preconditions as a predicate; tuples violating it are never executed
  alias     permitted coincidences of buffers, e.g. 'c=a': the group shares one buffer; the value of the group is that
            of its first in/io member
  f         v -> {'ret': .., outname: int | None(unspecified)}   exact formula
  check     (v, got) -> message | None      for relational contracts (Bezout coefficients, almost inverse)
"""
import hashlib, os, struct, sys
sys.path.insert(0, os.path.dirname(os.path.abspath(__file__)))
import polys as P

SEED = int(os.environ.get('VERIF_SEED', '1') or '1')

def filler(tag, n):
    out = b''; s = ('%s/%s' % (SEED, tag)).encode(); i = 0
    while len(out) < n:
        out += hashlib.sha256(s + struct.pack('<I', i)).digest(); i += 1
    return out[:n]

def fint(tag, bits):
    if bits <= 0:
        return 0
    return int.from_bytes(filler('c05/' + tag, (bits + 7) // 8), 'little') & ((1 << bits) - 1)

class V(dict):
    __getattr__ = dict.__getitem__
    def __setattr__(self, k, v): self[k] = v

class Arg:
    __slots__ = ('name', 'kind', 'length')
    def __init__(self, name, kind, length=None):
        self.name, self.kind, self.length = name, kind, length
    def __repr__(self):
        return '%s:%s%s' % (self.name, self.kind, '[%s]' % self.length if self.length else '')

def parse_args(spec):
    """'c:out[n] a:in[n] n:len w:w stack:stack[zzMul_deep(n,m)] p:st[m,k]'"""
    out = []
    for tok in spec.split():
        name, rest = tok.split(':', 1)
        if '[' in rest:
            kind, ln = rest.split('[', 1); ln = ln[:-1]
        else:
            kind, ln = rest, None
        out.append(Arg(name, kind, ln))
    return out

CAT = {}
class Fn:
    def __init__(self, name, ret, args, shapes, dom, f=None, check=None, pre=None, alias=(), fast=False, group='zz',
                 note='', risky=None, tiers=None):
        self.name, self.ret, self.args = name, ret, parse_args(args)
        self.shapes, self.dom, self.f, self.check, self.pre = shapes, dom, f, check, pre
        self.alias, self.fast, self.group, self.note = tuple(alias), fast, group, note
        self.risky = risky          # v -> True: inputs executed one by one with a short timeout (documented domain, may hang)
        CAT[name] = self
    def editions(self):
        return ('', '_fast') if self.fast else ('',)
    def inputs(self):
        return [a for a in self.args if a.kind in ('in', 'io', 'w', 'sz')]
    def arrays(self):
        return [a for a in self.args if a.kind in ('in', 'io', 'out')]

def ev(expr, sh, W):
    return eval(expr, {'max': max, 'min': min, 'W': W, 'WOB': lambda b: (b + W - 1) // W}, dict(sh))

# ------------------------------------------------------------------------------------------ value alphabets
def word_alpha(W):
    B = 1 << W
    return [0, 1, 2, B // 2 - 1, B // 2, B // 2 + 1, B - 2, B - 1]

def word_full(W):
    B = 1 << W; h = 1 << (W // 2)
    return word_alpha(W) + [3, h - 1, h, h + 1, B - 3, fint('w0', W), fint('w1', W) | 1]

def alt(n, W, start):
    """alternating bit pattern 1010.. / 0101.. over n words"""
    bits = n * W
    return (((1 << bits) - 1) // 3) << start & ((1 << bits) - 1)

def altw(n, W, start):
    """alternating words B-1,0,B-1,.. starting at word `start`"""
    v = 0
    for i in range(start, n, 2):
        v |= ((1 << W) - 1) << (i * W)
    return v

_cache = {}
def num_full(n, W):
    """operand patterns of an n-word number: all-zero, all-ones, single word at each position, single bit at each
    position (n <= 4; word-boundary bits above), B^n - 1, B^n / 2, alternating, filler; for n <= 2 the complete
    cross product of the word alphabet"""
    k = ('full', n, W)
    if k in _cache:
        return _cache[k]
    B = 1 << W; Bn = 1 << (n * W)
    if n == 0:
        r = [0]
    else:
        r = [0, 1, Bn - 1, Bn // 2, Bn // 2 - 1, Bn // 2 + 1, Bn - 2, alt(n, W, 0), alt(n, W, 1), altw(n, W, 0), altw(n, W, 1)]
        wa = word_alpha(W)
        if n <= 2:
            for x in wa:
                if n == 1:
                    r.append(x)
                else:
                    r += [x | y << W for y in wa]
        wv = wa[1:] if n <= 4 else [1, B // 2, B - 1]
        for i in range(n):
            r += [x << (i * W) for x in wv]
        if n <= 4:
            r += [1 << i for i in range(n * W)]
        else:
            for i in range(n):
                r += [1 << (i * W), 1 << (i * W + W - 1)]
        if n == 1:
            h = 1 << (W // 2); r += [h - 1, h, h + 1, 3, B - 3]
        r += [fint('nf%d/%d' % (n, j), n * W) for j in range(3)]
        r.append(fint('nft%d' % n, n * W) | Bn // 2)             # top bit set
        r.append(fint('nfs%d' % n, n * W - W + 1) | 1)           # top word 0/1
    r = list(dict.fromkeys(r))
    _cache[k] = r
    return r

def num_core(n, W):
    k = ('core', n, W)
    if k in _cache:
        return _cache[k]
    Bn = 1 << (n * W); B = 1 << W
    if n == 0:
        r = [0]
    else:
        r = [0, 1, Bn - 1, Bn // 2, (B - 1) << ((n - 1) * W), B - 1, alt(n, W, 0), fint('nf%d/0' % n, n * W)]
    r = list(dict.fromkeys(r))
    _cache[k] = r
    return r

# primes (largest prime below 2^k) are found once by the explorer's parent process (ref/pri.py) and injected here
PRIMES = {}
def prime_below(bits):
    if bits not in PRIMES:
        import pri
        p = (1 << bits) - 1
        while not pri.is_prime(p):
            p -= 2
        PRIMES[bits] = p
    return PRIMES[bits]

def pow3_below(x):
    p = 3
    while p * 3 < x:
        p *= 3
    return p

def moduli(n, W, kind='any'):
    """moduli of exactly n words (mod[n-1] != 0), > 1: odd/even, Crandall B^n - c, top bit set/clear, prime/composite,
    B^n - 1, B^(n-1) + 1.  kind: 'any' | 'odd' | 'crand' (B^n - c, 0 < c < B, n >= 2) | 'crandodd'"""
    k = ('mod', n, W, kind)
    if k in _cache:
        return _cache[k]
    B = 1 << W; Bn = 1 << (n * W)
    if n == 0:
        return []
    cr = [Bn - c for c in (1, 2, 3, B // 2, B - 2, B - 1, fint('crc', W) | 1)]
    if kind.startswith('crand'):
        r = cr if n >= 2 else []
    else:
        r = cr + [Bn // B + 1, Bn // 2, Bn // 2 + 1, Bn // 2 - 1, prime_below(n * W), prime_below(n * W - W + 2),
                  pow3_below(Bn), 2 * pow3_below(Bn // 2), fint('md%d' % n, n * W) | Bn // 2 | 1, fint('me%d' % n, n * W - 2) | Bn // 4 | 1,
                  (fint('mf%d' % n, n * W) | Bn // 2) & ~1, Bn // B * 2 + 1, Bn // B * 3]
        if n == 1:
            r += [2, 3, 4, 5, 6, 7, 9, 15, 255, 256, 257, 1 << (W // 2), (1 << (W // 2)) + 1, (1 << (W // 2)) - 1]
    r = [m for m in dict.fromkeys(r) if m > 1 and m >> ((n - 1) * W) and m < Bn]
    if kind in ('odd', 'crandodd'):
        r = [m for m in r if m & 1]
    _cache[k] = r
    return r

def elems(mod, n, W):
    """residues modulo mod: 0, 1, mod-1, mod-2, (mod+-1)/2, word-structured values below mod, non-units, filler"""
    k = ('el', mod, n, W)
    if k in _cache:
        return _cache[k]
    B = 1 << W
    r = [0, 1, 2, 3, mod - 1, mod - 2, (mod - 1) // 2, (mod + 1) // 2, mod // 2 + 1, mod // 3, B - 1, B, 1 << ((n - 1) * W),
         (1 << ((n - 1) * W)) - 1, mod - B, mod - (B - 1), mod - (1 << ((n - 1) * W)), pow3_below(mod), mod >> 1 & ~1,
         alt(n, W, 0) % mod, altw(n, W, 0) % mod, fint('el%d/0' % n, n * W) % mod, fint('el%d/1' % n, n * W) % mod]
    x = 1
    while x * x < mod:
        x <<= 1
    r += [x, x - 1]
    r = [e for e in dict.fromkeys(r) if 0 <= e < mod]
    if len(_cache) < 200000:
        _cache[k] = r
    return r

def red_inputs(mod, n, W, bound):
    """2n-word inputs of a reduction: multiples k * mod, neighbours, squares, word patterns (all < bound)"""
    B = 1 << W; Bn = 1 << (n * W)
    K = [1, 2, 3, B - 1, B, B + 1, 2 * B, 2 * B + 1, Bn - 1, Bn, Bn + 1, Bn // B, Bn // B + 1, Bn // 2, Bn // 2 + 1, Bn - 2, Bn - B, Bn - B - 1,
         (bound - 1) // mod, (bound - 1) // mod - 1, mod - 1, mod, fint('rk%d' % n, n * W), fint('rk%d' % n, n * W) & ~1]
    r = [0, 1, mod - 1, mod + 1, 2 * mod - 1, bound - 1, bound - 2, mod * Bn - 1, (mod - 1) ** 2, mod * (mod - 1), Bn, Bn - 1, Bn + 1,
         bound // 2, (Bn - 1) ** 2, (Bn - 1) * Bn]
    for kk in K:
        r += [kk * mod, kk * mod - 1, kk * mod + 1]
    r += num_full(2 * n, W)
    return [x for x in dict.fromkeys(r) if 0 <= x < bound]

# ------------------------------------------------------------------------------------------ domains
# a domain is a function (v, sh, W, name) -> (full list, core list); v holds the inputs chosen so far
def D_num(lenexpr):
    def d(v, sh, W, name):
        n = ev(lenexpr, sh, W)
        return num_full(n, W), num_core(n, W)
    return d

def D_nz(lenexpr):
    def d(v, sh, W, name):
        n = ev(lenexpr, sh, W)
        return [x for x in num_full(n, W) if x], [x for x in num_core(n, W) if x]
    return d

def D_word(v, sh, W, name):
    return word_full(W), word_alpha(W)

def D_word_nz(v, sh, W, name):
    return [x for x in word_full(W) if x], [x for x in word_alpha(W) if x]

def D_word_small(v, sh, W, name):
    h = 1 << (W // 2)
    r = [1, 2, 3, 5, 7, 10, 255, 256, 257, h // 2, h - 2, h - 1, h, fint('ws', W // 2) | 1]
    return r, r

def D_mod(kind='any', lenexpr='n'):
    def d(v, sh, W, name):
        m = moduli(ev(lenexpr, sh, W), W, kind)
        return m, m
    d.outer = True
    return d

def D_lt(modname='mod', lenexpr='n'):
    def d(v, sh, W, name):
        e = elems(v[modname], ev(lenexpr, sh, W), W)
        return e, e
    return d

def D_wlt(modname='mod'):
    def d(v, sh, W, name):
        r = [x for x in word_full(W) if x < v[modname]]
        return r, r
    return d

def D_list(fn):
    def d(v, sh, W, name):
        r = list(dict.fromkeys(fn(v, sh, W)))
        return r, r
    return d

def shifts(n, W):
    r = [0, 1, 2, W // 2, W - 1, W, W + 1, 2 * W - 1, 2 * W, n * W - 1, n * W, n * W + 1, (n + 1) * W - 1, (n + 1) * W, (n + 1) * W + 1,
         (n + 2) * W - 1, (n + 2) * W, (n + 2) * W + 1, (n + 3) * W, 1 << 20, (n // 2) * W, (n // 2) * W + 3]
    return [x for x in dict.fromkeys(r) if x >= 0]

D_shift = D_list(lambda v, sh, W: shifts(sh['n'], W))

def rng(lo=0):
    return lambda N, W: [dict(n=n) for n in range(lo, N + 1)]

def rng2(lo_n=0, lo_m=0, cond=None):
    def s(N, W):
        return [dict(n=n, m=m) for n in range(lo_n, N + 1) for m in range(lo_m, N + 1) if cond is None or cond(n, m)]
    return s

def sgn(x):
    return (x > 0) - (x < 0)

def load():
    import arith_cat_ww, arith_cat_zz, arith_cat_pp      # noqa: F401  (register their entries)
    return CAT

if __name__ == '__main__':
    import arith_catalogue as AC
    AC.load()
    if '--selftest' in sys.argv:
        import arith_cat_zz
        arith_cat_zz.selftest()
        print('OK %d entries' % len(AC.CAT))
    else:
        for n, e in sorted(AC.CAT.items()):
            print('%-18s %-5s %s  alias=%s fast=%s' % (n, e.ret, e.args, e.alias, e.fast))
