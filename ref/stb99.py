#!/usr/bin/env python3
"""Specification-level reference model of STB 1176.2-99 long-term parameters as documented in bee2 stb99.h.

Montgomery group B_p: u o v = u v R^-1 mod p, R = 2^(l+2); identity e = R mod p; numbers stored as is,
octet strings little-endian: p, a, d in O_OF_B(l) octets, q in O_OF_B(r) octets.

API
---
LS, RS                      table 7.1 (l -> r)
STD_NAMES, params_std(name) -> dict(l, r, p, q, a, d); seed_std(name) -> dict(l, zi[31], di[18], ri[10])
mont_pow(P, u, x)
params_val(P)               stb99ParamsVal conditions (p l-bit prime, q r-bit prime, q | p-1, 0 < a, d < p,
                            a = d^((p-1)/q) in B_p, a != e)
seed_val(S), seed_adj(S)    stb99SeedVal / stb99SeedAdj documented conditions
params_gen(S)               algorithms 7.2, 7.3 as outlined in stb99.h/stb99.c: g0 from chain di, q from chain ri,
                            p = 2 g0 q R + 1 (priExtendPrime2), d = 5, 6, ... until a = d^((p-1)/q) != e
"""
import json
import os
import sys

sys.path.insert(0, os.path.dirname(os.path.abspath(__file__)))
import pri  # noqa: E402

LS = [638, 766, 1022, 1118, 1310, 1534, 1790, 2046, 2334, 2462]
RS = [143, 154, 175, 182, 195, 208, 222, 235, 249, 257]
STD_NAMES = ["test", "1.2.112.0.2.0.1176.2.3.3.1", "1.2.112.0.2.0.1176.2.3.6.1", "1.2.112.0.2.0.1176.2.3.10.1"]
_V = None


def _vectors():
    global _V
    if _V is None:
        with open(os.path.join(os.path.dirname(os.path.abspath(__file__)), 'vectors', 'stb99.json')) as f:
            _V = json.load(f)
    return _V


def params_std(name):
    t = _vectors()['params'][name]
    return {'l': t['l'], 'r': t['r'], 'p': int(t['p'], 16), 'q': int(t['q'], 16), 'a': int(t['a'], 16), 'd': int(t['d'], 16)}


def seed_std(name):
    t = _vectors()['params'][name]
    return {'l': t['l'], 'zi': list(t['zi']), 'di': list(t['di']), 'ri': list(t['ri'])}


def mont_R(P):
    return 1 << (P['l'] + 2)


def mont_pow(P, u, x):
    p, R = P['p'], mont_R(P)
    return pow(u * pow(R, -1, p), x, p) * R % p


def params_val(P):
    l, r, p, q, a, d = (P[k] for k in ('l', 'r', 'p', 'q', 'a', 'd'))
    if l not in LS or RS[LS.index(l)] != r:
        return False
    if p.bit_length() != l or not pri.is_prime(p):
        return False
    if q.bit_length() != r or not pri.is_prime(q):
        return False
    if (p - 1) % q:
        return False
    if not (0 < a < p and 0 < d < p):
        return False
    e = mont_R(P) % p
    return a != e and a == mont_pow(P, d, (p - 1) // q)


def _chain_ok(c, plus4):
    """c_0 > ... ends with c_t in 17..32 followed by zeros; 5 c_{i+1}/4 (+4) < c_i <= 2 c_{i+1}."""
    t = 0
    while t + 1 < len(c) and c[t + 1] != 0:
        t += 1
    if any(x != 0 for x in c[t + 1:]):
        return False
    if not 17 <= c[t] <= 32:
        return False
    for i in range(t):
        lo = 5 * c[i + 1] + (16 if plus4 else 0)  # compare 5 c'/4 (+4) < c  <=>  5 c' (+16) < 4 c
        if not (lo < 4 * c[i] and c[i] <= 2 * c[i + 1]):
            return False
    return True


def seed_val(S):
    l, zi, di, ri = S['l'], S['zi'], S['di'], S['ri']
    if l not in LS or len(zi) != 31 or len(di) != 18 or len(ri) != 10:
        return False
    r = RS[LS.index(l)]
    if any(not (1 <= z <= 65256) for z in zi):
        return False
    # stb99.h: l / 2 <= di[0] <= 7 * l / 8 - r ;  ri[0] = r
    if not (l <= 2 * di[0] and 8 * di[0] <= 7 * l - 8 * r):
        return False
    if ri[0] != r:
        return False
    return _chain_ok(di, True) and _chain_ok(ri, False)


def seed_adj(S):
    S = {'l': S['l'], 'zi': list(S['zi']), 'di': list(S['di']), 'ri': list(S['ri'])}
    if S['l'] not in LS:
        return None
    r = RS[LS.index(S['l'])]
    if any(not (1 <= z <= 65256) for z in S['zi']):
        if any(S['zi']):
            return None
        S['zi'] = list(range(1, 32))

    def default(first, size):
        c = [first]
        while c[-1] > 32:
            c.append(c[-1] // 2 + 1)
        return c + [0] * (size - len(c))
    if not (S['l'] <= 2 * S['di'][0] and 8 * S['di'][0] <= 7 * S['l'] - 8 * r and _chain_ok(S['di'], True)):
        if any(S['di']):
            return None
        S['di'] = default(S['l'] // 2 + 1, 18)
    if not (S['ri'][0] == r and _chain_ok(S['ri'], False)):
        if any(S['ri']):
            return None
        S['ri'] = default(r, 10)
    return S


def params_gen(S):
    if not seed_val(S):
        raise ValueError('BAD_SEED')
    l = S['l']
    r = RS[LS.index(l)]
    di = [x for x in S['di'] if x]
    ri = [x for x in S['ri'] if x]
    gen = pri.StbGen(S['zi'])
    g0 = next(pri.chain_primes(di, gen))[0]
    tries = 0
    while True:
        q = next(pri.chain_primes(ri, gen))[0]
        tries += 1
        p = pri.extend_prime(g0, l, gen, trials=4 * di[0], base_count=min((di[0] + 3) // 4, pri.BASE_SIZE), a=q)
        if p is not None:
            break
    P = {'l': l, 'r': r, 'p': p, 'q': q, 'a': 0, 'd': 5}
    e = mont_R(P) % p
    while True:
        P['a'] = mont_pow(P, P['d'], (p - 1) // q)
        if P['a'] != e:
            break
        P['d'] = (P['d'] + 1) % p
    P['_q_candidates'] = tries
    return P


def selftest(path=None):
    global _V
    if path:
        with open(path) as f:
            _V = json.load(f)
    V = _vectors()
    n = 0
    for name in STD_NAMES:
        assert params_val(params_std(name)), name
        S = seed_std(name)
        assert seed_val(S) == V['params'][name].get('seed_valid_by_header', True), name
        n += 1
    for t in V['params_invalid']:
        P = params_std(t['params'])
        P[t['field']] = int(t['value'], 16) if isinstance(t['value'], str) else t['value']
        assert not params_val(P), t
        n += 1
    for t in V['seed']:
        S = seed_std(t['params'])
        for k, v in t.get('set', {}).items():
            if k in ('di', 'ri', 'zi'):
                for idx, val in v.items():
                    S[k][int(idx)] = val
            else:
                S[k] = v
        for k in t.get('zero', []):
            S[k] = [0] * len(S[k])
        if 'valid' in t:
            assert seed_val(S) == t['valid'], t
        if 'adj_equals_std' in t:
            assert (seed_adj(S) == seed_std(t['params'])) == t['adj_equals_std'], (t, seed_adj(S))
        n += 1
    for t in V.get('gen', []):
        G = params_gen(seed_std(t['params']))
        S0 = params_std(t['params'])
        assert all(G[k] == S0[k] for k in ('l', 'r', 'p', 'q', 'a', 'd')), t
        n += 1
    print('OK %d vectors' % n)
    return 0


if __name__ == '__main__':
    if '--selftest' in sys.argv:
        sys.exit(selftest())
    print(__doc__)
