#!/usr/bin/env python3
"""Harvest the appendix vectors of bign / bign96 / bake / ecp from the C tests into
self-contained JSON (bign.json, bake.json, ecp.json next to this file).

Sources (read at harvest time only; the JSON files do not reference /repo):
  /repo/test/crypto/bign_test.c     tables G.1 - G.10 of STB 34.101.45 (+ extra checks)
  /repo/test/crypto/bign96_test.c   experimental bign96
  /repo/test/crypto/bake_test.c     tables B.2 - B.4 of STB 34.101.66, bakeKDF, bakeSWU
  /repo/test/math/ecp_test.c        test curve
  /repo/src/crypto/bign/bign_params.c, /repo/src/crypto/bign96.c   parameter tables
  /repo/src/crypto/belt/belt_block.c                              the table beltH()

The tests address inputs as beltH()+offset and draw "random" numbers from brngCTRX (brng-ctr
keyed with beltH()+128, iv beltH()+192, additional words X = beltH()[0:256] cycled); both are
resolved here to plain hex: every vector carries the literal `tape` the generator returned.
The brng-ctr model below (STB 34.101.47 6.2: Y_t = belt-hash(key||s||X_t||r), s += 1,
r ^= Y_t, with the library's carry-over of unused octets of a partial block) uses belt.hash
of the sibling model; with --check-lib the tapes, hashes and the recorded protocol messages
are compared with / taken from the baseline library through ctypes.

Usage: python3 harvest_ec.py [--check-lib]
"""
import json
import os
import re
import sys

HERE = os.path.dirname(os.path.abspath(__file__))
sys.path.insert(0, os.path.dirname(HERE))
import belt  # noqa: E402

REPO = "/repo"


def src(path):
    with open(os.path.join(REPO, path), encoding="utf-8", errors="replace") as f:
        return f.read()


def c_octets(text, name):
    m = re.search(r"static const octet %s\[\d*\]\s*=\s*\{([^}]*)\}" % re.escape(name), text)
    return bytes(int(x, 16) for x in re.findall(r"0x([0-9A-Fa-f]{2})", m.group(1)))


def c_string(text, name):
    m = re.search(r"static (?:const )?char %s\[\]\s*=\s*((?:\s*\"[^\"]*\")+)\s*;" % re.escape(name), text)
    return "".join(re.findall(r"\"([^\"]*)\"", m.group(1)))


def hex_eq_list(text):
    """All hexEq(var, "..." "...") literals in source order -> [(var, hex)]."""
    out = []
    for m in re.finditer(r"hexEq\(\s*(\w+)\s*,((?:\s*\"[0-9A-Fa-f]*\")+)\s*\)", text):
        out.append((m.group(1), "".join(re.findall(r"\"([0-9A-Fa-f]*)\"", m.group(2))).upper()))
    return out


# ---- beltH() from the C source, cross-checked with the model's generated table ----
_m = re.search(r"static const octet H\[256\]\s*=\s*\{([^}]*)\}", src("src/crypto/belt/belt_block.c"))
H = bytes(int(x, 16) for x in re.findall(r"\b([0-9A-F]{2})\b", re.sub(r"H16", "", _m.group(1))))
assert len(H) == 256 and H == belt.H


def hx(b):
    return bytes(b).hex().upper()


class BrngCTRX:
    """brngCTRX of the tests: buf is pre-filled with the cycled word X, then brngCTRStepR."""

    def __init__(self, key, iv, X):
        self.key, self.s = bytes(key), int.from_bytes(iv, "little")
        self.r = bytes(b ^ 0xFF for b in iv)
        self.X, self.off = bytes(X), 0
        self.reserve = b""

    def _fill(self, n):
        out = b""
        while n:
            if n < len(self.X) - self.off:
                out += self.X[self.off:self.off + n]
                self.off += n
                n = 0
            else:
                out += self.X[self.off:]
                n -= len(self.X) - self.off
                self.off = 0
        return out

    def _block(self, x):
        y = belt.hash(self.key + self.s.to_bytes(32, "little") + x.ljust(32, b"\0") + self.r)
        self.s = (self.s + 1) % (1 << 256)
        self.r = bytes(a ^ b for a, b in zip(self.r, y))
        return y

    def step(self, n):
        buf = self._fill(n)
        out = b""
        if self.reserve:
            take = min(n, len(self.reserve))
            out, self.reserve = self.reserve[:take], self.reserve[take:]
            if take == n:
                return out
            self.reserve = b""
        pos = len(out)
        while n - pos >= 32:
            out += self._block(buf[pos:pos + 32])
            pos += 32
        if n - pos:
            y = self._block(buf[pos:n])
            out += y[:n - pos]
            self.reserve = y[n - pos:]
        return out


def new_rng():
    return BrngCTRX(H[128:160], H[192:224], H[0:256])


OID = "1.2.112.0.2.0.34.101.31.81"
OID_DER = bytes.fromhex("06092A7000020022651F51")
assert len(OID_DER) == 11


def params_vec(text, prefix, l, oid, no):
    v = {"kind": "params", "name": "bign-curve%dv1" % l, "l": l, "oid": oid}
    for fld in ("p", "a", "b", "q", "yG"):
        o = c_octets(text, "%s_%s" % (prefix, fld))
        assert len(o) == no
        v[fld] = hx(o)
    v["seed"] = hx(c_octets(text, prefix + "_seed"))
    return v


def int_le(h):
    return int.from_bytes(bytes.fromhex(h), "little")


# --------------------------------------------------------------------------
def harvest_bign(lib=None):
    V = []
    ptxt = src("src/crypto/bign/bign_params.c")
    p96 = src("src/crypto/bign96.c")
    P = {128: params_vec(ptxt, "_curve128v1", 128, c_string(ptxt, "_curve128v1_name"), 32),
         192: params_vec(ptxt, "_curve192v1", 192, c_string(ptxt, "_curve192v1_name"), 48),
         256: params_vec(ptxt, "_curve256v1", 256, c_string(ptxt, "_curve256v1_name"), 64),
         96: params_vec(p96, "_curve96v1", 96, c_string(p96, "_curve96v1_name"), 24)}
    for l in (128, 192, 256, 96):
        V.append(P[l])
    V.append({"kind": "oid", "oid": OID, "der": hx(OID_DER), "note": "bign_test.c checks count == 11"})

    t = src("test/crypto/bign_test.c")
    E = hex_eq_list(t)
    names = [n for n, _ in E]
    assert names == ["privkey", "pubkey", "pubkey", "pubkey", "sig", "id_pubkey", "id_privkey",
                     "token", "sig", "token", "k", "k", "id_sig", "id_sig", "key", "token",
                     "key", "key"], names
    (privkey, pubkey, _pk2, _pk3, sig_g2, id_pubkey, id_privkey, token_g4, sig_g3, token_g5,
     k_g6, k_g7, idsig_g9, idsig_g10, _pbkdf, _kwp, _p1, _p2) = [h for _, h in E]
    assert pubkey == _pk2 == _pk3
    q = int_le(P[128]["q"])
    d = int_le(privkey)
    rng = new_rng()

    def draw(n=32):
        tape = rng.step(n)
        return tape

    def k_from_sig(sig, hsh, dd, l=128):
        s0 = int.from_bytes(bytes.fromhex(sig)[:l // 8], "little")
        s1 = int.from_bytes(bytes.fromhex(sig)[l // 8:], "little")
        return (s1 + int.from_bytes(hsh, "little") + (s0 + 2 ** l) * dd) % q

    # G.1
    tape = draw()
    assert hx(tape) == privkey
    V.append({"kind": "keypair_gen", "name": "G.1", "l": 128, "tape": hx(tape), "consumed": 32,
              "privkey": privkey, "pubkey": pubkey})
    V.append({"kind": "dh", "name": "G.1-dh (Q = G, key = d G)", "l": 128, "privkey": privkey,
              "pubkey": hx(bytes(32)) + P[128]["yG"], "nbytes": 64, "key": pubkey})
    # G.2
    h13 = belt.hash(H[0:13])
    tape = draw()
    assert int.from_bytes(tape, "little") == k_from_sig(sig_g2, h13, d)
    V.append({"kind": "sign", "name": "G.2", "l": 128, "oid_der": hx(OID_DER), "hash": hx(h13),
              "hash_of": hx(H[0:13]), "privkey": privkey, "pubkey": pubkey, "tape": hx(tape),
              "consumed": 32, "sig": sig_g2})
    s = bytearray(bytes.fromhex(sig_g2))
    s[0] ^= 1
    V.append({"kind": "verify", "name": "G.2 sig[0]^=1", "l": 128, "oid_der": hx(OID_DER),
              "hash": hx(h13), "sig": hx(s), "pubkey": pubkey, "valid": False})
    pk = bytearray(bytes.fromhex(pubkey))
    pk[0] ^= 1
    V.append({"kind": "verify", "name": "G.2 pubkey[0]^=1", "l": 128, "oid_der": hx(OID_DER),
              "hash": hx(h13), "sig": sig_g2, "pubkey": hx(pk), "valid": False})
    V.append({"kind": "verify", "name": "G.2 valid", "l": 128, "oid_der": hx(OID_DER),
              "hash": hx(h13), "sig": sig_g2, "pubkey": pubkey, "valid": True})
    # G.8
    V.append({"kind": "id_extract", "name": "G.8", "l": 128, "oid_der": hx(OID_DER),
              "id_hash": hx(h13), "sig": sig_g2, "pubkey": pubkey,
              "id_privkey": id_privkey, "id_pubkey": id_pubkey})
    # G.4
    tape = draw()
    V.append({"kind": "key_wrap", "name": "G.4", "l": 128, "key": hx(H[0:18]), "header": hx(H[32:48]),
              "pubkey": pubkey, "privkey": privkey, "tape": hx(tape), "consumed": 32,
              "token": token_g4})
    # G.3
    h48 = belt.hash(H[0:48])
    tape = draw()
    assert int.from_bytes(tape, "little") == k_from_sig(sig_g3, h48, d)
    V.append({"kind": "sign", "name": "G.3", "l": 128, "oid_der": hx(OID_DER), "hash": hx(h48),
              "hash_of": hx(H[0:48]), "privkey": privkey, "pubkey": pubkey, "tape": hx(tape),
              "consumed": 32, "sig": sig_g3})
    # G.5
    tape = draw()
    V.append({"kind": "key_wrap", "name": "G.5", "l": 128, "key": hx(H[0:32]), "header": hx(H[64:80]),
              "pubkey": pubkey, "privkey": privkey, "tape": hx(tape), "consumed": 32,
              "token": token_g5})
    # G.6, G.7 (deterministic k; the test recomputes k from the signature)
    V.append({"kind": "sign2", "name": "G.6", "l": 128, "oid_der": hx(OID_DER), "hash": hx(h13),
              "privkey": privkey, "pubkey": pubkey, "t": None, "k": k_g6})
    V.append({"kind": "sign2", "name": "G.7", "l": 128, "oid_der": hx(OID_DER), "hash": hx(h48),
              "privkey": privkey, "pubkey": pubkey, "t": hx(H[192:192 + 23]), "k": k_g7})
    # G.9, G.10
    e = int_le(id_privkey)
    h_9 = belt.hash(H[32:48])
    tape = draw()
    assert int.from_bytes(tape, "little") == k_from_sig(idsig_g9, h_9, e)
    V.append({"kind": "id_sign", "name": "G.9", "l": 128, "oid_der": hx(OID_DER), "id_hash": hx(h13),
              "hash": hx(h_9), "hash_of": hx(H[32:48]), "id_privkey": id_privkey,
              "id_pubkey": id_pubkey, "pubkey": pubkey, "tape": hx(tape), "consumed": 32,
              "id_sig": idsig_g9})
    h_10 = belt.hash(H[32:55])
    tape = draw()
    assert int.from_bytes(tape, "little") == k_from_sig(idsig_g10, h_10, e)
    V.append({"kind": "id_sign", "name": "G.10", "l": 128, "oid_der": hx(OID_DER), "id_hash": hx(h13),
              "hash": hx(h_10), "hash_of": hx(H[32:55]), "id_privkey": id_privkey,
              "id_pubkey": id_pubkey, "pubkey": pubkey, "tape": hx(tape), "consumed": 32,
              "id_sig": idsig_g10})
    # extra: transport of a 16-octet key (the test only checks the round trip)
    tape = draw()
    V.append({"kind": "key_wrap", "name": "extra-16", "l": 128, "key": hx(H[0:16]),
              "header": hx(H[64:80]), "pubkey": pubkey, "privkey": privkey, "tape": hx(tape),
              "consumed": 32, "token": None})

    # ---- bign96 ----
    t96 = src("test/crypto/bign96_test.c")
    E96 = hex_eq_list(t96)
    assert [n for n, _ in E96] == ["privkey", "pubkey", "pubkey", "sig", "sig"]
    priv96, pub96, _, sig96, sig96d = [h for _, h in E96]
    rng = new_rng()
    tape = rng.step(24)
    assert hx(tape) == priv96
    V.append({"kind": "keypair_gen", "name": "bign96-keypair", "l": 96, "tape": hx(tape),
              "consumed": 24, "privkey": priv96, "pubkey": pub96})
    h96 = belt.hash(H[0:13])     # bign96 reads the first 24 octets of the 32-octet hash buffer
    tape = rng.step(24)
    V.append({"kind": "sign", "name": "bign96-sign", "l": 96, "oid_der": hx(OID_DER),
              "hash": hx(h96[:24]), "hash_of": hx(H[0:13]), "privkey": priv96, "pubkey": pub96,
              "tape": hx(tape), "consumed": 24, "sig": sig96})
    V.append({"kind": "sign2", "name": "bign96-sign2", "l": 96, "oid_der": hx(OID_DER),
              "hash": hx(h96[:24]), "privkey": priv96, "pubkey": pub96, "t": None, "sig": sig96d})
    for nm, sg in (("bign96-sign", sig96), ("bign96-sign2", sig96d)):
        s = bytearray(bytes.fromhex(sg))
        s[0] ^= 1
        V.append({"kind": "verify", "name": nm + " sig[0]^=1", "l": 96, "oid_der": hx(OID_DER),
                  "hash": hx(h96[:24]), "sig": hx(s), "pubkey": pub96, "valid": False})
        pk = bytearray(bytes.fromhex(pub96))
        pk[0] ^= 1
        V.append({"kind": "verify", "name": nm + " pubkey[0]^=1", "l": 96, "oid_der": hx(OID_DER),
                  "hash": hx(h96[:24]), "sig": sg, "pubkey": hx(pk), "valid": False})

    if lib is not None:
        lib.check_bign(V, H)
    return {"source": "bee2 test/crypto/bign_test.c, bign96_test.c; src/crypto/bign/bign_params.c, "
                      "src/crypto/bign96.c",
            "conventions": "all octet strings hex; numbers little-endian; tape = octets returned "
                           "by the test generator brngCTRX for that call",
            "vectors": V}


# --------------------------------------------------------------------------
def harvest_bake(lib=None):
    t = src("test/crypto/bake_test.c")
    g = lambda n: c_string(t, n).upper()     # noqa: E731
    keys = re.findall(r"hexEq\(key[ab],((?:\s*\"[0-9A-F]*\")+)\)", t)
    keys = ["".join(re.findall(r"\"([0-9A-F]*)\"", k)) for k in keys]
    assert len(keys) == 5, keys
    hexto = re.findall(r"hexTo\((secret|iv),((?:\s*\"[0-9A-F]*\")+)\)", t)
    hexto = [(n, "".join(re.findall(r"\"([0-9A-F]*)\"", k))) for n, k in hexto]
    assert [n for n, _ in hexto] == ["secret", "iv", "secret"]
    swu_out = re.search(r"hexEq\(iv,((?:\s*\"[0-9A-F]*\")+)\)", t)
    swu_out = "".join(re.findall(r"\"([0-9A-F]*)\"", swu_out.group(1)))
    common = {"l": 128, "da": g("_da"), "db": g("_db"), "certa": g("_certa"), "certb": g("_certb"),
              "helloa": None, "hellob": None, "kca": True, "kcb": True,
              "cert_rule": "public key = last l/2 octets of the certificate"}
    V = []
    V.append(dict(common, kind="bmqv", name="B.2", randa=g("_bmqv_randa"), randb=g("_bmqv_randb"),
                  key=keys[0]))
    V.append(dict(common, kind="bsts", name="B.3", randa=g("_bsts_randa"), randb=g("_bsts_randb"),
                  key=keys[1]))
    bp = {k: common[k] for k in ("l", "helloa", "hellob", "kca", "kcb")}
    V.append(dict(bp, kind="bpace", name="B.4", pwd=hx(b"8086"), randa=g("_bpace_randa"),
                  randb=g("_bpace_randb"), key=keys[2]))
    V.append({"kind": "kdf", "name": "bakeKDF num=0", "secret": hexto[0][1], "iv": hexto[1][1],
              "num": 0, "key": keys[3]})
    V.append({"kind": "kdf", "name": "bakeKDF num=1", "secret": hexto[0][1], "iv": hexto[1][1],
              "num": 1, "key": keys[4]})
    V.append({"kind": "swu", "name": "bakeSWU", "l": 128, "msg": hexto[2][1], "pt": swu_out})
    if lib is not None:
        lib.record_bake(V)
    return {"source": "bee2 test/crypto/bake_test.c (tables B.2-B.4 of STB 34.101.66)",
            "conventions": "hex octet strings; randa/randb = echo tapes of sides A/B (prngEcho, "
                           "cyclic); fields M1..M4 (when present) were RECORDED from the baseline "
                           "library run of the same test and are not part of the standard's table",
            "vectors": V}


# --------------------------------------------------------------------------
def harvest_ecp(lib=None):
    V = []
    ptxt = src("src/crypto/bign/bign_params.c")
    p96 = src("src/crypto/bign96.c")
    for prefix, l, text, no in (("_curve128v1", 128, ptxt, 32), ("_curve192v1", 192, ptxt, 48),
                                ("_curve256v1", 256, ptxt, 64), ("_curve96v1", 96, p96, 24)):
        v = params_vec(text, prefix, l, c_string(text, prefix + "_name"), no)
        for fld in ("p", "a", "b", "q", "yG"):
            v[fld + "_le"] = v.pop(fld)
        V.append(v)
    t = src("test/math/ecp_test.c")
    c = {n: c_string(t, n) for n in ("p", "a", "b", "q", "xbase", "ybase")}
    V.append({"kind": "curve_group", "name": "ecp_test curve", "p": c["p"], "a": c["a"], "b": c["b"],
              "q": c["q"], "G": [c["xbase"], c["ybase"]], "mov": 40, "check_group": True,
              "note": "big-endian hex as in the C test (hexToRev)"})
    a1 = "%064X" % (int(c["a"], 16) - 1)
    V.append({"kind": "curve_group", "name": "ecp_test curve with a-1 (G still on curve: x=0)",
              "p": c["p"], "a": a1, "b": c["b"], "q": c["q"], "G": [c["xbase"], c["ybase"]],
              "mov": 40, "check_group": False})
    # bakeSWU vector of bake_test.c reduced to the field level: s = belt-wblock(X||0^128, 0) mod p
    bt = src("test/crypto/bake_test.c")
    hexto = re.findall(r"hexTo\((secret|iv),((?:\s*\"[0-9A-F]*\")+)\)", bt)
    msg = bytes.fromhex("".join(re.findall(r"\"([0-9A-F]*)\"", hexto[2][1])))
    out = re.search(r"hexEq\(iv,((?:\s*\"[0-9A-F]*\")+)\)", bt)
    out = bytes.fromhex("".join(re.findall(r"\"([0-9A-F]*)\"", out.group(1))))
    p = 2 ** 256 - 189
    s = int.from_bytes(belt.wbl_encr(bytes(16), msg + bytes(16)), "little") % p
    V.append({"kind": "swu", "name": "bakeSWU (B.4 data)", "params": "bign-curve128v1",
              "s": "%064X" % s, "W": ["%064X" % int.from_bytes(out[:32], "little"),
                                      "%064X" % int.from_bytes(out[32:], "little")],
              "note": "s derived from msg with belt-wblock of the sibling belt model; big-endian hex"})
    # G.1 of bign: Q = d G
    bg = hex_eq_list(src("test/crypto/bign_test.c"))
    d = int.from_bytes(bytes.fromhex(bg[0][1]), "little")
    Q = bytes.fromhex(bg[1][1])
    V.append({"kind": "mul", "name": "bign G.1: Q = dG", "params": "bign-curve128v1",
              "k": "%064X" % d, "R": ["%064X" % int.from_bytes(Q[:32], "little"),
                                      "%064X" % int.from_bytes(Q[32:], "little")]})
    b96 = hex_eq_list(src("test/crypto/bign96_test.c"))
    d = int.from_bytes(bytes.fromhex(b96[0][1]), "little")
    Q = bytes.fromhex(b96[1][1])
    V.append({"kind": "mul", "name": "bign96: Q = dG", "params": "bign-curve96v1",
              "k": "%048X" % d, "R": ["%048X" % int.from_bytes(Q[:24], "little"),
                                      "%048X" % int.from_bytes(Q[24:], "little")]})
    return {"source": "bee2 test/math/ecp_test.c, src/crypto/bign/bign_params.c, src/crypto/bign96.c, "
                      "test/crypto/bake_test.c, bign_test.c",
            "vectors": V}


def harvest_ec2(lib=None):
    """Standard DSTU 4145 curves of src/crypto/dstu.c (binary fields) as facts for ec2.py."""
    t = src("src/crypto/dstu.c")
    V = []
    for c in re.findall(r"static const char _(curve\d+pb)_name", t):
        pp = [int(x) for x in re.search(r"static u16 _%s_p\[4\] = \{([^}]*)\}" % c, t).group(1).split(",")]

        def arr(nm):
            m = re.search(r"static octet _%s\[\]\s*=\s*\{([^}]*)\}" % nm, t)
            return None if not m else bytes(int(x, 16) for x in re.findall(r"0x([0-9A-Fa-f]{2})", m.group(1)))
        no = (pp[0] + 7) // 8
        v = {"kind": "dstu_curve", "name": c, "oid": c_string(t, "_%s_name" % c), "field": pp,
             "A": int(re.search(r"static octet _%s_A = (\d+)" % c, t).group(1)),
             "cofactor": int(re.search(r"static octet _%s_c = (\d+)" % c, t).group(1)),
             "B_le": hx(arr(c + "_B")), "n_le": hx(arr(c + "_n"))}
        P = arr(c + "_P")
        if P:
            v["P_le"] = [hx(P[:no]), hx(P[no:2 * no])]
        V.append(v)
    return {"source": "bee2 src/crypto/dstu.c (standard curves of DSTU 4145-2002)",
            "conventions": "field = exponents of the reduction polynomial (t^0 implied); numbers "
                           "little-endian hex; cofactor * n = group order",
            "vectors": V}


def main():
    lib = None
    if "--check-lib" in sys.argv:
        sys.path.insert(0, os.path.join(os.path.dirname(HERE), "xcheck"))
        import ec_lib
        lib = ec_lib
    for name, fn in (("bign.json", harvest_bign), ("bake.json", harvest_bake), ("ecp.json", harvest_ecp),
                     ("ec2.json", harvest_ec2)):
        doc = fn(lib)
        with open(os.path.join(HERE, name), "w") as f:
            json.dump(doc, f, indent=1)
            f.write("\n")
        print(name, len(doc["vectors"]), "vectors")


if __name__ == "__main__":
    main()
