#!/usr/bin/env python3
"""One-shot transcript of the appendix vectors in /repo/test/crypto/{belt,brng,botp,bign}_test.c.

The C tests address their inputs as beltH()+offset; here the H table is copied
in (from src/crypto/belt/belt_block.c) and every offset is resolved, so that
the generated JSON files are self-contained.  Does not read /repo and does not
import the models.  Run once: python3 harvest.py  (rewrites *.json next to it).
"""
import json
import os

H = bytes.fromhex(
    'B194BAC80A08F53B366D008E584A5DE4' '8504FA9D1BB6C7AC252E72C202FDCE0D'
    '5BE3D61217B96181FE6786AD716B890B' '5CB0C0FF33C356B835C405AED8E07F99'
    'E12BDC1AE28257EC703FCCF095EE8DF1' 'C1AB76389FE678CAF7C6F860D5BB9C4F'
    'F33C657B637C306ADD4EA7799EB23D31' '3E98B56E27D3BCCF591E181F4C5AB793'
    'E9DEE72C8F0C0FA62DDB49F46F739647' '06075316ED247A3739CBA38303A98BF6'
    '92BD9B1CE5D141015445FBC95E4D0EF2' '682080AA227D642F2687F93490405511'
    'BE32971343FC9A48A02A885F194B09A1' '7ECDA4D01544AF8CA58450BF66D2E88A'
    'A2D7465242A8DFB36974C551EB232921' 'D4EFD9B43A62287591141' '0EA776CDA1D')
assert len(H) == 256 and len(set(H)) == 256


def h(off, n):
    return H[off:off + n].hex().upper()


K1, K2 = h(128, 32), h(160, 32)          # keys of the "encrypt" and "decrypt" tables
S1, S2 = h(192, 16), h(208, 16)          # synchro values
V = []


def add(id_, op, out, **kw):
    V.append({'id': id_, 'op': op, 'in': kw, 'out': out})


# belt-block
add('A.1', 'block_encr', '69CCA1C93557C9E3D66BC3E0FA88FA6E', key=K1, x=h(0, 16))
add('A.1-inv', 'block_decr', h(0, 16), key=K1, x='69CCA1C93557C9E3D66BC3E0FA88FA6E')
add('A.4', 'block_decr', '0DC5300600CAB840B38448E5E993F421', key=K2, x=h(64, 16))
# belt-wblock
add('A.6-1', 'wbl_encr', '49A38EE108D6C742E52B774F00A6EF98B106CBD13EA4FB0680323051BC04DF76'
    'E487B055C69BCF541176169F1DC9F6C8', key=K1, x=h(0, 48))
add('A.6-2', 'wbl_encr', 'F08EF22DCAA06C81FB12721974221CA7AB82C62856FCF2F9FCA006E019A28F16'
    'E5821A51F573594625DBAB8F6A5C94', key=K1, x=h(0, 47))
add('A.7-1', 'wbl_decr', '92632EE0C21AD9E09A39343E5C07DAA4889B03F2E6847EB152EC99F7A4D9F154'
    'B5EF68D8E4A39E567153DE13D72254EE', key=K2, x=h(64, 48))
add('A.7-2', 'wbl_decr', 'DF3F882230BAAFFC92F05660321172310E3CB2182681EF43102E67175E177BD7'
    '5E93E4E8', key=K2, x=h(64, 36))
add('wbl-special', 'wbl_roundtrip', None, key=K1, x=h(0, 128), **{'from': 32, 'to': 128})
# belt-compress: X = H[0:32] || H[32:64]
add('A.8', 'compr', ['46FE7425C9B181EB41DFEE3E72163D5A',
                     'ED2F5481D593F40D87FCE37D6BC1A2E1B7D1A2CC975C82D3C0497488C90D99D8'], x=h(0, 64))
# belt-ecb
add('A.9-1', 'ecb_encr', '69CCA1C93557C9E3D66BC3E0FA88FA6E5F23102EF109710775017F73806DA9DC'
    '46FB2ED2CE771F26DCB5E5D1569F9AB0', key=K1, x=h(0, 48))
add('A.9-2', 'ecb_encr', '69CCA1C93557C9E3D66BC3E0FA88FA6E36F00CFED6D1CA1498C12798F4BEB207'
    '5F23102EF109710775017F73806DA9', key=K1, x=h(0, 47))
add('A.10-1', 'ecb_decr', '0DC5300600CAB840B38448E5E993F421E55A239F2AB5C5D5FDB6E81B40938E2A'
    '54120CA3E6E19C7AD750FC3531DAEAB7', key=K2, x=h(64, 48))
add('A.10-2', 'ecb_decr', '0DC5300600CAB840B38448E5E993F4215780A6E2B69EAFBB258726D7B6718523'
    'E55A239F', key=K2, x=h(64, 36))
# belt-cbc
add('A.11-1', 'cbc_encr', '10116EFAE6AD58EE14852E11DA1B8A745CF2480E8D03F1C19492E53ED3A70F60'
    '657C1EE8C0E0AE5B58388BF8A68E3309', key=K1, iv=S1, x=h(0, 48))
add('A.11-2', 'cbc_encr', '10116EFAE6AD58EE14852E11DA1B8A746A9BBADCAF73F968F875DEDC0A44F6B1'
    '5CF2480E', key=K1, iv=S1, x=h(0, 36))
add('A.12-1', 'cbc_decr', '730894D6158E17CC1600185A8F411CAB0471FF85C83792398D8924EBD57D03DB'
    '95B97A9B7907E4B020960455E46176F8', key=K2, iv=S2, x=h(64, 48))
add('A.12-2', 'cbc_decr', '730894D6158E17CC1600185A8F411CABB6AB7AF8541CF85755B8EA27239F08D2'
    '166646E4', key=K2, iv=S2, x=h(64, 36))
# belt-cfb
add('A.13', 'cfb_encr', 'C31E490A90EFA374626CC99E4B7B8540A6E48685464A5A06849C9CA769A1B0AE'
    '55C2CC5939303EC832DD2FE16C8E5A1B', key=K1, iv=S1, x=h(0, 48))
add('A.14', 'cfb_decr', 'FA9D107A86F375EE65CD1DB881224BD016AFF814938ED39B3361ABB0BF0851B6'
    '52244EB06842DD4C94AA4500774E40BB', key=K2, iv=S2, x=h(64, 48))
# belt-ctr
add('A.15', 'ctr', '52C9AF96FF50F64435FC43DEF56BD797D5B5B1FF79FB41257AB9CDF6E63E81F8'
    'F00341473EAE409833622DE05213773A', key=K1, iv=S1, x=h(0, 48))
add('A.16', 'ctr', 'DF181ED008A20F43DCBBB93650DAD34B389CDEE5826D40E2D4BD80F49A93F5D2'
    '12F6333166456F169043CC5F', key=K2, iv=S2, x=h(64, 44))
# belt-mac
add('A.17-1', 'mac', '7260DA60138F96C9', key=K1, x=h(0, 13))
add('A.17-2', 'mac', '2DAB59771B4B16D0', key=K1, x=h(0, 48))
# belt-dwp / belt-che
add('A.19-1', 'dwp_wrap', ['52C9AF96FF50F64435FC43DEF56BD797', '3B2E0AEB2B91854B'],
    key=K1, iv=S1, x=h(0, 16), i=h(16, 32))
add('A.19-2', 'che_wrap', ['BF3DAEAF5D18D2BCC30EA62D2E70A4', '548622B844123FF7'],
    key=K1, iv=S1, x=h(0, 15), i=h(16, 32))
add('A.20-1', 'dwp_unwrap', 'DF181ED008A20F43DCBBB93650DAD34B',
    key=K2, iv=S2, x=h(64, 16), i=h(80, 32), tag='6A2C2C94C4150DC0')
add('A.20-1w', 'dwp_wrap', [h(64, 16), '6A2C2C94C4150DC0'],
    key=K2, iv=S2, x='DF181ED008A20F43DCBBB93650DAD34B', i=h(80, 32))
add('A.20-1bad', 'dwp_unwrap', None,
    key=K2, iv=S2, x=h(64, 16), i=h(80, 32), tag='6A2C2C94C4150DC1')
add('A.20-2', 'che_unwrap', '2BABF43EB37B5398A9068F31A3C758B762F44AA9',
    key=K2, iv=S2, x=h(64, 20), i=h(80, 32), tag='7D9D4F59D40D197D')
add('A.20-2w', 'che_wrap', [h(64, 20), '7D9D4F59D40D197D'],
    key=K2, iv=S2, x='2BABF43EB37B5398A9068F31A3C758B762F44AA9', i=h(80, 32))
add('A.20-2bad', 'che_unwrap', None,
    key=K2, iv=S2, x=h(64, 20), i=h(80, 32), tag='7D9D4F59D40D197C')
# belt-kwp
add('A.21', 'kwp_wrap', '49A38EE108D6C742E52B774F00A6EF98B106CBD13EA4FB0680323051BC04DF76'
    'E487B055C69BCF541176169F1DC9F6C8', key=K1, x=h(0, 32), header=h(32, 16))
add('A.22', 'kwp_unwrap', '92632EE0C21AD9E09A39343E5C07DAA4889B03F2E6847EB152EC99F7A4D9F154',
    key=K2, x=h(64, 48), header='B5EF68D8E4A39E567153DE13D72254EE')
add('A.22-bad', 'kwp_unwrap', None, key=K2, x=h(64, 48), header='B5EF68D8E4A39E567153DE13D72254EF')
# STB 34.101.45 E.5 (bign_test.c): KWP with a null header on the PBKDF2 key
add('bign-E.5-kwp', 'kwp_wrap', '4EA289D5F718087DD8EDB305BA1CE8980E5EC3E0B56C8BF9D5C3E909CF4C14F0'
    '7B8204E67841A165E924945CD07F37E7',
    key='3D331BBBB1FBBB40E4BF22F6CB9A689EF13A77DC09ECF93291BFE42439A72E7D',
    x='1F66B5B84B7339674533F0329C74F21834281FED0732429E0C79235FC273E269', header=None)
# belt-hash
add('A.23-1', 'hash', 'ABEF9725D4C5A83597A367D14494CC2542F20F659DDFECC961A3EC550CBA8C75', x=h(0, 13))
add('A.23-2', 'hash', '749E4C3653AECE5E48DB4761227742EB6DBE13F4A80F7BEFF1A9CF8D10EE7786', x=h(0, 32))
add('A.23-3', 'hash', '9D02EE446FB6A29FE5C982D4B13AF9D3E90861BC4CEF27CF306BFB0B174A154A', x=h(0, 48))
# belt-bde / belt-sde
add('A.24-1', 'bde_encr', 'E9CAB32D879CC50C10378EB07C10F26307257E2DBE2B854CBC9F38282D59D6A7'
    '7F952001C5D1244F53210A27C216D4BB', key=K1, iv=S1, x=h(0, 48))
add('A.25-1', 'bde_decr', '7041BC226352C706D00EA8EF23CFE46AFAE118577D037FACDC36E4ECC1F65746'
    '09F236943FB809E1BEE4A1C686C13ACC', key=K2, iv=S2, x=h(64, 48))
add('A.24-2', 'sde_encr', '1FCBB01852003D60B66024C508608BAA2C21AF1E884CF31154D3077D4643CF22'
    '49EB2F5A68E4BA019D90211A81D690D9', key=K1, iv=S1, x=h(0, 48))
add('A.25-2', 'sde_decr', 'E9FDF3F788657332E6C46FCF5251B8A6D43543A93E3233837DB1571183A6EF4D'
    '7FEB5CDF999E1A3F51A5A3381BEB7FA5', key=K2, iv=S2, x=h(64, 48))
# belt-fmt
STR = list(range(21))
add('A.26-1', 'fmt_encr', [6, 9, 3, 4, 7, 7, 0, 3, 5, 2], key=K1, iv=S1, mod=10, count=10, src=STR[:10])
add('A.26-1d', 'fmt_decr', STR[:10], key=K1, iv=S1, mod=10, count=10, src=[6, 9, 3, 4, 7, 7, 0, 3, 5, 2])
F2 = [7, 4, 6, 21, 49, 55, 24, 23, 22, 50, 27, 39, 24, 24, 17, 32, 57, 43, 26, 5, 29]
add('A.26-2', 'fmt_encr', F2, key=K1, iv=S1, mod=58, count=21, src=STR[:21])
add('A.26-2d', 'fmt_decr', STR[:21], key=K1, iv=S1, mod=58, count=21, src=F2)
F3 = [14290, 31359, 58054, 51842, 44653, 34762, 28652, 48929, 6541, 13788, 7784, 46182, 61098,
      43056, 3564, 21568, 63878]
add('A.26-3', 'fmt_encr', F3, key=K1, iv=S1, mod=65536, count=17, src=STR[:17])
add('A.26-3d', 'fmt_decr', STR[:17], key=K1, iv=S1, mod=65536, count=17, src=F3)
for mod, cnt, iv in ((9, 9, S1), (11, 11, None), (256, 16, S1), (257, 17, S1), (49667, 9, S1)):
    add('fmt-rt-%d-%d' % (mod, cnt), 'fmt_roundtrip', STR[:cnt], key=K1, iv=iv, mod=mod, count=cnt,
        src=STR[:cnt])
# belt-keyexpand
add('A.27-1', 'key_expand', 'E9DEE72C8F0C0FA62DDB49F46F739647E9DEE72C8F0C0FA62DDB49F46F739647', key=h(128, 16))
add('A.27-2', 'key_expand', 'E9DEE72C8F0C0FA62DDB49F46F73964706075316ED247A374B09A17E8450BF66', key=h(128, 24))
# belt-keyrep
LVL = '01' + '00' * 11
add('A.28-1', 'krp', '6BBBC2336670D31AB83DAA90D52C0541', key=K1, level=LVL, header=h(32, 16), m=16)
add('A.28-2', 'krp', '9A2532A18CBAF145398D5A95FEEA6C825B9C197156A00275', key=K1, level=LVL, header=h(32, 16), m=24)
add('A.28-3', 'krp', '76E166E6AB21256B6739397B672B879614B81CF05955FC3AB09343A745C48F77',
    key=K1, level=LVL, header=h(32, 16), m=32)
# belt-hmac (STB 34.101.47 B.1)
add('B.1-1', 'hmac', 'D4828E6312B08BB83C9FA6535A4635549E411FD11C0D8289359A1130E930676B', key=h(128, 29), x=h(192, 32))
add('B.1-2', 'hmac', '41FFE8645AEC0612E952D2CDF8DD508F3E4A1D9B53F6A1DB293B19FE76B1879F', key=h(128, 32), x=h(192, 32))
add('B.1-3', 'hmac', '7D01B84D2315C332277B3653D7EC64707EBA7CDFF7FF70077B1DECBD68F2A144', key=h(128, 42), x=h(192, 32))
# PBKDF2 (bign_test.c: STB 34.101.45 E.5 and two OpenSSL cross-checks)
add('bign-E.5-pbkdf2', 'pbkdf2', '3D331BBBB1FBBB40E4BF22F6CB9A689EF13A77DC09ECF93291BFE42439A72E7D',
    pwd=b'B194BAC80A08F53B'.hex(), iter=10000, salt=h(192, 8))
add('pbkdf2-openssl-1', 'pbkdf2', '7249B4785FE68B1586D189A23E3842E48705C080A3248D8F0E8C3D63A93B2670',
    pwd=b'zed'.hex(), iter=2048, salt='49FEFF8076CD9480')
add('pbkdf2-openssl-2', 'pbkdf2', 'E48329259BC1211DDAC2EF1DADFFC9932702A92F1DD66C14A9BA1D7300C8713C',
    pwd=b'zed'.hex(), iter=10000, salt='C65017E4F108BCF0')
# zerosum
ZS = [15014, 124106, 166335, 206478, 313245, 366839, 455597, 502723, 535141, 625112,
      659461, 752253, 801048, 897899, 943850, 1041695, 1101266, 1170856, 1217537,
      1248520, 1366084, 1421171, 1448429, 1514215, 1573855, 1701341, 1738016, 1781705,
      1837300, 1948449, 1999650, 2089289, 2117830, 2175758, 2249930, 2358928, 2404262,
      2447467, 2552783, 2556713, 2678348, 2705770, 2808011, 2827994, 2948039, 2995213,
      3029188, 3096649, 3170243, 3230306, 3285991, 3350691, 3457162, 3500592, 3539783,
      3636611, 3735543, 3752463, 3814136, 3875630, 3935109, 4002291, 4088401, 4129247,
      4257830, 4266427, 4352389, 4397389, 4470348, 4531932, 4598961, 4691323, 4747531,
      4839756, 4900773, 4958368, 5021928, 5099836, 5164752, 5214964, 5269476, 5356247,
      5391667, 5496861, 5561223, 5601750, 5700311, 5761736, 5812345, 5856838, 5956987,
      5966502, 6059392, 6104328, 6193021, 6233226, 6311341, 6369016, 6475468, 6540894,
      6598453, 6666092, 6711620, 6804478, 6834201, 6932158, 6971325, 7059579, 7089192,
      7188715, 7245095, 7325355, 7367748, 7426778, 7475903, 7599231, 7643174, 7722266,
      7747291, 7832837, 7887591, 7942192, 8043937, 8108261, 8169299, 8233361, 8305861,
      8367181]
assert len(ZS) == 128
add('zerosum', 'zerosum', None, key='00' * 32, words=ZS)

here = os.path.dirname(os.path.abspath(__file__))


def dump(name, doc):
    with open(os.path.join(here, name), 'w') as fp:
        json.dump(doc, fp, indent=1)
        fp.write('\n')


SRC = 'bee2 test/crypto/%s (appendix tables of STB 34.101.31 / 34.101.47 / 34.101.45)'
dump('belt.json', {'source': SRC % 'belt_test.c, bign_test.c', 'H': H.hex().upper(), 'vectors': V})

# ---- brng (STB 34.101.47 B.2, B.4 + additional tests) ----
B = []
B.append({'id': 'B.2', 'op': 'ctr', 'in': {'key': K1, 'iv': h(192, 32), 'prior': h(0, 256),
                                           'steps': [32, 32, 32, 'get_iv', 160]},
          'out': {'data':
                  '1F66B5B84B7339674533F0329C74F21834281FED0732429E0C79235FC273E269'
                  '4C0E74B2CD5811AD21F23DE7E0FA742C3ED6EC483C461CE15C33A77AA308B7D2'
                  '0F51D91347617C20BD4AB07AEF4F26A1AD1362A8F9A3D42FBE1B8E6F1C88AAD5'
                  '0A4E8298BE0839E46F19409F637F4415572251DD0D39284F0F0390D93BBCE9EC'
                  'F81B29D571F6452FF8B2B97F57E18A58BC946FEE45EAB32B06FCAC23A33F422B'
                  'C431B41BBE8E802288737ACF45A29251FC736A3C6F478F77A7ED271D5EEDAA58'
                  'E98309303623AFD33017C42BC6D43C15438446EE57D46E412EFC0B61B5FBA39E'
                  'D37BABE50BFEEB8ED162BB1393D46FB43534A201EB3B1A5C085DC5068ED6F89A',
                  'iv': ['C132971343FC9A48A02A885F194B09A17ECDA4D01544AF8CA58450BF66D2E88A']}})
B.append({'id': 'B.2-rand', 'op': 'ctr', 'in': {'key': K1, 'iv': h(192, 32), 'prior': h(0, 96),
                                                'steps': [96, 'get_iv']},
          'out': {'data':
                  '1F66B5B84B7339674533F0329C74F21834281FED0732429E0C79235FC273E269'
                  '4C0E74B2CD5811AD21F23DE7E0FA742C3ED6EC483C461CE15C33A77AA308B7D2'
                  '0F51D91347617C20BD4AB07AEF4F26A1AD1362A8F9A3D42FBE1B8E6F1C88AAD5',
                  'iv': ['C132971343FC9A48A02A885F194B09A17ECDA4D01544AF8CA58450BF66D2E88A']}})
B.append({'id': 'B.4', 'op': 'hmac', 'in': {'key': K1, 'iv': h(192, 32), 'steps': [32, 11, 19, 2, 32]},
          'out': {'data':
                  'AF907A0E470A3A1B268ECCCCC0B90F239FE94A2DC6E014179FC789CB3C3887E4'
                  '695C6B96B84948F8D76924E22260859DB9B5FE757BEDA2E17103EE44655A9FEF'
                  '648077CCC5002E0561C6EF512C513B8C24B4F3A157221CFBC1597E969778C1E4'}})
B.append({'id': 'B.4-rand', 'op': 'hmac', 'in': {'key': K1, 'iv': h(192, 32), 'steps': [96]},
          'out': {'data':
                  'AF907A0E470A3A1B268ECCCCC0B90F239FE94A2DC6E014179FC789CB3C3887E4'
                  '695C6B96B84948F8D76924E22260859DB9B5FE757BEDA2E17103EE44655A9FEF'
                  '648077CCC5002E0561C6EF512C513B8C24B4F3A157221CFBC1597E969778C1E4'}})
B.append({'id': 'hmac-short', 'op': 'hmac', 'in': {'key': h(128, 1), 'iv': h(192, 1), 'steps': [2]},
          'out': {'data': '42B1'}})
dump('brng.json', {'source': SRC % 'brng_test.c', 'H': H.hex().upper(), 'vectors': B})

# ---- botp (STB 34.101.47-2016 annex A: HOTP/TOTP/OCRA) ----
CTR = int.from_bytes(H[192:200], 'big')


def c8(v):
    return (v % 2 ** 64).to_bytes(8, 'big').hex().upper()


T0 = 1449165288 // 60                       # TOTP.1
SUITE = 'OCRA-1:HOTP-HBELT-8:C-QN08-PHBELT-S064-T1M'
P_HASH = 'ABEF9725D4C5A83597A367D14494CC2542F20F659DDFECC961A3EC550CBA8C75'   # belt-hash(H[0:13]), A.23-1
O = []
O.append({'id': 'HOTP.1', 'op': 'hotp', 'in': {'key': K1, 'ctr': c8(CTR), 'digit': 8},
          'out': {'otp': '21157984', 'ctr': c8(CTR + 1)}})
O.append({'id': 'HOTP.2', 'op': 'hotp', 'in': {'key': K1, 'ctr': c8(CTR + 1), 'digit': 8},
          'out': {'otp': '17877985', 'ctr': c8(CTR + 2)}})
O.append({'id': 'HOTP.3', 'op': 'hotp', 'in': {'key': K1, 'ctr': c8(CTR + 2), 'digit': 8},
          'out': {'otp': '26078636', 'ctr': c8(CTR + 3)}})
O.append({'id': 'TOTP.1', 'op': 'totp', 'in': {'key': K1, 't': T0, 'digit': 8}, 'out': {'otp': '97660664'}})
O.append({'id': 'TOTP.2', 'op': 'totp', 'in': {'key': K1, 't': T0 + 1, 'digit': 8}, 'out': {'otp': '94431522'}})
O.append({'id': 'TOTP.3', 'op': 'totp', 'in': {'key': K1, 't': T0 + 2, 'digit': 8}, 'out': {'otp': '55973851'}})
for s, ok in (('OCRA-:HOTP-HBELT-6:C-QN08', False), ('OCRA-1:HOTP-HBELT-3:C-QN08', False),
              ('OCRA-1:HOTP-HBELT-6-QN08', False), ('OCRA-1:HOTP-HBELT-8:C-QA65', False),
              ('OCRA-1:HOTP-HBELT-8:C-QN08-', False), ('OCRA-1:HOTP-HBELT-8:C-QN08-PSHA', False),
              ('OCRA-1:HOTP-HBELT-8:QN08-SA13', False), ('OCRA-1:HOTP-HBELT-8:QN08-T1N', False),
              ('OCRA-1:HOTP-HBELT-8:QN08-T61S', False), ('OCRA-1:HOTP-HBELT-8:QN08-T51H', False),
              ('OCRA-1:HOTP-HBELT-9:QN08-T8S', True), (SUITE, True)):
    O.append({'id': 'OCRA.format:' + s, 'op': 'ocra_format', 'in': {'suite': s}, 'out': {'valid': ok}})
O.append({'id': 'OCRA.1', 'op': 'ocra', 'in': {'suite': SUITE, 'key': K1, 'q': b'21157984'.hex(),
                                               'ctr': c8(CTR + 3), 'p': P_HASH, 's': h(0, 64), 't': T0 + 2 + 3},
          'out': {'otp': '85199085', 'ctr': c8(CTR + 4)}})
O.append({'id': 'OCRA.2', 'op': 'ocra', 'in': {'suite': SUITE, 'key': K1, 'q': b'1787798526078636'.hex(),
                                               'ctr': c8(CTR + 4), 'p': P_HASH, 's': h(0, 64), 't': T0 + 2 + 13},
          'out': {'otp': '89873725', 'ctr': c8(CTR + 5)}})
O.append({'id': 'OCRA.3', 'op': 'ocra', 'in': {'suite': SUITE, 'key': K1, 'q': b'2607863617877985'.hex(),
                                               'ctr': c8(CTR + 5), 'p': P_HASH, 's': h(0, 64), 't': T0 + 2 + 14},
          'out': {'otp': '21318915', 'ctr': c8(CTR + 6)}})
dump('botp.json', {'source': SRC % 'botp_test.c', 'H': H.hex().upper(), 'vectors': O})
print('belt %d, brng %d, botp %d vectors' % (len(V) + 1, len(B), len(O)))
