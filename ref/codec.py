#!/usr/bin/env python3
# -*- coding: utf-8 -*-
"""
codec.py -- specification-level reference model of the bee2 encoders/decoders
===========================================================================

Written from the *documented grammar* (the doc comments of
include/bee2/core/{der,oid,apdu,hex,b64,dec,str}.h), NOT from the .c files.
Stdlib only.  Used as an oracle: accept/reject, consumed length, decoded value,
canonical re-encoding.

Conventions
-----------
* octet strings are `bytes`; every decoder takes the *whole available buffer*
  ("[<=count]der": the code sits in a prefix of the buffer) and returns
  `None` for "reject" (C: SIZE_MAX / FALSE) or a tuple ending with the
  number of consumed octets for "accept".
* character strings (hex, base64, decimal, OID, PrintableString) are `str`
  (or `bytes`, read as latin-1).  A C string cannot contain NUL; the model
  treats NUL (and any char > 0xFF) as an ordinary *invalid* character.
* SIZE_MAX = 2**64-1 (LP64 size_t), U32_MAX = 2**32-1.
* `LEN_MAX` (module variable, default SIZE_MAX): largest DER length accepted
  by der_l_dec.  der.h: "Ограничение реализации: длина укладывается в
  size_t", i.e. L <= SIZE_MAX.  Set `codec.LEN_MAX = SIZE_MAX - 1` to model
  the reading "L < SIZE_MAX" (SIZE_MAX doubles as the error sentinel).

DER (der.h)
-----------
Tag = u32 holding the tag octets big-endian ("тег задается словом u32,
которое является готовым кодом"): 0x30, 0x7F21, 0x5F29, ...  At most 4
octets => long tags carry at most 3 base-128 groups => tag number < 2**21.
First octet: bits 8-7 class, bit 6 constructed, bits 5-1 number (0..30) or
11111 = long form.  Long form: groups (t_{r-1}|128) ... (t_1|128) t_0 with
t_{r-1} != 0 (first group octet != 0x80) and number >= 31.

  der_tag_is_valid(tag) -> bool
  der_tag_info(tag)     -> (cls 0..3, constructed bool, number) | None
  der_tag_make(cls, constructed, number) -> tag | None
  der_t_enc(tag)        -> bytes | None
  der_t_dec(data)       -> (tag, t_count) | None
  der_l_enc(length)     -> bytes            (minimal: short <128, else long)
  der_l_dec(data)       -> (length, l_count) | None
        rejects: empty, 0x80 (indefinite), 0xFF (reserved), long form with
        leading zero octet, long form for L < 128, L > LEN_MAX, truncated.
  der_tl_enc(tag, length) -> bytes | None            (derTLEnc)
  der_tl_dec(data)      -> (tag, length, tl_count) | None   (derTLDec)
  der_enc(tag, value)   -> bytes | None              (derEnc)
  der_dec(data)         -> (tag, value, consumed) | None    (derDec; the
                           complete value must be present in data)
  der_dec2(data, tag)   -> (value, consumed) | None  (derDec2)
  der_dec3(data, tag, length) -> (value, consumed) | None   (derDec3)
  der_dec4(data, tag, value)  -> consumed | None     (derDec4)
  der_is_valid(data)    -> bool   (derIsValid: whole buffer is ONE TLV)
  der_is_valid2(data, tag) -> bool                   (derIsValid2)
  der_starts_with(data, tag) -> bool                 (derStartsWith)

 typed helpers ("T" variants take an explicit tag; plain ones use the
 standard tag 02/03/04/05/06/13/30):
  SIZE  der_tsize_enc(tag, val) / der_size_enc(val) -> bytes | None
        der_tsize_dec(data, tag) / der_size_dec(data) -> (val, consumed)|None
        der_tsize_dec2(data, tag, val) -> consumed | None
        non-negative INTEGER 0..SIZE_MAX, minimal big-endian, leading 00 iff
        top bit set; V must be non-empty and completely present.
  UINT  der_tuint_enc(tag, val_le) / der_uint_enc(val_le) -> bytes | None
        der_tuint_dec(data, tag) / der_uint_dec(data) -> (val_le, consumed)
        der_tuint_dec2(data, tag, length) -> (val_le, consumed) | None
        val_le is the number as LITTLE-endian octets (der.h: "UINT ... правила
        little-endian"); the decoder returns it without insignificant zero
        octets (val[len-1]==0 <=> len==1).
  BIT   der_tbit_enc(tag, val, bitlen) / der_bit_enc(val, bitlen) -> bytes
        der_tbit_dec(data, tag) / der_bit_dec(data) -> (val, bitlen, consumed)
        der_tbit_dec2(data, tag, bitlen) -> (val, consumed) | None
        V = [unused 0..7] || octets; unused != 0 needs >= 1 data octet; the
        unused (padding) bits are ZERO ("дополняется нулями") -- see
        BIT_PADDING_MUST_BE_ZERO.
  OCT   der_toct_enc / der_oct_enc(val), der_toct_dec(data, tag) /
        der_oct_dec(data) -> (val, consumed), der_toct_dec2(data, tag, len),
        der_toct_dec3 = der_dec4
  NULL  der_null_enc() -> b'\\x05\\x00'; der_null_dec(data) -> consumed|None
  OID   der_oid_enc(oid) -> bytes|None; der_oid_dec(data) -> (oid, consumed);
        der_oid_dec2(data, oid) -> consumed | None
  PSTR  der_tpstr_enc(tag, s) / der_pstr_enc(s) -> bytes | None
        der_tpstr_dec(data, tag) / der_pstr_dec(data) -> (s, consumed)|None
        alphabet (str.h strIsPrintable): A-Z a-z 0-9 and " '()+,-./:=?"
        (NUL is not in the alphabet)
  SEQ   der_tseq_enc_start(tag) -> bytes|None  (T || 00; tag must be
        constructed); der_tseq_enc_stop(tag, content_len) -> extra octets the
        length field grows by; der_tseq_enc(tag, content) -> final TLV;
        der_tseq_dec_start(data, tag) -> (content_len, tl_count) | None (TL
        only); der_tseq_dec_stop(tl_count, content_len, pos) -> 0 | None
        (pos = offset of the decoding cursor from the SEQ start);
        der_tseq_dec(data, tag) -> (content, consumed) | None (whole TLV).

OID (oid.h)
-----------
"d1.d2....dn", decimal without leading zeros, n >= 2, d1 <= 2, d1 < 2 =>
d2 < 40, every di <= U32_MAX, 40*d1+d2 <= U32_MAX.
  oid_is_valid(s) -> bool
  oid_to_der(s)   -> bytes | None      (with tag 06 and length)
  oid_from_der(data) -> str | None     (exact fit: [count]der)
DER side: >= 1 sub-identifier, every one complete (last octet < 0x80),
minimal (no leading 0x80), <= U32_MAX.

APDU (apdu.h)
-------------
  apdu_cmd_is_valid(cdf_len, rdf_len) -> bool  (cdf_len<=65535, rdf_len<=65536)
  apdu_cmd_enc(cla, ins, p1, p2, cdf, rdf_len) -> bytes | None
        shortest form: short iff cdf_len <= 255 and rdf_len <= 256.
  apdu_cmd_dec(data, canonical=False)
        -> (cla, ins, p1, p2, cdf, rdf_len) | None
        canonical=False: the grammar of apdu.h (items 4-5: Lc/Le "могут быть
        представлены в короткой или расширенной форме", forms must match,
        short Lc != 00, extended Lc != 0000).  The header does NOT demand the
        shortest form.  canonical=True additionally requires
        apdu_cmd_enc(decoded) == data.
  apdu_cmd_forms(data) -> (lc_form, le_form) with values None/'short'/'ext'
  apdu_resp_is_valid(rdf_len) -> bool (<= 65536, the largest Le)
  apdu_resp_enc(sw1, sw2, rdf) -> bytes | None ; apdu_resp_dec(data) ->
        (sw1, sw2, rdf) | None  (count >= 2; no upper limit documented)

hex (hex.h)   NB: names follow the C API: *From* = memory -> string,
                  *To* = string -> memory.
  hex_is_valid(s); hex_from(b) -> UPPER-case str; hex_from_rev(b);
  hex_to(s) -> bytes|None (case-insensitive); hex_to_rev(s);
  hex_upper(s); hex_lower(s); hex_eq(b, s); hex_eq_rev(b, s)
b64 (b64.h)
  b64_is_valid(s) (len % 4 == 0, '=' only as final "=" / "==", stray low bits
  of the last symbol must be zero); b64_from(b) -> str; b64_to(s) -> bytes|None
  Alphabet: A-Z a-z 0-9 + /  (b64.h prints "{'A',...,'F','a',...,'f',...}" and
  "RFC 4848" -- typos for A-Z/a-z and RFC 4648; rule 1 of the header, "000000
  -> 'A', ..., 111111 -> '/'", fixes the 64-symbol alphabet).
dec (dec.h)
  dec_is_valid(s); dec_clz(s); dec_from_u32(count, num); dec_to_u32(s)
  (mod 2**32); dec_fits_u32(s) (the documented overflow test); the same for
  u64; dec_luhn_calc/verify; dec_damm_calc/verify.

Where the baseline C code (libbee2 2.1.5) is known to deviate from this model
-----------------------------------------------------------------------------
(found by a ctypes cross-check; the model deliberately keeps the documented
grammar)
  T1  derTDec returns FALSE(0) instead of SIZE_MAX for `xx1F` alone and for
      `1F 00..`, `1F 80..`: a 0-octet "tag" is accepted, *tag is not written.
  T2  a long tag whose last octet sits at offset min(count,4)-1 is taken for
      "terminator not found": every 4-octet tag is rejected by all decoders
      (although derEnc emits it); derStartsWith fails on an exact T buffer.
  T3  derTIsValid (encoders) rejects the valid tags xx 81..9E 00 and
      xx 81..9E 80 00 (numbers 128k, 16384k, k = 1..30).
  L1  derLDec rejects L == SIZE_MAX (`88 FF*8`); see LEN_MAX.
  W1  derDec: tl_count + len wraps for len near SIZE_MAX -> accepted.
  S1  derTSIZEDec never compares the value length with the remaining input
      and reads der[0] for an empty value.
  O1  derOIDDec/oidFromDER accept an empty value (`06 00` -> "") and
  O2  a truncated last sub-identifier (`06 01 81` -> "", `06 02 2A 81`).
  P1  derTPSTRDec accepts NUL octets (strchr matches the terminator).
  B1  derTBITDec(2) do not check that the padding bits are zero.
  A1  apduCmdDec is half-canonical: it rejects extended Le forms whose values
      fit the short form, yet accepts an extended Lc with cdf_len < 256 when
      Le is absent, and accepts the extended Lc 00 00 00 followed by a
      2-octet Le > 256 (decoded as cdf_len = 0).

Command line
------------
  python3 codec.py --selftest     run the vectors of vectors/codec.json
                                  (harvested from test/core/{der,oid,apdu,hex,
                                  b64,dec}_test.c and the header examples);
                                  prints 'OK n vectors' and exits 0, else 1.
"""

import json
import os
import sys

SIZE_MAX = 2**64 - 1
U32_MAX = 2**32 - 1
U64_MAX = 2**64 - 1
LEN_MAX = SIZE_MAX - 1      # SIZE_MAX is the error value of the module: derLDec refuses it and (since fix 'derLEnc: do not encode the length SIZE_MAX') so does derLEnc

# der.h: a bit string whose length is not a multiple of 8 "предварительно
# дополняется нулями ... в младших битах последнего октета".  A DER code with
# non-zero padding bits is therefore not the code of any bit string.
BIT_PADDING_MUST_BE_ZERO = True



def _b(x):
    """bytes-like -> bytes"""
    if isinstance(x, (bytes, bytearray, memoryview)):
        return bytes(x)
    raise TypeError("octet string expected")


def _s(x):
    """str/bytes -> list of char codes, or None if not representable"""
    if isinstance(x, (bytes, bytearray)):
        return list(x)
    if isinstance(x, str):
        return [ord(c) for c in x]
    raise TypeError("string expected")


# =============================================================================
# DER: tag
# =============================================================================

def der_t_dec(data):
    """T field -> (tag, t_count) | None"""
    data = _b(data)
    if len(data) < 1:
        return None
    b0 = data[0]
    if (b0 & 31) != 31:
        # short tag: numbers 0..30, a single octet
        return (b0, 1)
    # long tag: (t_{r-1}|128) ... (t_1|128) t_0, t_{r-1} != 0, number >= 31,
    # the whole code fits u32 => at most 3 group octets
    num = 0
    i = 1
    while True:
        if i >= len(data) or i >= 4:
            return None            # terminator not found / does not fit u32
        b = data[i]
        if i == 1 and (b & 127) == 0 and (b & 128):
            return None            # t_{r-1} == 0: non-minimal
        num = (num << 7) | (b & 127)
        i += 1
        if not (b & 128):
            break
    if num < 31:
        return None                # "длинные теги ... только для номеров >= 31"
    return (int.from_bytes(data[:i], 'big'), i)


def _tag_octets(tag):
    if not isinstance(tag, int) or tag < 0 or tag > U32_MAX:
        return None
    o = tag.to_bytes(4, 'big').lstrip(b'\x00')
    return o if o else b'\x00'


def der_tag_is_valid(tag):
    o = _tag_octets(tag)
    return o is not None and der_t_dec(o) == (tag, len(o))


def der_tag_info(tag):
    """-> (class, constructed, number) | None"""
    if not der_tag_is_valid(tag):
        return None
    o = _tag_octets(tag)
    cls = o[0] >> 6
    cons = bool(o[0] & 32)
    if len(o) == 1:
        return (cls, cons, o[0] & 31)
    num = 0
    for b in o[1:]:
        num = (num << 7) | (b & 127)
    return (cls, cons, num)


def der_tag_make(cls, constructed, number):
    if not (0 <= cls <= 3) or number < 0:
        return None
    b0 = (cls << 6) | (32 if constructed else 0)
    if number < 31:
        return b0 | number
    groups = []
    n = number
    while n:
        groups.append(n & 127)
        n >>= 7
    if len(groups) > 3:
        return None
    groups.reverse()
    o = bytes([b0 | 31] + [g | 128 for g in groups[:-1]] + [groups[-1]])
    return int.from_bytes(o, 'big')


def der_t_enc(tag):
    return _tag_octets(tag) if der_tag_is_valid(tag) else None


# =============================================================================
# DER: length
# =============================================================================

def der_l_enc(length):
    if not isinstance(length, int) or length < 0 or length > LEN_MAX:
        return None
    if length < 128:
        return bytes([length])
    o = length.to_bytes((length.bit_length() + 7) // 8, 'big')
    return bytes([128 | len(o)]) + o


def der_l_dec(data):
    """L field -> (length, l_count) | None"""
    data = _b(data)
    if len(data) < 1:
        return None
    b0 = data[0]
    if b0 < 128:
        return (b0, 1)             # short definite form
    if b0 == 128 or b0 == 255:
        return None                # indefinite form / reserved octet
    r = b0 & 127
    if len(data) < 1 + r:
        return None
    o = data[1:1 + r]
    if o[0] == 0:
        return None                # l_{r-1} != 0
    l = int.from_bytes(o, 'big')
    if l < 128:
        return None                # short form is mandatory for L < 128
    if l > LEN_MAX:
        return None                # does not fit size_t
    return (l, 1 + r)


# =============================================================================
# DER: TL, TLV
# =============================================================================

def der_tl_enc(tag, length):
    t = der_t_enc(tag)
    l = der_l_enc(length)
    if t is None or l is None:
        return None
    return t + l


def der_tl_dec(data):
    """-> (tag, length, tl_count) | None"""
    data = _b(data)
    t = der_t_dec(data)
    if t is None:
        return None
    l = der_l_dec(data[t[1]:])
    if l is None:
        return None
    return (t[0], l[0], t[1] + l[1])


def der_enc(tag, value):
    value = _b(value)
    tl = der_tl_enc(tag, len(value))
    if tl is None:
        return None
    return tl + value


def der_dec(data):
    """-> (tag, value, consumed) | None; V must be completely present"""
    data = _b(data)
    tl = der_tl_dec(data)
    if tl is None:
        return None
    tag, length, c = tl
    if length > len(data) - c:
        return None
    return (tag, data[c:c + length], c + length)


def der_dec2(data, tag):
    r = der_dec(data)
    if r is None or r[0] != tag:
        return None
    return (r[1], r[2])


def der_dec3(data, tag, length):
    r = der_dec2(data, tag)
    if r is None or len(r[0]) != length:
        return None
    return r


def der_dec4(data, tag, value):
    r = der_dec2(data, tag)
    if r is None or r[0] != _b(value):
        return None
    return r[1]


def der_is_valid(data):
    data = _b(data)
    r = der_dec(data)
    return r is not None and r[2] == len(data)


def der_is_valid2(data, tag):
    data = _b(data)
    r = der_dec(data)
    return r is not None and r[2] == len(data) and r[0] == tag


def der_starts_with(data, tag):
    t = der_t_dec(data)
    return t is not None and t[0] == tag


# =============================================================================
# DER: SIZE (non-negative INTEGER that fits size_t)
# =============================================================================

def _uint_be_min(n):
    """minimal big-endian two's complement contents of a non-negative int"""
    o = n.to_bytes(max(1, (n.bit_length() + 7) // 8), 'big')
    if o[0] & 128:
        o = b'\x00' + o
    return o


def _uint_be_check(v):
    """contents octets of a DER INTEGER >= 0 ? -> bool"""
    if len(v) < 1:
        return False               # at least one octet
    if v[0] & 128:
        return False               # negative
    if len(v) > 1 and v[0] == 0 and not (v[1] & 128):
        return False               # redundant leading zero octet
    return True


def der_tsize_enc(tag, val):
    if not isinstance(val, int) or val < 0 or val > SIZE_MAX:
        return None
    return der_enc(tag, _uint_be_min(val))


def der_size_enc(val):
    return der_tsize_enc(0x02, val)


def der_tsize_dec(data, tag):
    r = der_dec2(data, tag)
    if r is None:
        return None
    v, c = r
    if not _uint_be_check(v):
        return None
    n = int.from_bytes(v, 'big')
    if n > SIZE_MAX:
        return None
    return (n, c)


def der_size_dec(data):
    return der_tsize_dec(data, 0x02)


def der_tsize_dec2(data, tag, val):
    r = der_tsize_dec(data, tag)
    if r is None or r[0] != val:
        return None
    return r[1]


# =============================================================================
# DER: UINT (non-negative INTEGER given as little-endian octets)
# =============================================================================

def der_tuint_enc(tag, val_le):
    val_le = _b(val_le)
    if len(val_le) == 0:
        raise ValueError("derTUINTEnc: \\pre len > 0")
    n = int.from_bytes(val_le, 'little')
    return der_enc(tag, _uint_be_min(n))


def der_uint_enc(val_le):
    return der_tuint_enc(0x02, val_le)


def der_tuint_dec(data, tag):
    """-> (val_le, consumed) | None"""
    r = der_dec2(data, tag)
    if r is None:
        return None
    v, c = r
    if not _uint_be_check(v):
        return None
    if len(v) > 1 and v[0] == 0:
        v = v[1:]                  # sign octet
    return (v[::-1], c)


def der_uint_dec(data):
    return der_tuint_dec(data, 0x02)


def der_tuint_dec2(data, tag, length):
    r = der_tuint_dec(data, tag)
    if r is None or len(r[0]) != length:
        return None
    return r


# =============================================================================
# DER: BIT
# =============================================================================

def der_tbit_enc(tag, val, bitlen):
    val = _b(val)
    n = (bitlen + 7) // 8
    if len(val) < n:
        raise ValueError("derTBITEnc: val shorter than (len + 7) / 8")
    body = bytearray(val[:n])
    unused = (8 - bitlen % 8) % 8
    if unused:
        body[-1] &= (0xFF << unused) & 0xFF
    return der_enc(tag, bytes([unused]) + bytes(body))


def der_bit_enc(val, bitlen):
    return der_tbit_enc(0x03, val, bitlen)


def der_tbit_dec(data, tag):
    """-> (val, bitlen, consumed) | None"""
    r = der_dec2(data, tag)
    if r is None:
        return None
    v, c = r
    if len(v) < 1:
        return None
    unused = v[0]
    if unused > 7:
        return None
    if unused != 0 and len(v) == 1:
        return None
    if BIT_PADDING_MUST_BE_ZERO and unused and (v[-1] & ((1 << unused) - 1)):
        return None
    return (v[1:], (len(v) - 1) * 8 - unused, c)


def der_bit_dec(data):
    return der_tbit_dec(data, 0x03)


def der_tbit_dec2(data, tag, bitlen):
    r = der_tbit_dec(data, tag)
    if r is None or r[1] != bitlen:
        return None
    return (r[0], r[2])


# =============================================================================
# DER: OCT, NULL
# =============================================================================

def der_toct_enc(tag, val):
    return der_enc(tag, val)


def der_oct_enc(val):
    return der_enc(0x04, val)


def der_toct_dec(data, tag):
    return der_dec2(data, tag)


def der_oct_dec(data):
    return der_dec2(data, 0x04)


def der_toct_dec2(data, tag, length):
    return der_dec3(data, tag, length)


def der_oct_dec2(data, length):
    return der_dec3(data, 0x04, length)


der_toct_dec3 = der_dec4


def der_oct_dec3(data, val):
    return der_dec4(data, 0x04, val)


def der_null_enc():
    return der_enc(0x05, b'')


def der_null_dec(data):
    return der_dec4(data, 0x05, b'')


# =============================================================================
# OID
# =============================================================================

def _oid_parse(s):
    """dotted string -> list of arcs | None (oid.h grammar)"""
    cs = _s(s)
    arcs = []
    cur = []
    for ch in cs + [0x2E]:
        if ch == 0x2E:
            if not cur:
                return None                    # empty number
            if len(cur) > 1 and cur[0] == 0x30:
                return None                    # leading zero
            arcs.append(int(bytes(cur).decode('ascii')))
            cur = []
        elif 0x30 <= ch <= 0x39:
            cur.append(ch)
        else:
            return None
    if len(arcs) < 2:
        return None
    if any(a > U32_MAX for a in arcs):
        return None
    if arcs[0] > 2:
        return None
    if arcs[0] < 2 and arcs[1] >= 40:
        return None
    if 40 * arcs[0] + arcs[1] > U32_MAX:
        return None
    return arcs


def oid_is_valid(s):
    return _oid_parse(s) is not None


def _sid_enc(n):
    g = [n & 127]
    n >>= 7
    while n:
        g.append((n & 127) | 128)
        n >>= 7
    return bytes(reversed(g))


def _oid_body_enc(arcs):
    out = _sid_enc(40 * arcs[0] + arcs[1])
    for a in arcs[2:]:
        out += _sid_enc(a)
    return out


def _oid_body_dec(v):
    """contents octets -> dotted string | None"""
    if len(v) == 0:
        return None                            # n >= 2 => at least one sid
    sids = []
    cur = 0
    start = True
    for b in v:
        if start and b == 0x80:
            return None                        # leading zero group
        cur = (cur << 7) | (b & 127)
        if cur > U32_MAX:
            return None
        start = False
        if not (b & 128):
            sids.append(cur)
            cur = 0
            start = True
    if not start:
        return None                            # truncated sub-identifier
    s0 = sids[0]
    if s0 < 40:
        arcs = [0, s0]
    elif s0 < 80:
        arcs = [1, s0 - 40]
    else:
        arcs = [2, s0 - 80]
    arcs += sids[1:]
    return '.'.join(str(a) for a in arcs)


def der_oid_enc(oid):
    arcs = _oid_parse(oid)
    if arcs is None:
        return None
    return der_enc(0x06, _oid_body_enc(arcs))


def der_oid_dec(data):
    """-> (oid, consumed) | None"""
    r = der_dec2(data, 0x06)
    if r is None:
        return None
    s = _oid_body_dec(r[0])
    if s is None:
        return None
    return (s, r[1])


def der_oid_dec2(data, oid):
    r = der_oid_dec(data)
    if r is None:
        return None
    if isinstance(oid, (bytes, bytearray)):
        oid = bytes(oid).decode('latin-1')
    if r[0] != oid:
        return None
    return r[1]


def oid_to_der(oid):
    return der_oid_enc(oid)


def oid_from_der(data):
    data = _b(data)
    r = der_oid_dec(data)
    if r is None or r[1] != len(data):
        return None
    return r[0]


# =============================================================================
# DER: PSTR
# =============================================================================

_PRINTABLE = frozenset(
    b"ABCDEFGHIJKLMNOPQRSTUVWXYZabcdefghijklmnopqrstuvwxyz0123456789"
    b" '()+,-./:=?")


def str_is_printable(s):
    return all(c in _PRINTABLE for c in _s(s))


def der_tpstr_enc(tag, s):
    cs = _s(s)
    if not all(c in _PRINTABLE for c in cs):
        return None
    return der_enc(tag, bytes(cs))


def der_pstr_enc(s):
    return der_tpstr_enc(0x13, s)


def der_tpstr_dec(data, tag):
    """-> (str, consumed) | None"""
    r = der_dec2(data, tag)
    if r is None:
        return None
    if not all(c in _PRINTABLE for c in r[0]):
        return None
    return (r[0].decode('ascii'), r[1])


def der_pstr_dec(data):
    return der_tpstr_dec(data, 0x13)


# =============================================================================
# DER: SEQ (length bookkeeping)
# =============================================================================

def _is_constructed(tag):
    i = der_tag_info(tag)
    return i is not None and i[1]


def der_tseq_enc_start(tag):
    """prefix written by derTSEQEncStart: T || 00"""
    if not _is_constructed(tag):
        return None
    return der_enc(tag, b'')


def der_tseq_enc_stop(tag, content_len):
    """octets added by derTSEQEncStop (growth of the length field)"""
    if not _is_constructed(tag):
        return None
    return len(der_l_enc(content_len)) - 1


def der_tseq_enc(tag, content):
    if not _is_constructed(tag):
        return None
    return der_enc(tag, content)


def der_seq_enc(content):
    return der_tseq_enc(0x30, content)


def der_tseq_dec_start(data, tag):
    """-> (content_len, tl_count) | None.  Only TL is examined here; whether
    the contents are present is established by the element decoders and by
    der_tseq_dec_stop."""
    if not _is_constructed(tag):
        return None
    tl = der_tl_dec(data)
    if tl is None or tl[0] != tag:
        return None
    return (tl[1], tl[2])


def der_tseq_dec_stop(tl_count, content_len, pos):
    """pos: offset of the cursor from the first octet of the SEQ code"""
    return 0 if pos == tl_count + content_len else None


def der_tseq_dec(data, tag):
    if not _is_constructed(tag):
        return None
    return der_dec2(data, tag)


def der_seq_dec(data):
    return der_tseq_dec(data, 0x30)


# =============================================================================
# APDU
# =============================================================================

def apdu_cmd_is_valid(cdf_len, rdf_len):
    return 0 <= cdf_len <= 65535 and 0 <= rdf_len <= 65536


def apdu_cmd_enc(cla, ins, p1, p2, cdf, rdf_len):
    cdf = _b(cdf)
    if not apdu_cmd_is_valid(len(cdf), rdf_len):
        return None
    if not all(0 <= x <= 255 for x in (cla, ins, p1, p2)):
        return None
    out = bytes([cla, ins, p1, p2])
    lc = len(cdf)
    short = lc <= 255 and rdf_len <= 256
    if lc:
        if short:
            out += bytes([lc])
        else:
            out += b'\x00' + lc.to_bytes(2, 'big')
        out += cdf
    if rdf_len:
        if short:
            out += bytes([rdf_len & 255])          # 256 -> 00
        elif lc:
            out += (rdf_len & 0xFFFF).to_bytes(2, 'big')   # 65536 -> 0000
        else:
            out += b'\x00' + (rdf_len & 0xFFFF).to_bytes(2, 'big')
    return out


def _apdu_cmd_parse(data):
    data = _b(data)
    if len(data) < 4:
        return None
    cla, ins, p1, p2 = data[0], data[1], data[2], data[3]
    body = data[4:]
    m = len(body)
    cdf = b''
    rdf_len = 0
    lc_form = le_form = None
    if m == 0:
        pass
    elif m == 1:
        le_form = 'short'
        rdf_len = body[0] or 256
    elif body[0] != 0:
        # short Lc (1..255)
        lc_form = 'short'
        lc = body[0]
        rest = m - 1 - lc
        if rest < 0:
            return None
        cdf = body[1:1 + lc]
        if rest == 0:
            pass
        elif rest == 1:
            le_form = 'short'
            rdf_len = body[-1] or 256
        else:
            return None
    else:
        # first octet 00: extended forms
        if m == 2:
            return None
        if m == 3:
            le_form = 'ext'
            rdf_len = int.from_bytes(body[1:3], 'big') or 65536
        else:
            lc_form = 'ext'
            lc = int.from_bytes(body[1:3], 'big')
            if lc == 0:
                return None                    # extended Lc != 0000
            rest = m - 3 - lc
            if rest < 0:
                return None
            cdf = body[3:3 + lc]
            if rest == 0:
                pass
            elif rest == 2:
                le_form = 'ext'
                rdf_len = int.from_bytes(body[-2:], 'big') or 65536
            else:
                return None
    return (cla, ins, p1, p2, cdf, rdf_len), (lc_form, le_form)


def apdu_cmd_dec(data, canonical=False):
    r = _apdu_cmd_parse(data)
    if r is None:
        return None
    if canonical and apdu_cmd_enc(*r[0]) != _b(data):
        return None
    return r[0]


def apdu_cmd_forms(data):
    r = _apdu_cmd_parse(data)
    return None if r is None else r[1]


def apdu_resp_is_valid(rdf_len):
    return 0 <= rdf_len <= 65536


def apdu_resp_enc(sw1, sw2, rdf):
    rdf = _b(rdf)
    if not apdu_resp_is_valid(len(rdf)):
        return None
    return rdf + bytes([sw1, sw2])


def apdu_resp_dec(data):
    data = _b(data)
    if len(data) < 2:
        return None
    return (data[-2], data[-1], data[:-2])


# =============================================================================
# hex
# =============================================================================

_HEXU = "0123456789ABCDEF"
_HEXL = "0123456789abcdef"
_HEXV = {}
for _i, _c in enumerate(_HEXU):
    _HEXV[ord(_c)] = _i
for _i, _c in enumerate(_HEXL):
    _HEXV[ord(_c)] = _i


def hex_is_valid(s):
    cs = _s(s)
    return len(cs) % 2 == 0 and all(c in _HEXV for c in cs)


def hex_from(buf):
    return ''.join(_HEXU[o >> 4] + _HEXU[o & 15] for o in _b(buf))


def hex_from_rev(buf):
    return hex_from(_b(buf)[::-1])


def hex_to(s):
    if not hex_is_valid(s):
        return None
    cs = _s(s)
    return bytes((_HEXV[cs[i]] << 4) | _HEXV[cs[i + 1]]
                 for i in range(0, len(cs), 2))


def hex_to_rev(s):
    r = hex_to(s)
    return None if r is None else r[::-1]


def hex_upper(s):
    r = hex_to(s)
    return None if r is None else hex_from(r)


def hex_lower(s):
    r = hex_to(s)
    return None if r is None else hex_from(r).lower()


def hex_eq(buf, s):
    r = hex_to(s)
    return r is not None and _b(buf)[:len(r)] == r


def hex_eq_rev(buf, s):
    r = hex_to_rev(s)
    return r is not None and _b(buf)[:len(r)] == r


# =============================================================================
# base64
# =============================================================================

_B64 = ("ABCDEFGHIJKLMNOPQRSTUVWXYZ"
        "abcdefghijklmnopqrstuvwxyz"
        "0123456789+/")
_B64V = {ord(c): i for i, c in enumerate(_B64)}


def b64_is_valid(s):
    cs = _s(s)
    if len(cs) % 4:
        return False
    if not cs:
        return True
    last = cs[-4:]
    if not all(c in _B64V for c in cs[:-4]):
        return False
    if last[3] != 0x3D:
        return all(c in _B64V for c in last)               # abcd
    if last[2] != 0x3D:
        # abc=
        return (all(c in _B64V for c in last[:3]) and
                (_B64V[last[2]] & 3) == 0)
    # ab==
    return (all(c in _B64V for c in last[:2]) and
            (_B64V[last[1]] & 15) == 0)


def b64_from(buf):
    buf = _b(buf)
    out = []
    for i in range(0, len(buf), 3):
        blk = buf[i:i + 3]
        n = int.from_bytes(blk + b'\x00' * (3 - len(blk)), 'big')
        syms = [_B64[(n >> 18) & 63], _B64[(n >> 12) & 63],
                _B64[(n >> 6) & 63], _B64[n & 63]]
        if len(blk) == 2:
            syms[3] = '='
        elif len(blk) == 1:
            syms[2] = syms[3] = '='
        out.extend(syms)
    return ''.join(out)


def b64_to(s):
    if not b64_is_valid(s):
        return None
    cs = _s(s)
    out = bytearray()
    for i in range(0, len(cs), 4):
        q = cs[i:i + 4]
        pad = (q[3] == 0x3D) + (q[2] == 0x3D)
        n = 0
        for c in q:
            n = (n << 6) | (0 if c == 0x3D else _B64V[c])
        out += n.to_bytes(3, 'big')[:3 - pad]
    return bytes(out)


# =============================================================================
# decimal strings
# =============================================================================

def dec_is_valid(s):
    return all(0x30 <= c <= 0x39 for c in _s(s))


def _digits(s):
    if not dec_is_valid(s):
        raise ValueError("\\pre decIsValid(dec)")
    return [c - 0x30 for c in _s(s)]


def dec_clz(s):
    n = 0
    for d in _digits(s):
        if d:
            break
        n += 1
    return n


def _dec_from(count, num):
    return ''.join(str((num // 10**(count - 1 - i)) % 10)
                   for i in range(count))


def dec_from_u32(count, num):
    return _dec_from(count, num & U32_MAX)


def dec_from_u64(count, num):
    return _dec_from(count, num & U64_MAX)


def _dec_val(s):
    v = 0
    for d in _digits(s):
        v = 10 * v + d
    return v


def dec_to_u32(s):
    return _dec_val(s) & U32_MAX


def dec_to_u64(s):
    return _dec_val(s) & U64_MAX


def dec_fits_u32(s):
    return _dec_val(s) <= U32_MAX


def dec_fits_u64(s):
    return _dec_val(s) <= U64_MAX


def _luhn_sum(ds, double_rightmost):
    tot = 0
    dbl = double_rightmost
    for d in reversed(ds):
        if dbl:
            d = 2 * d
            if d > 9:
                d -= 9
        tot += d
        dbl = not dbl
    return tot


def dec_luhn_calc(s):
    """check digit to be appended on the right"""
    return str((10 - _luhn_sum(_digits(s), True) % 10) % 10)


def dec_luhn_verify(s):
    return _luhn_sum(_digits(s), False) % 10 == 0


# the totally anti-symmetric quasigroup of Damm (2004)
_DAMM = (
    (0, 3, 1, 7, 5, 9, 8, 6, 4, 2),
    (7, 0, 9, 2, 1, 5, 4, 8, 6, 3),
    (4, 2, 0, 6, 8, 7, 1, 3, 5, 9),
    (1, 7, 5, 0, 9, 8, 3, 4, 2, 6),
    (6, 1, 2, 3, 0, 4, 5, 9, 7, 8),
    (3, 6, 7, 4, 2, 0, 9, 5, 8, 1),
    (5, 8, 6, 9, 7, 2, 0, 1, 3, 4),
    (8, 9, 4, 5, 3, 6, 2, 0, 1, 7),
    (9, 4, 3, 8, 6, 1, 7, 2, 0, 5),
    (2, 5, 8, 1, 4, 3, 6, 7, 9, 0),
)


def dec_damm_calc(s):
    cd = 0
    for d in _digits(s):
        cd = _DAMM[cd][d]
    return str(cd)


def dec_damm_verify(s):
    return dec_damm_calc(s) == '0'


__all__ = [n for n in dir() if not n.startswith('_') and
           n not in ('json', 'os', 'sys')]

# =============================================================================
# self-test on harvested vectors
# =============================================================================

_VEC = os.path.join(os.path.dirname(os.path.abspath(__file__)),
                    'vectors', 'codec.json')


def _H(x):
    return bytes.fromhex(x)


def _selftest(path=_VEC):
    import base64
    with open(path) as f:
        V = json.load(f)
    n = 0
    bad = []

    def chk(cond, what):
        nonlocal n
        n += 1
        if not cond:
            bad.append(what)

    g = globals()

    def conv(x):
        """JSON value -> python: {"hex": ..} -> bytes, lists -> tuples"""
        if isinstance(x, dict) and set(x) == {'hex'}:
            return _H(x['hex'])
        if isinstance(x, list):
            return tuple(conv(y) for y in x)
        return x

    # generic "call" vectors: fn(*args) == ret
    for v in V['calls']:
        fn = g[v['fn']]
        args = [conv(a) for a in v['args']]
        exp = conv(v['ret'])
        got = fn(*args)
        chk(got == exp, "%s%r -> %r, expected %r [%s]" %
            (v['fn'], tuple(args), got, exp, v.get('src', '')))

    # OID round trips (oid_test.c "длинная длина", "OpenSSL errors")
    for s in V['oid_roundtrip']:
        d = oid_to_der(s)
        chk(d is not None and oid_from_der(d) == s and
            der_oid_dec2(d, s) == len(d), "oid roundtrip " + s[:40])

    # apdu_test.c: all cdf_len x rdf_len combinations
    lp = V['apdu_loop']
    for cl in range(lp['cdf_len'][0], lp['cdf_len'][1] + 1):
        cdf = bytes([lp['fill']]) * cl
        for rl in range(lp['rdf_len'][0], lp['rdf_len'][1] + 1):
            e = apdu_cmd_enc(*lp['hdr'], cdf, rl)
            ok = (e is not None and
                  apdu_cmd_dec(e) == (*lp['hdr'], cdf, rl) and
                  apdu_cmd_dec(e, canonical=True) == (*lp['hdr'], cdf, rl))
            chk(ok, "apdu loop cdf_len=%d rdf_len=%d" % (cl, rl))

    # hex_test.c / b64_test.c loops over prefixes of beltH()
    H = _H(V['beltH'])
    chk(len(H) == 256, "beltH length")
    for c in range(0, 257):
        x = H[:c]
        h = hex_from(x)
        chk(h == x.hex().upper() and hex_is_valid(h) and hex_eq(H, h) and
            hex_to(h) == x and hex_to(h.lower()) == x, "hex %d" % c)
        r = hex_from_rev(x)
        chk(r == x[::-1].hex().upper() and hex_eq_rev(H[:c], r) and
            hex_to_rev(r) == x, "hexrev %d" % c)
        chk(hex_upper(hex_lower(r)) == r and hex_lower(r) == r.lower(),
            "hexcase %d" % c)
    for c in range(0, 256):
        x = H[:c]
        b = b64_from(x)
        chk(b == base64.b64encode(x).decode() and b64_is_valid(b) and
            len(b) == 4 * ((c + 2) // 3) and b64_to(b) == x, "b64 %d" % c)

    if bad:
        for m in bad[:50]:
            print("FAIL:", m)
        print("FAILED %d of %d vectors" % (len(bad), n))
        return 1
    print("OK %d vectors" % n)
    return 0


if __name__ == '__main__':
    if len(sys.argv) >= 2 and sys.argv[1] == '--selftest':
        sys.exit(_selftest())
    print(__doc__)
    sys.exit(2)
